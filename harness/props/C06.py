"""C06 — capability gating.  See DESIGN.md §2 C06 and design/C06.md.

Pipeline of one run:
 1 proofs      : theories/C06 (generic reflection / guard soundness / DeviceInfo theorems)
 2 translator  : harness/translators/C06_preds.py on the tree under verification -> build/C06/C06Gen.v
                 (one [bexpr] per can_*/support_* predicate, one [gprog] per role constructor and
                 guarded operation, the Commands/Capability enums)
 3 decisions   : inside Coq, per item: generated = Spec for all words?  (bequiv / checks_before_sends_*),
                 with a witness interface when not
 4 theorems    : build/C06/C06Thms.v, one theorem per item that decided true, proved from the generic
                 theorems by computing the premise; Print Assumptions on each
 5 implementation: the live predicates, constructors, operations and DeviceInfo on a recording
                 interface over all assignments of the mentioned bits x random other bits (+ corpus,
                 + the witnesses of step 3)
 6 oracle      : the property itself on those observations, against Spec.v (evaluated in Coq)
 7 translator validation: the generated terms evaluated in Coq agree with the observations
 8 verdict
"""
import json, os, re, hashlib
from harness import common as C
from harness.common import cbool, clist

PID = "C06"
T_BASES = {"ble": "BLE", "dot15d4": "Dot15d4", "esb": "ESB", "unifying": "Unifying", "phy": "Phy"}
BASE_IDS = {"ble.BLE", "dot15d4.Dot15d4", "zigbee.Zigbee", "rf4ce.RF4CE", "esb.ESB", "unifying.Unifying", "phy.Phy"}
DOMAIN_KEYS = ["ble", "dot15d4", "esb", "unifying", "phy"]
RES = {"ok": "ROk", "false": "RFalse", "UnsupportedDomain": "(RRaise EUnsupportedDomain)",
       "UnsupportedCapability": "(RRaise EUnsupportedCapability)"}


# ---------------------------------------------------------------------------------------
# small helpers
# ---------------------------------------------------------------------------------------

def bits(mask):
    return [i for i in range(mask.bit_length()) if (mask >> i) & 1]


def submasks(mask):
    bs = bits(mask)
    for k in range(1 << len(bs)):
        yield sum(1 << b for j, b in enumerate(bs) if (k >> j) & 1)


def parse_coq(txt):
    """Parse a printed Coq term made of lists [a; b], tuples (a, b), numbers, strings, true/false."""
    toks = re.findall(r'"(?:[^"]|"")*"|\[|\]|\(|\)|;|,|[A-Za-z_][A-Za-z0-9_.]*|\d+', txt.replace("%string", "").replace("%N", ""))
    pos = [0]

    def term():
        t = toks[pos[0]]
        pos[0] += 1
        if t == "[":
            out = []
            if toks[pos[0]] == "]":
                pos[0] += 1
                return out
            while True:
                out.append(term())
                t2 = toks[pos[0]]
                pos[0] += 1
                if t2 == "]":
                    return out
                assert t2 == ";", (t2, txt[:200])
        if t == "(":
            out = [term()]
            while toks[pos[0]] == ",":
                pos[0] += 1
                out.append(term())
            assert toks[pos[0]] == ")", txt[:200]
            pos[0] += 1
            return tuple(out) if len(out) > 1 else out[0]
        if t.startswith('"'):
            return t[1:-1].replace('""', '"')
        if t.isdigit():
            return int(t)
        return {"true": True, "false": False}.get(t, t)
    return term()


def res_term(r):
    return RES.get(r, "(RRaise EOther)")


class Gen:
    """The generated Coq file and the index maps that go with it."""

    def __init__(self, tr, bdir):
        self.tr, self.bdir = tr, bdir
        self.preds = [p for p in tr["preds"] if "coq" in p]
        self.ctors = [p for p in tr["ctors"] if "coq" in p]
        self.ops = [p for p in tr["ops"] if "coq" in p]
        self.errors = [(sec, p["id"], p["error"]) for sec in ("preds", "ctors", "ops") for p in tr[sec] if "error" in p]
        # tables used for the runs are in translator order and contain EVERY item (an item that could
        # not be translated is still run against the oracle; it has a placeholder in the generated table)
        self.pred_by_domain = {dk: [p for p in tr["preds"] if p["domain"] == dk] for dk in DOMAIN_KEYS}
        self.ctors_all, self.ops_all = tr["ctors"], tr["ops"]

    def text(self):
        L = ["(* GENERATED on every run by harness/translators/C06_preds.py from %s -- do not edit *)" % C.REPO,
             "From Coq Require Import List NArith Bool String.",
             "From Whad Require Import C06.Model C06.Spec C06.Proofs.",
             "Import ListNotations.", "Open Scope N_scope.", "Open Scope string_scope.", ""]
        for sec, ty in (("preds", "bexpr"), ("ctors", "gprog"), ("ops", "gprog")):
            for p in getattr(self, sec):
                t = p.get("tie", {})
                L.append("(* %s  %s:%s sha256=%s *)" % (p["id"], t.get("file"), t.get("lines"), t.get("sha256", "")[:16]))
                L.append("Definition %s : %s := %s." % (p["coq_name"], ty, p["coq"]))
        def table(name, ty, items):
            L.append("Definition %s : list (string * %s) := [%s]." % (
                name, ty, "; ".join('("%s", %s)' % (p["id"], p["coq_name"]) for p in items)))
        table("gen_preds", "bexpr", self.preds)
        table("gen_ctors", "gprog", self.ctors)
        table("gen_ops", "gprog", self.ops)
        L.append("Definition gen_pred_tables : list (list bexpr) := [%s]." % "; ".join(
            "[" + "; ".join((p["coq_name"] if "coq" in p else '(pred_spec "%s")' % p["id"]) for p in self.pred_by_domain[dk]) + "]" for dk in DOMAIN_KEYS))
        L.append("Definition spec_pred_tables : list (list bexpr) := Eval vm_compute in [%s]." % "; ".join(
            "[" + "; ".join('pred_spec "%s"' % p["id"] for p in self.pred_by_domain[dk]) + "]" for dk in DOMAIN_KEYS))
        opt = lambda p: ("(Some %s)" % p["coq_name"]) if "coq" in p else "None"
        L.append("Definition gen_ctor_table : list (option gprog) := [%s]." % "; ".join(opt(p) for p in self.ctors_all))
        L.append("Definition gen_op_table : list (option gprog) := [%s]." % "; ".join(opt(p) for p in self.ops_all))
        L.append("Definition ctor_ids : list string := [%s]." % "; ".join('"%s"' % p["id"] for p in self.ctors_all))
        L.append("Definition op_ids : list string := [%s]." % "; ".join('"%s"' % p["id"] for p in self.ops_all))
        L.append("Definition pred_ids : list string := [%s]." % "; ".join('"%s"' % p["id"] for dk in DOMAIN_KEYS for p in self.pred_by_domain[dk]))
        L.append("Definition ctor_reqs : list bexpr := Eval vm_compute in map role_req ctor_ids.")
        L.append("Definition op_reqs : list bexpr := Eval vm_compute in map op_req op_ids.")
        L.append("Definition op_arg_reqs : list bexpr := Eval vm_compute in map op_arg_req op_ids.")
        en = self.tr["enums"]
        L.append("Definition gen_enums : list (string * list (string * N)) := [%s]." % "; ".join(
            '("%s", [%s])' % (k, "; ".join('("%s", %d)' % (n, v) for n, v in sorted(en[k].items()))) for k in sorted(en)))
        return "\n".join(L) + "\n"


def load_pre(bdir):
    return ('Set Warnings "-deprecated".\nAdd LoadPath "%s" as WhadGen.\nFrom Whad Require Import C06.Model C06.Spec C06.Proofs.\n'
            'From WhadGen Require Import C06Gen.\nOpen Scope N_scope.\nOpen Scope string_scope.' % bdir)


# ---------------------------------------------------------------------------------------
# case generation
# ---------------------------------------------------------------------------------------

def pred_envs(ctx, gen, supp, extra):
    """per domain: every assignment of the bits a predicate mentions x R settings of the other bits"""
    rng = ctx.rng
    R = 64 if ctx.thorough else 16
    out, seen = [], set()
    def add(dk, cm, cp, why):
        key = (dk, cm, cp)
        if key not in seen:
            seen.add(key)
            out.append({"dk": dk, "cmds": cm, "caps": cp, "seed": rng.randrange(1 << 30), "why": why})
    for e in extra:
        add(e["dk"], e["cmds"], e["caps"], e.get("why", "corpus"))
    for dk in DOMAIN_KEYS:
        for p in gen.pred_by_domain[dk]:
            mc, mp = supp[p["id"]]
            for ac in submasks(mc):
                for ap in submasks(mp):
                    for j in range(R):
                        if j == 0:
                            oc, op = 0, 0
                        elif j == 1:
                            oc, op = (1 << 64) - 1, 0xFFFFFF
                        else:
                            oc = rng.getrandbits(64 if j % 8 == 2 else 32)
                            op = rng.getrandbits(24)
                        add(dk, ac | (oc & ~mc), (ap | (op & ~mp)) & 0xFFFFFF, p["method"])
    return out


SUPPLYABLE = ["bd_address", "adv_data", "scan_data", "profile", "security_database", "public", "synchronous",
              "applications", "profiles", "existing_connection", "connection", "from_json", "stack", "gatt", "client",
              "pairing", "configuration", "scapy_config"]      # optional constructor parameters the driver has a value for


def path_kwargs(path, opt_params):
    """branches of a model counterexample (label, taken) -> optional constructor parameters to supply.
    Labels are the source text of argument tests: `x is not None`, `x is None`, `x`."""
    kw, unmapped = [], []
    for label, taken in path:
        m = re.match(r"^(\w+) is not None$", label)
        name, supply = (m.group(1), taken) if m else (None, None)
        if not m:
            m = re.match(r"^(\w+) is None$", label)
            name, supply = (m.group(1), not taken) if m else (None, None)
        if not m:
            m = re.match(r"^(\w+)$", label)
            name, supply = (m.group(1), taken) if m else (None, None)
        if name is None or name not in opt_params:
            continue            # not a test on a constructor argument (isinstance, loop ...)
        if supply:
            (kw if name in SUPPLYABLE else unmapped).append(name)
    return sorted(set(kw)), sorted(set(unmapped))


def run_envs(ctx, items, supports, extra, with_dom):
    """constructors / operations: every assignment of the bits mentioned by the generated
    program and by its requirement x settings of the others (all 0, all 1, random).
    Constructors are additionally run with each optional argument supplied (and all of them),
    with every other command advertised: an optional step taken before a required check shows."""
    rng = ctx.rng
    R = 12 if ctx.thorough else 3
    out, seen = [], set()
    def add(i, cm, cp, dom, why, kw=()):
        key = (i, cm, cp, dom, tuple(kw))
        if key not in seen:
            seen.add(key)
            out.append({"i": i, "id": items[i]["id"], "cmds": cm, "caps": cp, "dom": dom, "kw": list(kw),
                        "seed": rng.randrange(1 << 30), "why": why})
    ids = {p["id"]: i for i, p in enumerate(items)}
    ALL = (1 << 32) - 1
    for e in extra:
        if e["id"] in ids:
            i = ids[e["id"]]
            add(i, e["cmds"], e["caps"], e.get("dom", True), e.get("why", "corpus"), e.get("kw", ()))
            if e.get("why") == "model-witness":
                # the witness fixes the mentioned bits; also try it with every other command advertised
                mc = supports[i][0]
                add(i, e["cmds"] | (ALL & ~mc), e["caps"], e.get("dom", True), "model-witness", e.get("kw", ()))
                add(i, e["cmds"] | (rng.getrandbits(32) & ~mc), e["caps"], e.get("dom", True), "model-witness", e.get("kw", ()))
    for i, p in enumerate(items):
        mc, mp = supports[i][0], supports[i][1] & 0xFFFFFF
        if len(bits(mc)) + len(bits(mp)) > 10:
            raise C.CheckBroken("%s mentions %d bits: sweep too large" % (p["id"], len(bits(mc)) + len(bits(mp))))
        opt = [n for n in p.get("opt_params", []) if n in SUPPLYABLE] if with_dom else []
        variants = [[n] for n in opt] + ([opt] if len(opt) > 1 else [])
        for ac in submasks(mc):
            for ap in submasks(mp):
                for j in range(R):
                    oc = 0 if j == 0 else (ALL if j == 1 else rng.getrandbits(32))
                    op = 0 if j <= 1 else rng.getrandbits(24)
                    cm, cp = ac | (oc & ~mc), (ap | (op & ~mp)) & 0xFFFFFF
                    add(i, cm, cp, True, "sweep")
                    if with_dom and (j == 0 or ac == mc):
                        add(i, cm, cp, False, "no-domain")
                for kw in variants:
                    add(i, ac | (ALL & ~mc), ap, True, "optional-args", kw)
        add(i, ALL, 0, True, "everything-advertised")
    return out


def di_cases(ctx, extra):
    rng = ctx.rng
    doms = [0x01000000, 0x03000000, 0x04000000, 0x06000000, 0x07000000, 0x02000000, 0x7F000000, 0]
    caps = [0x01, 0x02, 0x04, 0x08, 0x10, 0x20, 0x40, 0x80]
    out = list(extra)
    for _ in range(6000 if ctx.thorough else 600):
        ws = []
        for _k in range(rng.randrange(0, 5)):
            d = rng.choice(doms)
            c = rng.choice([0, rng.choice(caps), rng.choice(caps) | rng.choice(caps), rng.getrandbits(24), 0xFFFFFF, rng.getrandbits(8)])
            ws.append(d | c)
        adds = [[rng.choice(doms), rng.getrandbits(rng.choice([8, 27, 40]))] for _k in range(rng.randrange(0, 3))]
        q = rng.choice(doms if not ws else [w & 0xFF000000 for w in ws] + [rng.choice(doms)])
        cap = rng.choice(caps + [0, 0x06, 0xFF, 0x100, rng.getrandbits(24)])
        out.append({"words": ws, "adds": adds, "domain": q, "cap": cap})
    return out


# ---------------------------------------------------------------------------------------
# run
# ---------------------------------------------------------------------------------------

def run(ctx):
    bdir = C.build_dir(PID, clean=True)
    ctx.cov["trusted_base"] = [
        "Coq 8.16.1 kernel + vm_compute (no native_compute); every theorem closed under the global context (Print Assumptions each run, also for the generated per-item theorems)",
        "translator harness/translators/C06_preds.py (Python ast -> bexpr/gprog): that its grammar means in Coq what it means in Python; validated on every run by differential evaluation against the live methods on a recording interface",
        "allow-list of non-transmitting calls in the translator (device.open/discover send discovery messages only; message factories; stack constructors): validated by the recording-interface runs (model says nothing sent => nothing seen)",
        "hand-written Spec.v (intended meaning of each predicate, role -> requirement, operation -> guard); its bit numbering is compared with the imported Commands/Capability enums on every run",
        "the recording interface (VirtualDevice subclass in harness/impl/C06.py) stands for a real interface: answers discovery from the advertised words, acknowledges every command",
        "Python semantics assumed by the embedding: arbitrary-precision non-negative ints, `and`/`or`/`not` used for their truth value only",
    ]
    ctx.assumptions = ["capability word < 2^24 (it is the low 24 bits of a 32-bit advertised word), command word any natural number",
                       "the theorems cover every branch on constructor/operation arguments (GChoice); the runs call constructors with default arguments and with each optional argument the driver has a value for (every optional parameter of the 40 constructors except `device`)"]
    proofs_ok, detail = ctx.check_proofs()
    ctx.log("proofs:", proofs_ok, detail.splitlines()[0][:200])

    # ---- 2 translator -------------------------------------------------------------------
    spec_ops = parse_coq(C.coq_eval(PID, "C06SpecOps", "From Whad Require Import C06.Model C06.Spec.\nOpen Scope string_scope.",
                                    ["map fst op_specs"])[0])
    tr = C.run_impl("C06.py", {"mode": "translate", "want_ops": spec_ops})
    gen = Gen(tr, bdir)
    with open(os.path.join(bdir, "C06Gen.v"), "w") as f:
        f.write(gen.text())
    hits = C.forbidden_scan([bdir])
    rc, out = C.coqc_file(os.path.join(bdir, "C06Gen.v"), extra_Q=[(bdir, "WhadGen")])
    if rc != 0 or hits:
        raise C.CheckBroken("generated C06Gen.v does not compile: " + (out[-1500:] if rc else str(hits)))
    ctx.log("translator: %d predicates, %d constructors, %d operations, %d not translated"
            % (len(gen.preds), len(gen.ctors), len(gen.ops), len(gen.errors)))
    ctx.cov["source_ties"] = [p["tie"] for sec in ("preds", "ctors", "ops") for p in tr[sec] if "tie" in p] + \
        [C.source_tie("whad/device/info.py", 38, 104), C.source_tie("whad/hub/discovery/__init__.py", 8, 36)]

    # ---- 3 decisions inside Coq ------------------------------------------------------------
    pre = load_pre(bdir)
    dec = C.coq_eval(PID, "C06Decide", pre, [
        "map decide_pred gen_preds", "map decide_ctor gen_ctors", "map decide_op gen_ops",
        "enum_consistent gen_enums",
        "(missing_ids pred_specs gen_preds, missing_ids role_specs gen_ctors, missing_ids op_specs gen_ops)",
        "map (fun k => env_list (Some (bsupp (pred_spec k)))) pred_ids",
        "map (fun k => env_list (Some (bsupp (role_req k)))) ctor_ids",
        "map (fun k => env_list (Some (bsupp (op_req k)))) op_ids",
        "map (fun k => match assoc k op_specs with Some _ => true | None => false end) op_ids",
        "map decide_ctor_path gen_ctors", "map decide_op_path gen_ops",
        "map decide_op_arg gen_ops", "map (fun k => env_list (Some (bsupp (op_arg_req k)))) op_ids",
        "map (fun k => match assoc k op_arg_specs with Some _ => true | None => false end) op_ids",
        "missing_ids op_arg_specs gen_ops"])
    d_pred, d_ctor, d_op, enum_bad, missing, ss_pred, ss_ctor, ss_op, op_has_spec, path_ctor, path_op, \
        d_oparg, ss_oparg, op_has_arg, missing_arg = [parse_coq(x) for x in dec]
    wpath = {p["id"]: pa for p, pa in zip(gen.ctors, path_ctor)}
    # bits to sweep = bits mentioned by the generated term (translator) UNION bits mentioned by the Spec
    def usupp(p, ss):
        g = p.get("supp", {"cmds": 0, "caps": 0})
        return (g["cmds"] | ss[0], (g["caps"] | ss[1]) & 0xFFFFFF)
    sp_pred = {p["id"]: usupp(p, ss) for p, ss in zip([p for dk in DOMAIN_KEYS for p in gen.pred_by_domain[dk]], ss_pred)}
    s_ctor = [usupp(p, ss) for p, ss in zip(gen.ctors_all, ss_ctor)]
    s_op = [usupp(p, ss) for p, ss in zip(gen.ops_all, ss_op)]
    items = [("pred", p, d) for p, d in zip(gen.preds, d_pred)] + [("ctor", p, d) for p, d in zip(gen.ctors, d_ctor)] + \
            [("op", p, d) for p, d in zip(gen.ops, d_op)] + [("oparg", p, d) for p, d in zip(gen.ops, d_oparg) if d[0] != 0]
    proved = [(k, p) for k, p, d in items if d[0] == 1]
    refuted = [(k, p, d) for k, p, d in items if d[0] == 2]
    nospec = [(k, p) for k, p, d in items if d[0] == 0]
    ctx.log("decisions: %d hold for all words, %d refuted, %d without spec; enum mismatches %s; missing %s"
            % (len(proved), len(refuted), len(nospec), enum_bad, missing))

    # ---- 4 per-item theorems ---------------------------------------------------------------
    L = ["From Coq Require Import List NArith Bool String.", pre, "Import ListNotations."]
    names = []
    for k, p in proved:
        if k == "pred":
            n = "pred_meaning_%s_%s" % (p["domain"], p["method"])
            L.append('Theorem %s : forall env, beval %s env = beval (pred_spec "%s") env.\n'
                     'Proof. apply bequiv_sound. vm_compute. reflexivity. Qed.' % (n, p["coq_name"], p["id"]))
        elif k == "ctor":
            n = "ctor_guard_" + p["coq_name"][5:]
            L.append('Theorem %s : forall e r sends, In (r, sends) (grun %s e) ->\n'
                     '  (beval has_domain e = false -> r = RRaise EUnsupportedDomain /\\ sends = []) /\\\n'
                     '  (beval has_domain e = true -> beval (role_req "%s") e = false -> r = RRaise EUnsupportedCapability /\\ sends = []).\n'
                     'Proof. apply guard_sound_ctor. vm_compute. reflexivity. Qed.' % (n, p["coq_name"], p["id"]))
        elif k == "oparg":
            n = "op_arg_guard_" + p["coq_name"][3:]
            L.append('Theorem %s : forall e path r sends, In (path, (r, sends)) (gpaths %s e) ->\n'
                     '  path_consistent (op_arg_asm "%s") path = true -> beval (op_arg_req "%s") e = false ->\n'
                     '  (r = RRaise EUnsupportedCapability \\/ r = RFalse) /\\ sends = [].\n'
                     'Proof. apply guard_sound_op_arg. vm_compute. reflexivity. Qed.' % (n, p["coq_name"], p["id"], p["id"]))
        else:
            n = "op_guard_" + p["coq_name"][3:]
            L.append('Theorem %s : forall e r sends, In (r, sends) (grun %s e) -> beval (op_req "%s") e = false ->\n'
                     '  (r = RRaise EUnsupportedCapability \\/ r = RFalse) /\\ sends = [].\n'
                     'Proof. apply guard_sound_op. vm_compute. reflexivity. Qed.' % (n, p["coq_name"], p["id"]))
        names.append(n)
    thm_path = os.path.join(bdir, "C06Thms.v")
    def compile_thms(individual):
        M = list(L)
        if individual:
            for n in names:
                M.append('Goal True. idtac "BEGIN %s". Abort.\nPrint Assumptions %s.\nGoal True. idtac "END %s". Abort.' % (n, n, n))
        elif names:
            # one traversal for all of them: the tuple of all generated theorems
            M.append("Definition C06_all_generated := (%s)." % ", ".join(names))
            M.append('Goal True. idtac "BEGIN ALL". Abort.\nPrint Assumptions C06_all_generated.\nGoal True. idtac "END ALL". Abort.')
        with open(thm_path, "w") as f:
            f.write("\n".join(M) + "\n")
        return C.coqc_file(thm_path, extra_Q=[(bdir, "WhadGen")])
    rc, out = compile_thms(False)
    closed = []
    if rc == 0:
        m = re.search(r"BEGIN ALL\n(.*?)END ALL", out, re.S)
        if (m and m.group(1).strip().startswith("Closed under the global context")) or not names:
            closed = list(names)
        else:
            rc, out = compile_thms(True)
            for n in names:
                m = re.search(r"BEGIN %s\n(.*?)END %s" % (re.escape(n), re.escape(n)), out, re.S)
                if m and m.group(1).strip().startswith("Closed under the global context"):
                    closed.append(n)
    # in scope: every predicate, every role constructor, every operation with an entry in Spec.v
    n_items = len(tr["preds"]) + len(tr["ctors"]) + sum(1 for has in op_has_spec if has) + sum(1 for has in op_has_arg if has)
    ctx.cov["obligations"] += n_items + 1        # one per translated item + the enum table
    ctx.cov["discharged"] += len(closed) + (0 if enum_bad else 1)
    ctx.cov["generated_theorems"] = {"proved_closed": len(closed), "items": n_items,
                                     "file": os.path.relpath(thm_path, C.VERIF)}
    ctx.cov["checker_cmd"] += " ; coqc build/C06/C06Gen.v C06Decide.v C06Thms.v (%d generated theorems, Print Assumptions each)" % len(names)
    thms_ok = (rc == 0 and len(closed) == len(names))
    chk_future = None
    if ctx.thorough and thms_ok:
        # independent re-check of the compiled proofs (static theories + generated theorems) with coqchk
        import concurrent.futures as _cf
        _ex = _cf.ThreadPoolExecutor(max_workers=1)
        chk_future = _ex.submit(C.sh, ["timeout", "900", "coqchk", "-silent", "-o", "-Q", os.path.join(C.COQ, "theories"), "Whad",
                                       "-Q", bdir, "WhadGen", "Whad.C06.Property", "WhadGen.C06Thms"], 930, bdir)
    ctx.log("generated theorems: %d/%d closed" % (len(closed), len(names)))

    # ---- 5 implementation runs ---------------------------------------------------------------
    corpus = []
    cdir = os.path.join(C.VERIF, "corpus", PID)
    for fn in sorted(os.listdir(cdir)) if os.path.isdir(cdir) else []:
        w = json.load(open(os.path.join(cdir, fn)))
        for c in w.get("cases", []):
            c["why"] = "corpus:" + fn
            corpus.append(c)
    wit_pred, wit_ctor, wit_op, wit_oparg = [], [], [], []
    for k, p, d in refuted:
        if len(d) >= 4:
            w = {"id": p["id"], "cmds": d[1], "caps": d[2] & 0xFFFFFF, "dom": bool(d[3] & 1) if k == "ctor" else True, "why": "model-witness"}
            if k == "oparg":
                wit_oparg.append(w)
            elif k == "pred":
                wit_pred.append(dict(w, dk=p["domain"]))
            elif k == "ctor":
                # arguments of the violating path of the guard program
                kw, unmapped = path_kwargs(wpath.get(p["id"], []), p.get("opt_params", []))
                w["kw"] = kw
                if unmapped:
                    ctx.notes.append("%s: counterexample path needs argument(s) %s for which the driver has no value" % (p["id"], unmapped))
                wit_ctor.append(w)
            else:
                wit_op.append(w)
    penvs = pred_envs(ctx, gen, sp_pred, [c for c in corpus if c.get("kind") == "pred"] + wit_pred)
    cenvs = run_envs(ctx, gen.ctors_all, s_ctor, [c for c in corpus if c.get("kind") == "ctor"] + wit_ctor, True)
    oenvs = run_envs(ctx, gen.ops_all, s_op, [c for c in corpus if c.get("kind") == "op"] + wit_op, False)
    nospec_ops = {p["id"] for p, has in zip(gen.ops_all, op_has_spec) if not has}
    oenvs = [e for e in oenvs if e["id"] not in nospec_ops]      # operations outside Spec.v: listed in the evidence, not run
    for e in oenvs:
        e["pre"] = []
        e["variant"] = ""
    # argument-dependent guards: the same operations called with a CONTROL PDU, over the bits of the
    # operation's guard and of the argument guard (NoRawData flag), others all 0 / all 1
    aenvs = []
    ALL32_ = (1 << 32) - 1
    for i, p in enumerate(gen.ops_all):
        if not op_has_arg[i]:
            continue
        mc, mp = s_op[i][0] | ss_oparg[i][0], (s_op[i][1] | ss_oparg[i][1]) & 0xFFFFFF
        cases_ = [(ac | (oc & ~mc), ap) for ac in submasks(mc) for ap in submasks(mp) for oc in (0, ALL32_)]
        cases_ += [(w_["cmds"], w_["caps"]) for w_ in wit_oparg if w_["id"] == p["id"]]
        cases_ += [(w_["cmds"] | (ALL32_ & ~mc), w_["caps"]) for w_ in wit_oparg if w_["id"] == p["id"]]
        for cm, cp in dict.fromkeys(cases_):
            aenvs.append({"i": i, "id": p["id"], "cmds": cm, "caps": cp, "dom": True, "kw": [], "pre": [], "variant": "ctrl",
                          "seed": ctx.rng.randrange(1 << 30), "why": "control-pdu"})
    # sequences: every specified operation preceded by each other public operation of the same connector,
    # on the interface that advertises everything EXCEPT what the operation needs (so the preceding call
    # succeeds and may prime caches) -- the guard must still hold; thorough: also length 3 and "everything"
    ALL32 = (1 << 32) - 1
    n_single = len(oenvs)
    for i, p in enumerate(gen.ops_all):
        if p["id"] in nospec_ops:
            continue
        prefixes = [m for m in tr.get("prefix_methods", {}).get("%s.%s" % (p["domain"], p["class"]), []) if m != p["method"]]
        mc = ss_op[i][0]
        seqs = [[m] for m in prefixes]
        if ctx.thorough:
            seqs += [[m, m2] for m in prefixes for m2 in (p.get("state_reads") and prefixes or prefixes[:3]) if m2 != m][:120]
        for pre_ in seqs:
            for cm in ([ALL32 & ~mc] + ([ALL32] if ctx.thorough else [])):
                oenvs.append({"i": i, "id": p["id"], "cmds": cm, "caps": 0, "dom": True, "kw": [], "pre": pre_, "variant": "",
                              "seed": ctx.rng.randrange(1 << 30), "why": "sequence"})
    dis = di_cases(ctx, [c for c in corpus if c.get("kind") == "di"])
    ctx.log("cases: %d predicate interfaces, %d constructor runs, %d operation runs, %d DeviceInfo" % (len(penvs), len(cenvs), len(oenvs), len(dis)))
    # several driver processes in parallel (each imports scapy once)
    import concurrent.futures as cf
    NP = 6
    def chunk(l, n):
        k = (len(l) + n - 1) // n or 1
        return [l[i:i + k] for i in range(0, len(l), k)] or [[]]
    jobs = []
    for part in chunk(penvs, NP):
        jobs.append(("preds", part, {"mode": "eval", "preds": [[e["dk"], e["cmds"], e["caps"], e["seed"]] for e in part]}))
    for part in chunk(cenvs, NP):
        jobs.append(("ctors", part, {"mode": "eval", "ctors": [[e["id"], e["cmds"], e["caps"], e["dom"], e["seed"], e["kw"]] for e in part]}))
    for part in chunk(oenvs, NP) + [aenvs]:
        jobs.append(("ops", part, {"mode": "eval", "ops": [[e["id"], e["cmds"], e["caps"], e["seed"], e["pre"], e["variant"]] for e in part]}))
    jobs.append(("di", dis, {"mode": "eval", "di": [[e["words"], e["adds"], e["domain"], e["cap"]] for e in dis]}))
    # device-originated events interleaved with operations, base connectors, phase A: everything advertised
    EVENTS = {"ble": ["@connected", "@disconnected", "@synchronized", "@desynchronized", "@triggered"],
              "dot15d4": ["@jammed", "@ed_sample"], "esb": ["@jammed"], "unifying": ["@jammed"], "phy": ["@jammed"]}
    BASE_OF = {"ble": "ble.BLE", "dot15d4": "dot15d4.Dot15d4", "esb": "esb.ESB", "unifying": "unifying.Unifying", "phy": "phy.Phy"}
    evA = []
    for dk, bid in BASE_OF.items():
        pm = tr.get("prefix_methods", {}).get("%s.%s" % (dk, T_BASES[dk]), [])
        words = [[ev] for ev in EVENTS[dk]] + [[m, ev] for m in pm for ev in EVENTS[dk]]
        if ctx.thorough:
            words += [[m, e1, e2] for m in pm for e1 in EVENTS[dk] for e2 in EVENTS[dk]]
        for w in words:
            evA.append({"id": bid, "dk": dk, "cmds": ALL32, "caps": 0, "seq": w, "seed": ctx.rng.randrange(1 << 30)})
    for part in chunk(evA, 3):
        jobs.append(("seqs", part, {"mode": "eval", "seqs": [[e["id"], e["cmds"], e["caps"], e["seed"], e["seq"]] for e in part]}))
    with cf.ThreadPoolExecutor(max_workers=14) as ex:
        futs = [ex.submit(C.run_impl, "C06.py", j[2]) for j in jobs]
        for j, fu in zip(jobs, futs):
            r = fu.result()[j[0]]
            if len(r) != len(j[1]):
                raise C.CheckBroken("driver returned %d results for %d %s cases" % (len(r), len(j[1]), j[0]))
            for e, o in zip(j[1], r):
                e["obs"] = o
    # sequences of operations on role connectors (second round: on interfaces where the constructor
    # completed): start / stop / the role's own argument-less operations that consult a predicate
    import itertools
    senvs = []
    for i, p in enumerate(gen.ctors_all):
        alpha = (p.get("seq_methods") or [])[:4]
        if not alpha or p["id"] in BASE_IDS:
            continue
        ok_masks = sorted({(e["cmds"], e["caps"]) for e in cenvs if e["i"] == i and not e["kw"] and e["dom"]
                           and "skip" not in e["obs"] and e["obs"]["r"] == "ok"},
                          key=lambda m: (bin(m[0]).count("1"), m))[:(4 if ctx.thorough else 2)]
        en = tr["enums"][p["domain"]]
        ss = (1 << en["Start"]) | (1 << en["Stop"])
        words = [list(w) for n in ((2, 3) if len(alpha) <= 3 or ctx.thorough else (2,)) for w in itertools.product(alpha, repeat=n)]
        for cm, cp in ok_masks:
            for w in words:
                senvs.append({"i": i, "id": p["id"], "cmds": cm | ss, "caps": cp, "seq": w, "seed": ctx.rng.randrange(1 << 30)})
    # public entry points of the BLE role connectors that reach send_pdu(), called with a control PDU on an
    # interface advertising NoRawData (+SendPDU): nothing may be transmitted (also after a connection event)
    CTRL_ENTRY = {"ble.Central": ["send_pdu", "send_data_pdu", "send_ctrl_pdu"],
                  "ble.Peripheral": ["send_pdu", "send_data_pdu", "send_ctrl_pdu"],
                  "ble.Injector": ["send_pdu", "send_data_pdu", "send_ctrl_pdu"]}
    ble_en = tr["enums"]["ble"]
    for i, p in enumerate(gen.ctors_all):
        if p["id"] not in CTRL_ENTRY:
            continue
        okm = sorted({(e["cmds"], e["caps"]) for e in cenvs if e["i"] == i and not e["kw"] and e["dom"] and "skip" not in e["obs"]
                      and e["obs"]["r"] == "ok"}, key=lambda m: (bin(m[0]).count("1"), m))[:1]
        for cm, cp in okm:
            for send_bit in ("SendPDU", "SendRawPDU"):
                for m in CTRL_ENTRY[p["id"]]:
                    for w in ([m + "#ctrl"], ["@connected", m + "#ctrl"]):
                        senvs.append({"i": i, "id": p["id"], "cmds": cm | (1 << ble_en[send_bit]), "caps": cp | 0x80, "seq": w,
                                      "seed": ctx.rng.randrange(1 << 30), "ctrl_oracle": True})
    # phase B of the event sequences: for every command an event step was seen transmitting with everything
    # advertised, the same sequence on the interface that advertises everything BUT that command
    for e in evA:
        for k, st in enumerate(e["obs"]["steps"]):
            if e["seq"][k].startswith("@"):
                for b in sorted(set(x for x in st.get("bits", []) if x >= 0)):
                    senvs.append({"i": None, "id": e["id"], "cmds": ALL32 & ~(1 << b), "caps": 0, "seq": e["seq"],
                                  "seed": ctx.rng.randrange(1 << 30), "events_only": True})
    with cf.ThreadPoolExecutor(max_workers=NP) as ex:
        parts = chunk(senvs, NP)
        futs = [ex.submit(C.run_impl, "C06.py", {"mode": "eval", "seqs": [[e["id"], e["cmds"], e["caps"], e["seed"], e["seq"]] for e in part]}) for part in parts]
        for part, fu in zip(parts, futs):
            for e, o in zip(part, fu.result()["seqs"]):
                e["obs"] = o
    skipped_ctor = [e for e in cenvs if "skip" in e["obs"]]
    cenvs = [e for e in cenvs if "skip" not in e["obs"]]
    if skipped_ctor:
        ctx.notes.append("constructor runs skipped (no argument value): %d, e.g. %s" % (len(skipped_ctor), skipped_ctor[0]["obs"]))
    ctx.log("implementation runs done")

    # ---- 6/7 oracle + translator validation inside Coq ------------------------------------------
    nviol = 0
    # predicates
    pterms, pidx = [], []
    for i, e in enumerate(penvs):
        o = e["obs"]
        if not isinstance(o, list) or any(not isinstance(x, bool) for x in o):
            nviol += ctx.violation("predicate evaluation raised on an interface advertising the domain",
                                   {"kind": "pred", "dk": e["dk"], "cmds": e["cmds"], "caps": e["caps"], "seed": e["seed"]}, observed=o)
            continue
        sel = list(o)
        pterms.append("(%d%%nat, %d, %d, %s)" % (DOMAIN_KEYS.index(e["dk"]), e["cmds"], e["caps"], clist([cbool(b) for b in sel])))
        pidx.append(i)
    def run_terms(envs):
        return ["(%d%%nat, %d, %d, %s, %s, %s)" % (e["i"], e["cmds"], e["caps"], cbool(e["dom"]), res_term(e["obs"]["r"]), cbool(bool(e["obs"]["sent"])))
                for e in envs]
    cterms = run_terms(cenvs)
    oenvs_run = [e for e in oenvs if "skip" not in e["obs"]]
    oterms = run_terms(oenvs_run)
    aenvs_run = [e for e in aenvs if "skip" not in e["obs"]]
    aterms = run_terms(aenvs_run)
    dterms = ["(%s, %s, %d, %d, (%s, %s, %s, %s))" % (
        clist(["%d" % w for w in e["words"]]), clist(["(%d, %d)" % (a, b) for a, b in e["adds"]]), e["domain"], e["cap"],
        cbool(e["obs"][0]), C.copt(e["obs"][1], lambda v: "%d" % v), C.copt(e["obs"][2], lambda v: "%d" % v), cbool(e["obs"][3])) for e in dis]
    # one pass with oracle && translator validation; the failing cases (if any) are then classified
    groups = {"pred": ("env_case", pterms, "check_pred_env spec_pred_tables", "check_pred_env gen_pred_tables"),
              "ctor": ("run_case", cterms, "check_ctor_obs ctor_reqs", "check_run gen_ctor_table"),
              "op": ("run_case", oterms, "check_op_obs op_reqs", "check_run gen_op_table"),
              "oparg": ("run_case", aterms, "check_op_obs op_arg_reqs", "check_run gen_op_table"),
              "di": ("di_case", dterms, "check_di", "check_di")}
    with cf.ThreadPoolExecutor(max_workers=len(groups)) as ex:
        futs = {k: ex.submit(C.run_cases, PID, k + "_both", pre, v[0], v[1], "(fun c => %s c && %s c)" % (v[2], v[3]), 700)
                for k, v in groups.items()}
        both = {k: f.result()[0] for k, f in futs.items()}
    bad = {}
    for k, v in groups.items():
        sub = [v[1][i] for i in both[k]]
        for tag, fn in (("oracle", v[2]), ("corr", v[3])):
            bad[k + "_" + tag] = [both[k][j] for j in C.run_cases(PID, "%s_%s" % (k, tag), pre, v[0], sub, fn, 700)[0]] if sub else []
    bad_spec, bad_gen, bad_c_spec, bad_c_gen = bad["pred_oracle"], bad["pred_corr"], bad["ctor_oracle"], bad["ctor_corr"]
    bad_o_spec, bad_o_gen, bad_di = bad["op_oracle"], bad["op_corr"], bad["di_corr"]
    bad_a_spec, bad_a_gen = bad["oparg_oracle"], bad["oparg_corr"]
    ctx.log("coq evaluation of %d cases done" % (len(pterms) + len(cterms) + len(oterms) + len(dterms)))
    if bad_spec:
        cand = sorted(bad_spec, key=lambda b: (bin(penvs[pidx[b]]["cmds"]).count("1") + bin(penvs[pidx[b]]["caps"]).count("1")))
        exp = C.coq_eval(PID, "pred_expected", pre, [
            "preds_expected spec_pred_tables %d%%nat %d %d" % (DOMAIN_KEYS.index(penvs[pidx[b]]["dk"]), penvs[pidx[b]]["cmds"], penvs[pidx[b]]["caps"])
            for b in cand[:60]])
        done = set()
        for b, x in zip(cand[:60], exp):
            e = penvs[pidx[b]]
            want = parse_coq(x)
            got = list(e["obs"])
            for p, w_, g_ in zip(gen.pred_by_domain[e["dk"]], want, got):
                if w_ != g_ and p["id"] not in done:
                    done.add(p["id"])
                    nviol += ctx.violation("predicate %s is %s on an interface where its meaning (Spec) is %s" % (p["id"], g_, w_),
                                           {"kind": "pred", "dk": e["dk"], "id": p["id"], "method": p["method"], "cmds": e["cmds"], "caps": e["caps"], "seed": e["seed"]},
                                           expected=w_, observed=g_)
    # constructors / operations
    for kind, envs, bad in (("ctor", cenvs, bad_c_spec), ("op", oenvs_run, bad_o_spec), ("op", aenvs_run, bad_a_spec)):
        done = set()
        for b in sorted(bad, key=lambda b: (len(envs[b].get("pre", [])), bin(envs[b]["cmds"]).count("1") + bin(envs[b]["caps"]).count("1"))):
            e = envs[b]
            if e["id"] in done:
                continue
            done.add(e["id"])
            what = ("constructor %s" if kind == "ctor" else "operation %s") % e["id"]
            what += " on an interface that does not advertise what it needs: ended with %s after transmitting %s" % (e["obs"]["r"], e["obs"]["sent"] or "nothing")
            if e.get("kw"):
                what += " (constructor called with optional argument(s) %s)" % ", ".join(e["kw"])
            if e.get("pre"):
                what += " (called on the same connector after %s)" % ", ".join(x + "()" for x in e["pre"])
            if e.get("variant") == "ctrl":
                what += " (called with a PDU carrying a BTLE_CTRL layer; the interface advertises NoRawData: %s)" % bool(e["caps"] & 0x80)
            nviol += ctx.violation(what, {"kind": kind, "id": e["id"], "cmds": e["cmds"], "caps": e["caps"], "dom": e["dom"], "seed": e["seed"], "kw": e.get("kw", []), "pre": e.get("pre", []), "variant": e.get("variant", "")},
                                   expected="UnsupportedDomain / UnsupportedCapability%s and no domain message" % (" or a failure report" if kind == "op" else ""),
                                   observed=e["obs"])
    # "no command outside the advertised mask is ever transmitted": role constructors and sequences of
    # operations on constructed role connectors
    def outside(cmds, o):
        return [n for n, b in zip(o.get("sent", []), o.get("bits", [])) if b >= 0 and not (cmds >> b) & 1]
    o2_done = set()
    for e in sorted(cenvs, key=lambda e: (bin(e["cmds"]).count("1"), len(e["kw"]))):
        if e["id"] in BASE_IDS or e["id"] in o2_done or not e["dom"]:
            continue
        bad_ = outside(e["cmds"], e["obs"])
        if bad_:
            o2_done.add(e["id"])
            nviol += ctx.violation("constructor %s transmitted %s, command(s) the interface does not advertise" % (e["id"], bad_),
                                   {"kind": "ctor", "id": e["id"], "cmds": e["cmds"], "caps": e["caps"], "dom": True, "seed": e["seed"], "kw": e["kw"]},
                                   expected="only advertised commands are transmitted", observed=e["obs"])
    for e in sorted(senvs, key=lambda e: (len(e["seq"]), bin(e["cmds"]).count("1"))):
        if e["id"] in o2_done:
            continue
        for k, st in enumerate(e["obs"]["steps"]):
            if e.get("ctrl_oracle"):
                if e["seq"][k].endswith("#ctrl") and st.get("sent"):
                    o2_done.add(e["id"])
                    nviol += ctx.violation("%s.%s called with a PDU carrying a BTLE_CTRL layer transmitted %s to an interface advertising NoRawData"
                                           % (e["id"], e["seq"][k].split("#")[0], st["sent"]),
                                           {"kind": "seq", "id": e["id"], "cmds": e["cmds"], "caps": e["caps"], "seed": e["seed"], "seq": e["seq"][:k + 1]},
                                           expected="UnsupportedCapability / failure and no domain message", observed=e["obs"]["steps"][:k + 1])
                    break
                continue
            if e.get("events_only") and not e["seq"][k].startswith("@"):
                continue        # base connectors: their unguarded operations (start, stop ...) are not subject to this oracle
            bad_ = outside(e["cmds"], st)
            if bad_:
                o2_done.add(e["id"])
                nviol += ctx.violation("%s: after %s, %s() transmitted %s, command(s) the interface does not advertise"
                                       % (e["id"], [x + "()" for x in e["seq"][:k]] or "construction", e["seq"][k], bad_),
                                       {"kind": "seq", "id": e["id"], "cmds": e["cmds"], "caps": e["caps"], "seed": e["seed"], "seq": e["seq"][:k + 1]},
                                       expected="only advertised commands are transmitted", observed=e["obs"]["steps"][:k + 1])
                break
    # DeviceInfo
    di_bad_cap, di_bad_split = [], []
    for e in dis:
        hd, caps, cmds, hdc = e["obs"]
        present = [w for w in e["words"] if (w & 0xFF000000) == e["domain"]]
        want = bool(present) and ((present[-1] & 0x00FFFFFF) & e["cap"]) != 0
        if hdc != want:
            di_bad_cap.append((e, want))
        if hd != bool(present) or (caps != ((present[-1] & 0xFFFFFF) if present else None)):
            di_bad_split.append(e)
    size = lambda e: (len(e["words"]) + len(e["adds"]), abs(bin(e["cap"]).count("1") - 1), sum(e["words"]))
    if di_bad_cap:
        e, want = min(di_bad_cap, key=lambda t: size(t[0]))
        nviol += ctx.violation("DeviceInfo.has_domain_cap(domain, capability mask) is %s where the flag word %s the mask (%d such cases)"
                               % (e["obs"][3], "contains a bit of" if want else "has no bit of", len(di_bad_cap)),
                               {"kind": "di", "words": e["words"], "adds": e["adds"], "domain": e["domain"], "cap": e["cap"]}, expected=want, observed=e["obs"][3])
    if di_bad_split:
        e = min(di_bad_split, key=size)
        present = [w for w in e["words"] if (w & 0xFF000000) == e["domain"]]
        nviol += ctx.violation("DeviceInfo split of the advertised word into domain / capability flags is wrong (%d such cases)" % len(di_bad_split),
                               {"kind": "di", "words": e["words"], "adds": e["adds"], "domain": e["domain"], "cap": e["cap"]},
                               expected=[bool(present), (present[-1] & 0xFFFFFF) if present else None], observed=e["obs"][:2])
    ctx.log("oracle: pred %d, ctor %d, op %d bad | translator validation: pred %d, ctor %d, op %d, DeviceInfo %d bad"
            % (len(bad_spec), len(bad_c_spec), len(bad_o_spec), len(bad_gen), len(bad_c_gen), len(bad_o_gen), len(bad_di)))

    # ---- coverage -------------------------------------------------------------------------------
    n_pred_evals = sum(len(e["obs"]) for e in penvs if isinstance(e["obs"], list))
    ctx.cov["evaluations"] = n_pred_evals + len(cenvs) + len(oenvs) + len(dis)
    ctx.cov["traces_validated_against_impl"] = len(pterms) + len(cterms) + len(oterms) + len(dterms)
    nontriv = [[e["dk"], e["cmds"], e["caps"]] for e in penvs if isinstance(e["obs"], list) and any(e["obs"]) and not all(e["obs"])]
    nontriv += [["c", e["id"], e["cmds"], e["caps"], e["dom"]] for e in cenvs if e["obs"]["r"] != "ok" or e["obs"]["sent"]]
    nontriv += [["o", e["id"], e["cmds"], e["caps"]] for e in oenvs_run]
    ctx.cov["distinct_nontrivial"] = C.distinct_count(nontriv)
    ctx.cov["rule"] = ("predicates: per domain, every assignment of the bits a predicate mentions x %d settings of all other bits (all 0, all 1, random 32/64-bit), "
                       "all predicates of the domain evaluated on each interface; constructors/operations: every assignment of the bits mentioned by the generated program "
                       "and its Spec requirement x random others, with and without the domain; DeviceInfo: random word lists. Non-trivial = interface on which the domain's "
                       "predicates are neither all true nor all false / constructor that failed or transmitted / operation run; distinct by content") % (64 if ctx.thorough else 16)
    ops_sent = sorted({e["id"] for e in oenvs_run if e["obs"]["sent"]})
    ctor_res = {}
    for e in cenvs:
        ctor_res[e["obs"]["r"]] = ctor_res.get(e["obs"]["r"], 0) + 1
    op_res = {}
    for e in oenvs:
        k = e["obs"].get("r", "skip:" + str(e["obs"].get("skip")))
        op_res[k] = op_res.get(k, 0) + 1
    ctx.cov["distribution"] = {
        "predicates": len(gen.preds), "constructors": len(gen.ctors), "operations": len(gen.ops),
        "predicate_interfaces": len(penvs), "predicate_evaluations": n_pred_evals,
        "predicate_true_fraction": round(sum(sum(1 for x in e["obs"] if x is True) for e in penvs if isinstance(e["obs"], list)) / max(1, n_pred_evals), 3),
        "constructor_runs": len(cenvs), "constructor_results": ctor_res,
        "constructor_runs_without_domain": sum(1 for e in cenvs if not e["dom"]),
        "constructor_runs_with_optional_arguments": sum(1 for e in cenvs if e.get("kw")),
        "optional_arguments_supplied": sorted({n for e in cenvs for n in e.get("kw", [])}),
        "constructors_completed_at_least_once": len({e["id"] for e in cenvs if e["obs"]["r"] == "ok"}),
        "operation_runs": len(oenvs), "operation_results": op_res,
        "operation_runs_after_another_operation": sum(1 for e in oenvs if e.get("pre")),
        "role_connector_sequences": len(senvs),
        "operation_runs_with_control_pdu": len(aenvs),
        "role_entry_point_runs_with_control_pdu": sum(1 for e in senvs if e.get("ctrl_oracle")),
        "event_sequences_everything_advertised": len(evA),
        "event_sequences_one_command_withdrawn": sum(1 for e in senvs if e.get("events_only")),
        "event_steps_that_transmitted": sorted({"%s after %s: %s" % (e["seq"][k], e["seq"][:k], st["sent"]) for e in evA
                                                for k, st in enumerate(e["obs"]["steps"]) if e["seq"][k].startswith("@") and st.get("sent")})[:20],
        "role_connector_sequence_steps": sum(len(e["obs"]["steps"]) for e in senvs),
        "operations_reading_connector_state_in_a_condition": {p["id"]: p["state_reads"] for p in gen.ops_all if p.get("state_reads")},
        "operations_that_transmitted_at_least_once": len(ops_sent),
        "deviceinfo_cases": len(dis),
        "uncovered_branches": sorted({p["id"] for p in gen.ops} - set(ops_sent)) and
            ["operations never seen transmitting (argument recipe / guard unreachable on the connector): " + ", ".join(sorted({p["id"] for p in gen.ops} - set(ops_sent)))],
        "operations_outside_spec_table": [p["id"] for p, has in zip(gen.ops_all, op_has_spec) if not has],
        "not_translated": ["%s %s: %s" % e for e in gen.errors],
        "refuted_items": [p["id"] for _k, p, _d in refuted],
    }
    ctx.cov["samples"] = [
        {"predicate_interface": {k: penvs[0][k] for k in ("dk", "cmds", "caps")}, "observed": penvs[0]["obs"]},
        {"constructor": {k: cenvs[len(cenvs) // 2][k] for k in ("id", "cmds", "caps", "dom")}, "observed": cenvs[len(cenvs) // 2]["obs"]},
        {"operation": {k: oenvs[len(oenvs) // 3][k] for k in ("id", "cmds", "caps")}, "observed": oenvs[len(oenvs) // 3]["obs"]},
        {"deviceinfo": {k: dis[-1][k] for k in ("words", "adds", "domain", "cap")}, "observed": dis[-1]["obs"]},
    ]

    # ---- 8 verdict: things that no longer check and for which the oracle found nothing ---------------
    def broken(what, detail_, first=None):
        ctx.broken_obligation(what, detail_, first)
    viol_ids = {v_.get("id") for v_ in (json.load(open(v["replay"])).get("case") or {} for v in ctx.violations) if isinstance(v_, dict)}
    if not proofs_ok:
        broken("proof obligations of theories/C06: " + detail.splitlines()[0][:200], detail)
    for sec, pid_, err in gen.errors:
        if sec == "ops" and pid_ in {p["id"] for p, has in zip(gen.ops_all, op_has_spec) if not has}:
            continue
        broken("translator: %s %s is outside the supported grammar (%s)" % (sec, pid_, err[:120]), err)
    for k, p, d in refuted:
        if p["id"] not in viol_ids:
            broken("%s %s: generated model differs from Spec (witness cmds=%s caps=%s aux=%s) but the implementation agrees with Spec there"
                   % (k, p["id"], *(d[1:4] if len(d) >= 4 else ("?", "?", "?"))), json.dumps(p.get("tie")), {"id": p["id"], "decision": d})
    for k, p in nospec:
        if k != "op":
            broken("%s %s has no entry in Spec.v" % (k, p["id"]), "add its intended meaning to coq/theories/C06/Spec.v")
    failed_ids = {i for _s, i, _e in gen.errors}
    for sec, miss in zip(("predicate", "role", "operation"), missing):
        for m in miss:
            if m in failed_ids:
                continue        # already reported as a translation failure
            broken("%s %s of Spec.v no longer exists in the code (or was not translated)" % (sec, m), "missing id")
    if enum_bad:
        broken("Spec.v bit numbering differs from the imported enums: %s" % (enum_bad,), str(enum_bad))
    if chk_future is not None:
        rcc, outc = chk_future.result()
        m = re.search(r"\* Axioms:\s*(.*?)\n\s*\n", outc, re.S)
        ctx.cov["coqchk"] = {"rc": rcc, "axioms": (m.group(1).strip() if m else "?")}
        if rcc != 0 or not m or m.group(1).strip() != "<none>":
            broken("coqchk -o of Whad.C06.Property / C06Thms reports axioms or fails", outc[-2000:])
    if not thms_ok:
        broken("generated theorems: %d of %d closed" % (len(closed), len(names)), out[-3000:])
    untranslated_pred = any(sec == "preds" for sec, _i, _e in gen.errors)   # then the predicate table holds a placeholder
    for m in missing_arg:
        if m not in failed_ids:
            broken("operation %s of Spec.v (argument-dependent guard) no longer exists in the code" % m, "missing id")
    for name, bad, envs, idx in (("predicates", [] if untranslated_pred else bad_gen, penvs, pidx), ("constructors", bad_c_gen, cenvs, None), ("operations", bad_o_gen, oenvs_run, None),
                                 ("operations (control-PDU arguments)", bad_a_gen, aenvs_run, None)):
        if bad:
            e = envs[idx[bad[0]] if idx else bad[0]]
            broken("translator validation: generated %s disagree with the implementation on %d cases" % (name, len(bad)),
                   "first: %s" % json.dumps({k: e[k] for k in e if k != "why"})[:1500], {k: e[k] for k in e})
    if bad_di and not any(v["what"].startswith("DeviceInfo") for v in ctx.violations):
        broken("DeviceInfo model disagrees with the implementation on %d cases" % len(bad_di), json.dumps(dis[bad_di[0]])[:1500], dis[bad_di[0]])
    ctx.cov["correspondence"] = {"pred_cases": len(pterms), "pred_bad": len(bad_gen), "ctor_cases": len(cterms), "ctor_bad": len(bad_c_gen),
                                 "op_cases": len(oterms), "op_bad": len(bad_o_gen), "di_cases": len(dterms), "di_bad": len(bad_di)}


def replay(payload):
    case = payload.get("case") or payload.get("first_disagreeing_case") or {}
    print(json.dumps(case)[:2000])
    k = case.get("kind")
    if k == "pred":
        tr = C.run_impl("C06.py", {"mode": "translate"})
        names = [p["method"] for p in tr["preds"] if p["domain"] == case["dk"]]
        r = C.run_impl("C06.py", {"mode": "eval", "preds": [[case["dk"], case["cmds"], case["caps"], case.get("seed", 1)]]})
        print("implementation now answers:", dict(zip(names, r["preds"][0])) if isinstance(r["preds"][0], list) else r["preds"][0])
        if "method" in case:
            print("%s -> %s (expected %s)" % (case["method"], dict(zip(names, r["preds"][0])).get(case["method"]), payload.get("expected")))
    elif k == "ctor":
        r = C.run_impl("C06.py", {"mode": "eval", "ctors": [[case["id"], case["cmds"], case["caps"], case.get("dom", True), case.get("seed", 1), case.get("kw", [])]]})
        print("implementation now:", r["ctors"][0], "| expected:", payload.get("expected"))
    elif k == "op":
        r = C.run_impl("C06.py", {"mode": "eval", "ops": [[case["id"], case["cmds"], case["caps"], case.get("seed", 1), case.get("pre", []), case.get("variant", "")]]})
        print("implementation now:", r["ops"][0], "| expected:", payload.get("expected"))
    elif k == "seq":
        r = C.run_impl("C06.py", {"mode": "eval", "seqs": [[case["id"], case["cmds"], case["caps"], case.get("seed", 1), case["seq"]]]})
        print("implementation now:", r["seqs"][0], "| expected:", payload.get("expected"))
    elif k == "di":
        r = C.run_impl("C06.py", {"mode": "eval", "di": [[case["words"], case["adds"], case["domain"], case["cap"]]]})
        print("implementation now [has_domain, caps, cmds, has_domain_cap]:", r["di"][0], "| expected:", payload.get("expected"))
    else:
        print("obligation:", payload.get("what"))
    return 0
