"""C15 — the TLV arithmetic of AdvDataFieldList.from_bytes and three fixed-size record decoders
(whad/ble/profile/advdata.py) translated from the source on every run (harness/translators/pyfun.py) and
proved equal to the hand-written model (coq/theories/C15/GenEq.v against the snapshot
coq/theories/C15/Gen.v).  See design/PYTRANS.md."""

SRC = "whad/ble/profile/advdata.py"
TITLE = "C15 — Gallina generated from whad/ble/profile/advdata.py (AdvDataFieldList.from_bytes, record decoders)"
MODEL_IMPORT = "From Whad Require Import C15.Model."

FB = "AdvDataFieldList.from_bytes"
TLV_IN = [["adv_data", "data", "bytes"], ["length", "lenb", "N"]]
TLV_LIVE = "def live(a):\n    return FRAG({'adv_data': a['data'], 'length': a['lenb']})\n"
REC_IN = [["ad_record", "p", "bytes"]]
REC_LIVE = "def live(a):\n    return FRAG({'ad_record': a['p']})\n"


def _bytes(rng, n):
    return bytes(rng.choice([rng.randrange(256), 0, 1, 2, 255]) for _ in range(n))


def gen_tlv(rng):
    n = rng.choice([2, 3, 4, 10, 31, 32, 40, rng.randrange(2, 36)])
    d = _bytes(rng, n)
    ln = rng.choice([0, 1, 2, n - 2, n - 1, n, d[0], rng.randrange(0, 40), 255])
    return {"data": d, "lenb": max(ln, 0)}


def gen_tlv_any(rng):
    a = gen_tlv(rng)
    if rng.random() < 0.3:
        a["data"] = _bytes(rng, rng.choice([0, 1]))
    return a


def fixed(k):
    return lambda rng: {"p": _bytes(rng, k)}


def anylen(rng):
    return {"p": _bytes(rng, rng.choice([0, 1, 2, 3, 4, 5, 7]))}


def _tlv(name, select, model, gen=gen_tlv, when=None):
    it = {"path": SRC, "qualname": FB, "spec": {"name": name, "mode": "expr", "select": select, "inputs": TLV_IN},
          "model": model, "gen": gen, "live": TLV_LIVE}
    if when:
        it["model_when"] = when
    return it


def _rec(cls, name, select, model, gen, when=None):
    it = {"path": SRC, "qualname": cls + ".from_bytes", "spec": {"name": name, "mode": "expr", "select": select, "inputs": REC_IN},
          "model": model, "gen": gen, "live": REC_LIVE}
    if when:
        it["model_when"] = when
    return it


HH = "(min_value, max_value)"
ITEMS = [
    # AdvDataFieldList.from_bytes: overflow test, loop test, (length, tag), fit test, payload slice, advance
    _tlv("tlv_overflow", {"test": "If", "nth": 0}, "(31 <? length data)%nat", gen=gen_tlv_any),
    _tlv("tlv_more", {"test": "While", "nth": 0}, "negb (length data <? 2)%nat", gen=gen_tlv_any),
    _tlv("tlv_header", {"rhs_of": "(length, eir_tag)"}, "(nth 0%nat data 0, nth 1%nat data 0)", when="(2 <=? length data)%nat"),
    _tlv("tlv_fits", {"test_enclosing": "eir_payload"}, "(N.to_nat lenb <=? length (skipn 2 data) + 1)%nat"),
    _tlv("tlv_payload", {"rhs_of": "eir_payload"}, "slice 2 (N.to_nat lenb + 1) data"),
    _tlv("tlv_rest", {"rhs_of": "adv_data"}, "skipn (N.to_nat lenb + 1) data"),
    # fixed-size record decoders
    _rec("AdvSlaveConnIntervalRange", "connrange_len_ok", {"test_enclosing": HH}, "(length p =? 4)%nat", anylen),
    _rec("AdvSlaveConnIntervalRange", "connrange_values", {"rhs_of": HH},
         "(nth 0%nat p 0 + 256 * nth 1%nat p 0, nth 2%nat p 0 + 256 * nth 3%nat p 0)", fixed(4)),
    _rec("AdvAppearance", "appearance_len_ok", {"test_enclosing": "appearance"}, "(length p =? 2)%nat", anylen),
    _rec("AdvAppearance", "appearance_value", {"rhs_of": "appearance"}, "nth 0%nat p 0 + 256 * nth 1%nat p 0", fixed(2)),
    _rec("AdvAdvertisingInterval", "advinterval_len2", {"test_enclosing": "interval", "nth": 0}, "(length p =? 2)%nat", anylen),
    _rec("AdvAdvertisingInterval", "advinterval_value2", {"rhs_of": "interval", "nth": 0}, "nth 0%nat p 0 + 256 * nth 1%nat p 0", fixed(2)),
    _rec("AdvAdvertisingInterval", "advinterval_len3", {"test_enclosing": "interval", "nth": 1}, "(length p =? 3)%nat", anylen),
    _rec("AdvAdvertisingInterval", "advinterval_value3", {"rhs_of": "interval", "nth": 1},
         "nth 0%nat p 0 + 256 * nth 1%nat p 0 + 65536 * nth 2%nat p 0", fixed(3)),
    _rec("AdvAdvertisingInterval", "advinterval_len4", {"test_enclosing": "interval", "nth": 2}, "(length p =? 4)%nat", anylen),
    _rec("AdvAdvertisingInterval", "advinterval_value4", {"rhs_of": "interval", "nth": 2},
         "nth 0%nat p 0 + 256 * nth 1%nat p 0 + 65536 * nth 2%nat p 0 + 16777216 * nth 3%nat p 0", fixed(4)),
]
