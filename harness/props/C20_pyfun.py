"""C20 — the sequence-number update and the acknowledgement-wait counter arithmetic of MACManager.send_data
(whad/dot15d4/stack/mac/__init__.py) translated from the source on every run (harness/translators/pyfun.py)
and proved equal to the hand-written model (coq/theories/C20/GenPyEq.v against the snapshot
coq/theories/C20/GenPy.v; theories/C20/Gen.v is the PAN-id table of the property's own translator).
See design/PYTRANS.md."""

SRC = "whad/dot15d4/stack/mac/__init__.py"
TITLE = "C20 — Gallina generated from whad/dot15d4/stack/mac/__init__.py (MACManager.send_data)"
MODEL_IMPORT = "From Whad Require Import C20.Model."
FILES = {"gen": "GenPy", "eq": "GenPyEq", "prop": "PropertyGenPy"}

# The locals are named by their ROLE (metavariables bound by the patterns of BIND), so that renaming them, or
# moving the wait loop into a helper method that names them differently, does not break the selectors:
#   $wc  : the counter that is decremented          $ack / $seq : the two sides of the loop test
BIND = ["$wc = $wc - 1", "$ack is None or $ack.seqnum != $seq"]
INPUTS = [["$seq", "seq", "N"], ["$wc", "wc", "nat"], ["$ack is None", "no_ack", "bool"], ["$ack.seqnum", "ack_seq", "N"]]
LIVE = ("def live(a):\n"
        "    return FRAG({'$seq': a['seq'], '$wc': a['wc'],\n"
        "                 '$ack': None if a['no_ack'] else NS(seqnum=a['ack_seq'])})\n")


def gen(rng):
    s = rng.choice([0, 1, 127, 254, 255, rng.randrange(256)])
    return {"seq": s, "wc": rng.choice([0, 1, 2, 3, 4, 5, 5, 6]), "no_ack": rng.random() < 0.3,
            "ack_seq": rng.choice([s, s, (s + 1) % 256, (s + 255) % 256, rng.randrange(256)])}


def _it(name, select, model):
    return {"path": SRC, "qualname": "MACManager.send_data",
            "spec": {"name": name, "mode": "expr", "select": select, "inputs": INPUTS, "bind": BIND},
            "model": model, "gen": gen, "live": LIVE}


ITEMS = [
    # self.database.set("macDataSequenceNumber", (sequence_number + 1) % 256)
    _it("seq_next", {"arg_of": "self.database.set", "index": 1}, "(seq + 1) mod 256"),
    # wait_counter = 5 ; wait_counter = wait_counter - 1 ; if wait_counter <= 0
    _it("wait_init", {"rhs_of": "$wc", "nth": 0}, "retry_budget"),
    _it("wait_dec", {"rhs_of": "$wc", "nth": 1}, "(wc - 1)%nat"),
    _it("wait_spent", {"test_on": "$wc"}, "(wc <=? 0)%nat"),
    # while ack is None or ack.seqnum != sequence_number
    _it("wait_again", {"test": "While", "nth": 0}, "no_ack || negb (ack_seq =? seq)"),
]
