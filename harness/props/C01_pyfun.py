"""C01 — the pure arithmetic of the WHAD framing (whad/device/device.py) that is translated from the
source on every run (harness/translators/pyfun.py) and proved equal to the hand-written model
(coq/theories/C01/GenEq.v against the snapshot coq/theories/C01/Gen.v).  See design/PYTRANS.md."""

SRC = "whad/device/device.py"
TITLE = "C01 — Gallina generated from whad/device/device.py (DevInThread.serialize, DevOutThread.ingest)"
MODEL_IMPORT = "From Whad Require Import C01.Model."

ING_INPUTS = [["self.__data", "d", "bytes"], ["msg_size", "msg_size", "N"]]
ING_LIVE = ("def live(a):\n"
            "    return FRAG({'self': NS(**{'__data': bytearray(a['d'])}), 'msg_size': a['msg_size']})\n")


def _bytes(rng, n):
    return bytes(rng.choice([rng.randrange(256), 0xAC, 0xBE, 0, 1, 255]) for _ in range(n))


def gen_ser(rng):
    n = rng.choice([0, 1, 2, 3, 16, 255, 256, 257, 300, rng.randrange(0, 64), rng.randrange(0, 64), rng.randrange(0, 300), 511, 513, 1027])
    return {"payload": _bytes(rng, n)}


def gen_ing(rng):
    n = rng.choice([5, 6, 7, 8, 20, rng.randrange(5, 60)])
    d = _bytes(rng, n)
    if rng.random() < 0.6:
        d = bytes([0xAC, 0xBE, rng.choice([0, 1, n - 4, n - 5, n - 3, 255]) % 256, rng.choice([0, 0, 0, 1])]) + d[4:]
    ms = rng.choice([0, 1, n - 4, n - 3, n - 5, n, d[2] | (d[3] << 8), rng.randrange(0, 70), 65535])
    return {"d": d, "msg_size": max(ms, 0)}


def _ing(name, select, model, when=None):
    it = {"path": SRC, "qualname": "DevOutThread.ingest",
          "spec": {"name": name, "mode": "expr", "select": select, "inputs": ING_INPUTS},
          "model": model, "gen": gen_ing, "live": ING_LIVE}
    if when:
        it["model_when"] = when
    return it


ITEMS = [
    {"path": SRC, "qualname": "DevInThread.serialize",
     "spec": {"name": "serialize", "inputs": [["message.serialize()", "payload", "bytes"]]},
     "model": "frame payload", "gen": gen_ser, "ncases": 100,
     "live": ("class _M:\n"
              "    def __init__(self, b): self.b = b\n"
              "    def serialize(self): return self.b\n"
              "def live(a):\n"
              "    return MOD.DevInThread.serialize(OBJ(MOD.DevInThread), _M(a['payload']))\n")},
    # DevOutThread.ingest: every test and every slice of the two loops, expression by expression
    _ing("ingest_more", {"test_enclosing": "msg_size", "up": 2}, "(2 <? length d)%nat"),
    _ing("ingest_is_marker", {"test_enclosing": "msg_size", "up": 1},
         "N.eqb (nth 0 d 0) 172 && N.eqb (nth 1 d 0) 190"),
    _ing("ingest_has_header", {"test_enclosing": "msg_size"}, "(4 <? length d)%nat"),
    _ing("ingest_msg_size", {"rhs_of": "msg_size"}, "un_le16 (skipn 2 d)", when="wf_bytes d"),
    _ing("ingest_complete", {"test_enclosing": "raw_message"}, "(msg_size + 4 <=? nlen d)"),
    _ing("ingest_raw", {"rhs_of": "raw_message"}, "slice 4 (4 + N.to_nat msg_size) d"),
    _ing("ingest_rest", {"rhs_of": "self.__data", "nth": 0}, "skipn (N.to_nat msg_size + 4) d"),
    _ing("resync_more", {"test_enclosing": "self.__data", "nth": 1, "up": 1}, "(2 <=? length d)%nat"),
    _ing("resync_mismatch", {"test_enclosing": "self.__data", "nth": 1},
         "negb (N.eqb (nth 0 d 0) 172) || negb (N.eqb (nth 1 d 0) 190)"),
    _ing("resync_drop", {"rhs_of": "self.__data", "nth": 1}, "skipn 1 d"),
]
