"""C14 — SMP pairing between two WHAD stacks.  See DESIGN.md §2 C14 and design/C14.md.

Stage A: translator (harness/translators/C14_table.py) -> Gallina for IOCAP_KEY_GENERATION_MAPPING,
key_generation_method_selection and the get_pin_code decision; the generated text is compiled in a private
directory together with copies of Sel.v / SelProofs.v, so `method_is_spec` is re-proved against the
REGENERATED definition on every run; the translator is validated against the live function on the full
product (1600 combinations) and the live function against the hand-typed specification tables, in Coq.
Stage B: two real stacks back to back (harness/impl/C14.py) vs the Coq model (theories/C14/Model.v).
"""
import json, os, shutil, concurrent.futures
from harness import common as C
from harness.common import cbool, clist, copt
from harness.translators import C14_table as T
from harness.props import C14_util as U

PID = "C14"


# ---------------------------------------------------------------------------
# stage A
# ---------------------------------------------------------------------------

def stage_a(ctx):
    """Returns (ok, detail, info).  Fills obligations."""
    res = {"ok": True, "detail": [], "regen_same_as_snapshot": None}
    d = os.path.join(C.build_dir(PID), "regen")
    shutil.rmtree(d, ignore_errors=True)
    os.makedirs(d)
    ctx.cov["obligations"] += 4          # translation, regenerated proofs, translator validation, live = spec
    try:
        text, info = T.generate(C.REPO)
    except T.Unsupported as e:
        res["ok"] = False
        res["detail"].append("translator (fail-closed): " + str(e))
        return res, None
    ctx.cov["discharged"] += 1
    snap = open(os.path.join(C.COQ, "theories", PID, "GenTable.v")).read()
    res["regen_same_as_snapshot"] = (T.body_without_header(snap) == T.body_without_header(text))
    # private copy: regenerated table + the stage A glue and lemmas, under the logical name WhadRegen
    def rewrite(src):
        out = []
        for line in src.splitlines():
            if line.startswith("From Whad Require Import C14.GenTable"):
                line = "From WhadRegen Require Import GenTable."
            elif line.startswith("From Whad Require Import C14.Sel."):
                line = "From WhadRegen Require Import Sel."
            out.append(line)
        return "\n".join(out) + "\n"
    open(os.path.join(d, "GenTable.v"), "w").write(text)
    for fn in ("Sel.v", "SelProofs.v"):
        open(os.path.join(d, fn), "w").write(rewrite(open(os.path.join(C.COQ, "theories", PID, fn)).read()))
    names = ["method_is_spec_on_domain", "method_is_spec", "method_is_spec_peers", "authenticated_is_spec",
             "legacy_passkey_roles"]
    with open(os.path.join(d, "AssumeA.v"), "w") as f:
        f.write("From WhadRegen Require Import SelProofs.\n")
        for n in names:
            f.write('Goal True. idtac "BEGIN %s". Abort.\nPrint Assumptions %s.\nGoal True. idtac "END %s". Abort.\n' % (n, n, n))
    hits = C.forbidden_scan([d])
    if hits:
        res["ok"] = False
        res["detail"].append("forbidden declarations in regenerated files: " + "; ".join(hits[:3]))
        return res, info
    lk = C._lock()      # Base.vo / Spec.vo must exist (built by check_proofs before this is called)
    lk.close()
    for fn in ("GenTable.v", "Sel.v", "SelProofs.v", "AssumeA.v"):
        rc, out = C.coqc_file(os.path.join(d, fn), extra_Q=[(d, "WhadRegen")], timeout=300)
        if rc != 0:
            res["ok"] = False
            res["detail"].append("regenerated %s does not check: %s" % (fn, out[-1500:]))
            res["failed_file"] = fn
            return res, info
    closed = sum(1 for n in names if ("BEGIN %s\nClosed under the global context" % n) in out.replace("\r", ""))
    if closed != len(names):
        res["ok"] = False
        res["detail"].append("assumptions of regenerated stage A lemmas: %d/%d closed\n%s" % (closed, len(names), out[-1500:]))
        return res, info
    ctx.cov["discharged"] += 1
    res["lemmas_rechecked"] = names
    return res, info


def stage_a_live(ctx, info, table, regen_dir):
    """Differential validation of the translator and the property oracle (live function = spec tables),
    both evaluated inside Coq on the full product.  Returns (translator_bad, spec_bad, pin_bad, rows)."""
    rows = table["rows"]
    def lit(t):
        return "(%s, %s, %s, %d)" % (cbool(t[0]), cbool(t[1]), cbool(t[2]), t[3])
    def live(v):
        if v == "none":
            return "(Some None)"
        if isinstance(v, int):
            return "(Some (Some %d))" % v
        return "None"
    terms = ["(%s, %s, %s)" % (lit(a), lit(b), live(v)) for a, b, v in rows]
    pre_regen = "From Whad Require Import C14.Base C14.Spec.\nFrom WhadRegen Require Import GenTable Sel.\nOpen Scope N_scope."
    # run_cases compiles with -Q theories only; the regenerated modules need -Q regen WhadRegen: use coq_eval-like manual file
    ctype = "(bool * bool * bool * N) * (bool * bool * bool * N) * option (option N)"
    pins = table["pins"]
    pterms = ["(%s, %d, %d, %s)" % (cbool(init), io, peer, cbool(src == "typed")) for io, peer, init, src in pins
              if src in ("typed", "generated")]
    with concurrent.futures.ThreadPoolExecutor(max_workers=3) as ex:
        f1 = ex.submit(U.run_cases_Q, PID, "tr", pre_regen, ctype, terms, "check_translated", regen_dir)
        f2 = ex.submit(U.run_cases_Q, PID, "sp", pre_regen, ctype, terms, "check_live_is_spec", regen_dir)
        f3 = ex.submit(U.run_cases_Q, PID, "pin", pre_regen, "bool * N * N * bool", pterms, "check_pin_source", regen_dir)
        bad_tr, bad_sp, bad_pin = f1.result(), f2.result(), f3.result()
    if len(pterms) != len(pins):
        bad_pin = bad_pin + [i for i, p in enumerate(pins) if p[3] not in ("typed", "generated")]
    return bad_tr, bad_sp, bad_pin, rows


# ---------------------------------------------------------------------------
# stage B: generation
# ---------------------------------------------------------------------------

def mkparams(lesc, oob, mitm, iocap, bonding=1, mks=16, kd=7):
    return {"lesc": int(lesc), "oob": int(oob), "mitm": int(mitm), "bonding": int(bonding),
            "iocap": int(iocap), "mks": int(mks), "kd": int(kd)}


class Gen:
    def __init__(self, ctx, methods, roles):
        self.rng = ctx.rng
        self.methods = methods        # (i-tuple, r-tuple) -> live method
        self.roles = roles            # list of (legacy code, lesc code), index 5*io_i + io_r

    def pin(self):
        r = self.rng.random()
        if r < 0.1:
            return self.rng.choice([0, 1, 999999, 524288, 524287])
        return self.rng.randrange(0, 1000000)

    def script(self, pi, pr, honest, wrong_bit=None):
        """Scripted user following the SPECIFICATION's roles (Table 2.8) for the exchanged parameters."""
        m = self.methods[(pi["lesc"], pi["oob"], pi["mitm"], pi["iocap"]), (pr["lesc"], pr["oob"], pr["mitm"], pr["iocap"])]
        P = self.pin()
        g1, g2 = self.pin(), self.pin()
        while g1 == P or g2 == P or g1 == g2:
            g1, g2 = self.pin(), self.pin()
        ui = {"gen_i": g1, "gen_r": g2, "typed_i": P, "typed_r": P, "nc_i": True, "nc_r": True}
        role = self.roles[5 * pi["iocap"] + pr["iocap"]][1 if m in (3, 4, 5, 6) else 0]
        if m in (1, 5):
            if role == 1:
                ui["gen_i"] = P
            elif role == 2:
                ui["gen_r"] = P
        expect, cls = "success", None
        if m in U.OOB_METHODS:
            expect = "failure"
        elif not honest:
            if m in (1, 5):
                k = self.rng.randrange(20) if wrong_bit is None else wrong_bit
                ui["typed_i" if role == 2 else "typed_r"] = P ^ (1 << k)
                expect = "failure"
            elif m == 4:
                which = self.rng.randrange(3)
                ui["nc_i"], ui["nc_r"] = [(False, True), (True, False), (False, False)][which]
                expect = "failure"
        return ui, expect, cls, m

    def ediv(self):
        """EDIV values drawn by the two sides: boundary values of the 16-bit field are frequent"""
        r = self.rng
        return [r.choice([0, 0xFFFF, 1, 0x8000]) if r.random() < 0.35 else r.randrange(0x10000) for _ in (0, 1)]

    def case(self, pi, pr, honest=True, wrong_bit=None, kind="sampled", rmax=False, ediv=None, bv=None, mode="new"):
        ui, expect, cls, m = self.script(pi, pr, honest, wrong_bit)
        c = {"i": pi, "r": pr, "ui": ui, "expect": expect, "expect_class": cls, "spec_method": m, "kind": kind,
             "mode": mode, "ediv": ediv if ediv is not None else self.ediv(), "bv": bv or []}
        if rmax:
            c["rmax"] = True
            c["ediv"] = [0xFFFF, 0xFFFF]
        return c

    def rest(self):
        """bonding, max key size, key distribution flags (sampled)"""
        rng = self.rng
        mks = rng.choice([16, 16, 16, 7, 8, 15]) if rng.random() < 0.6 else rng.randrange(7, 17)
        kd = rng.choice([7, 0, 15, 1, 2, 4]) if rng.random() < 0.5 else rng.randrange(16)
        return {"bonding": int(rng.random() < 0.7), "mks": mks, "kd": kd}


COMBOS = [(l, o, m, io) for l in (0, 1) for o in (0, 1) for m in (0, 1) for io in range(5)]


def gen_cases(ctx, g):
    rng = ctx.rng
    cases = []
    # corpus first
    cdir = os.path.join(C.VERIF, "corpus", PID)
    for fn in sorted(os.listdir(cdir)) if os.path.isdir(cdir) else []:
        w = json.load(open(os.path.join(cdir, fn)))
        c = dict(w["case"])
        c["kind"] = "corpus:" + fn
        c.setdefault("mode", "new")
        c.setdefault("ediv", [0x1234, 0x2345])
        c.setdefault("bv", [])
        cases.append(c)
    # exhaustive over the method-selecting items of both sides (1600), the rest sampled
    reps = 3 if ctx.thorough else 1
    for a in COMBOS:
        for b in COMBOS:
            # quick tier: the part of the product that reaches the IO mapping (300) + all flag combinations for one IO pair (64);
            # thorough tier: the whole product, three times with different sampled rest
            if not ctx.thorough and not ((a[1] == 0 and b[1] == 0 and (a[2] or b[2])) or (a[3] == 3 and b[3] == 3)):
                continue
            for _ in range(reps):
                pi = mkparams(*a, **g.rest())
                pr = mkparams(*b, **g.rest())
                cases.append(g.case(pi, pr, honest=(rng.random() < 0.75), kind="product"))
    # representatives of each method for the sweeps over the remaining parameters
    rep = {0: ((0, 0, 0, 3), (0, 0, 0, 3)), 1: ((0, 0, 1, 2), (0, 0, 0, 0)), 2: ((0, 1, 0, 3), (0, 1, 0, 3)),
           3: ((1, 0, 0, 3), (1, 0, 0, 3)), 4: ((1, 0, 1, 1), (1, 0, 0, 4)), 5: ((1, 0, 1, 2), (1, 0, 0, 2)),
           6: ((1, 1, 0, 3), (1, 0, 0, 3))}
    # boundary set: every distribution-flag pattern of one side against none/all of the other, all key sizes
    for m in (0, 1, 3, 4, 5):
        a, b = rep[m]
        kds = range(16) if (ctx.thorough or m in (0, 3)) else (0, 1, 2, 4, 7, 15)
        for kd in kds:
            for other in ((0, 7) if not ctx.thorough else (0, 1, 6, 7, 15)):
                for bi, br in (((1, 1), (0, 1)) if not ctx.thorough else ((1, 1), (0, 1), (1, 0), (0, 0))):
                    cases.append(g.case(mkparams(*a, bonding=bi, kd=kd), mkparams(*b, bonding=br, kd=other), kind="kd-sweep"))
                    if m in (0, 3):
                        cases.append(g.case(mkparams(*a, bonding=br, kd=other), mkparams(*b, bonding=bi, kd=kd), kind="kd-sweep"))
    for m in (0, 1, 3):
        a, b = rep[m]
        for mks in range(7, 17):
            cases.append(g.case(mkparams(*a, mks=mks), mkparams(*b, mks=rng.randrange(7, 17)), kind="keysize"))
            cases.append(g.case(mkparams(*a, mks=rng.randrange(7, 17)), mkparams(*b, mks=mks), kind="keysize"))
    # wrong passkey in every round of LESC passkey entry / wrong legacy pin in every bit
    for k in range(20):
        for m in ((1, 5) if (ctx.thorough or k in (0, 1, 7, 18, 19)) else (5,) if k % 3 == 0 else ()):
            a, b = rep[m]
            cases.append(g.case(mkparams(*a), mkparams(*b), honest=False, wrong_bit=k, kind="wrong-passkey"))
    for _ in range(6 if not ctx.thorough else 40):
        a, b = rep[4]
        cases.append(g.case(mkparams(*a, **g.rest()), mkparams(*b, **g.rest()), honest=False, kind="numcomp-no"))
    # random draws at the top of their range (EDIV / SKD / IV)
    for m in (0, 3):
        a, b = rep[m]
        cases.append(g.case(mkparams(*a), mkparams(*b), kind="rand-max", rmax=True))
    # boundary values of every distributed item: EDIV 0 / 0xFFFF, all-zero / all-FF RAND, LTK, IRK, CSRK
    for m in (0, 1):
        a, b = rep[m]
        for ed in ([0, 0], [0xFFFF, 0xFFFF], [0, 0xFFFF], [0xFFFF, 0], [1, 0]):
            for kd in ((7, 7), (1, 1)) if (ctx.thorough or m == 0) else ((7, 7),):
                cases.append(g.case(mkparams(*a, kd=kd[0]), mkparams(*b, kd=kd[1]), kind="boundary-ediv", ediv=ed))
    for m in (0, 3):
        a, b = rep[m]
        for byte in (0, 255):
            for purposes in ((1, 2, 3, 4), (2,), (1,), (3, 4)):
                bv = [[sd, pp, byte] for sd in (0, 1) for pp in purposes]
                mks = [rng.choice([16, 16, 7, 12]), rng.choice([16, 16, 7, 12])]
                cases.append(g.case(mkparams(*a, mks=mks[0]), mkparams(*b, mks=mks[1]), kind="boundary-keys", bv=bv,
                                    ediv=[rng.choice([0, 0xFFFF]), rng.choice([0, 0xFFFF])]))
    # sequences of pairings through the SAME two stacks (same connection paired again / a second connection handle);
    # procedures are strictly sequential
    nseq = 240 if ctx.thorough else 36
    for j in range(nseq):
        length = 2 if (not ctx.thorough or rng.random() < 0.6) else 3
        steps = []
        newconn_used = False
        for k in range(length):
            if j < 14 and not ctx.thorough or rng.random() < 0.45:
                m = [0, 1, 3, 4, 5, 0, 3][(j + 3 * k) % 7]
                a, b = rep[m]
            else:
                a, b = rng.choice(COMBOS), rng.choice(COMBOS)
                a, b = (a[0], 0, a[2], a[3]), (b[0], 0, b[2], b[3])
            mode = "new"
            if k > 0:
                # at most one additional connection handle per pair of stacks
                mode = rng.choice(["same", "same", "reconnect"]) if (newconn_used or rng.random() < 0.55) else "new"
                newconn_used = newconn_used or mode == "new"
            steps.append(g.case(mkparams(*a, **g.rest()), mkparams(*b, **g.rest()), honest=(rng.random() < 0.8),
                                kind="sequence", mode=mode))
        first = steps[0]
        first["more"] = steps[1:]
        cases.append(first)
    # INTERLEAVED procedures on two connection handles of the same stacks (PDUs of the two alternate on the wire)
    for j in range(120 if ctx.thorough else 16):
        steps = []
        for k in range(2):
            if rng.random() < 0.6:
                a, b = rep[[0, 1, 3, 4, 5, 3, 0][(j + 2 * k) % 7]]
            else:
                a, b = rng.choice(COMBOS), rng.choice(COMBOS)
                a, b = (a[0], 0, a[2], a[3]), (b[0], 0, b[2], b[3])
            steps.append(g.case(mkparams(*a, **g.rest()), mkparams(*b, **g.rest()), honest=(rng.random() < 0.8),
                                kind="interleaved", mode="new"))
        steps[1]["concurrent"] = True
        steps[0]["more"] = steps[1:]
        cases.append(steps[0])
    # fully random parameter sets
    for _ in range(4000 if ctx.thorough else 150):
        a, b = rng.choice(COMBOS), rng.choice(COMBOS)
        if rng.random() < 0.6:       # bias towards the non-OOB, MITM combinations that reach the IO mapping
            a = (a[0], 0, 1, a[3])
            b = (b[0] if rng.random() < 0.3 else a[0], 0, b[2], b[3])
        cases.append(g.case(mkparams(*a, **g.rest()), mkparams(*b, **g.rest()), honest=(rng.random() < 0.7), kind="random"))
    # connection handles: chosen independently on the two sides (0 is a legal handle; the two stacks number their
    # connections independently), distinct per stack within a sequence
    pool = [0, 1, 2, 42, 0x40, 0xEFF]
    for c in cases:
        used = [set(), set()]
        for st in steps_of(c):
            if st.get("mode", "new") == "new" and not st.get("handles"):
                hs = []
                for side in (0, 1):
                    free = [h for h in pool if h not in used[side]]
                    h = 0 if (0 in free and rng.random() < 0.4) else rng.choice(free)
                    used[side].add(h)
                    hs.append(h)
                st["handles"] = hs
    return cases


def run_pairs(cases, jobs=None):
    jobs = jobs or max(1, min(C.JOBS - 2, 14))
    n = len(cases)
    size = max(20, (n + jobs * 3 - 1) // (jobs * 3))
    chunks = [(k, cases[k:k + size]) for k in range(0, n, size)]
    out = [None] * n
    def work(ch):
        k, cs = ch
        r = C.run_impl("C14.py", {"mode": "pair", "cases": [{"seq": [step_request(st) for st in steps_of(c)]} for c in cs]},
                       timeout=1500)
        out_ = []
        for x in r["results"]:
            if "runs" in x:
                first = x["runs"][0]
                first["more"] = x["runs"][1:]
                out_.append(first)
            else:
                out_.append(x)
        return k, out_
    with concurrent.futures.ThreadPoolExecutor(max_workers=jobs) as ex:
        for k, rs in ex.map(work, chunks):
            for j, r in enumerate(rs):
                out[k + j] = r
    return out


def steps_of(c):
    return [c] + list(c.get("more", []))


def runs_of(r):
    return [r] + list(r.get("more", []))


def step_request(st):
    return {"mode": st.get("mode", "new"), "i": st["i"], "r": st["r"], "ui": st["ui"], "rmax": st.get("rmax", False),
            "ediv": st.get("ediv"), "bv": st.get("bv", []), "concurrent": bool(st.get("concurrent")),
            "handles": st.get("handles")}


COQ_MODE = {"same": "SameConn", "reconnect": "Reconnect", "new": "NewConn"}


def public_case(c):
    d = {k: c[k] for k in ("i", "r", "ui", "expect", "expect_class", "spec_method", "kind", "mode", "ediv", "bv", "concurrent", "handles") if k in c}
    if c.get("rmax"):
        d["rmax"] = True
    if c.get("more"):
        d["more"] = [public_case(x) for x in c["more"]]
    return d


# ---------------------------------------------------------------------------
# run
# ---------------------------------------------------------------------------

def run(ctx):
    C.build_dir(PID, clean=True)
    ctx.cov["trusted_base"] = [
        "Coq 8.16.1 kernel + vm_compute (no native_compute); every theorem closed under the global context (Print Assumptions checked each run)",
        "stage A translator harness/translators/C14_table.py (Python ast -> Gallina, fail-closed); its reading of the supported grammar is validated each run by evaluating the generated definitions and the live Python functions on the full domain (1600 + 10 cases)",
        "coq/theories/C14/Spec.v: Tables 2.6-2.8 of Core 5.3 Vol 3 Part H 2.3.5.1 typed in by hand",
        "stage B hand-written model coq/theories/C14/Model.v tied to smp/__init__.py and llm/__init__.py by the correspondence of this run (two real stacks back to back)",
        "term algebra: the toolbox c1,s1,f4,f5,f6,g2,e is replaced FROM OUTSIDE by injective token generators (SHA-256 of tagged arguments); agreement of keys is agreement of terms, i.e. holds under every interpretation of the toolbox; byte-level behaviour of the real AES-based functions is not exercised here (tests/domain/ble/test_ble_crypto.py does that)",
        "P-256 key pairs and ECDH are the real library's with fixed private numbers (dh commutativity is the library's)",
        "control abstraction: the model's control flow depends on the parameters only through [control_of] (method, 3+3 distribution flags, bonding, equality of effective passkeys, first differing passkey bit, numeric-comparison answers); data (PDUs, IO triples, addresses, key sizes, random values) are atoms, concretised only for the comparison",
        "fake PHY in the harness: PDUs delivered in order, no loss; scapy build/dissect of SM_* and LL_* PDUs",
    ]
    ctx.assumptions = ["IO capability codes 0..4 (SM_Peer.iocap rejects anything else)",
                       "the central initiates (initiate_pairing); the peripheral accepts pairing (accept_pairing=True); keypress/ct2 off",
                       "passkeys below 2^20 (covers 0..999999); random values are fresh (distinct draws are distinct atoms)",
                       "in-order lossless delivery between the two stacks"]
    pool = concurrent.futures.ThreadPoolExecutor(max_workers=6)
    f_table = pool.submit(C.run_impl, "C14.py", {"mode": "table"})
    proofs_ok, detail = ctx.check_proofs()
    ctx.log("proofs:", proofs_ok, detail.splitlines()[0][:200])

    # roles of Table 2.8 for the scripted user (evaluated from Spec.v), in parallel with stage A
    def get_roles():
        import re
        rt = C.coq_eval(PID, "roles", "From Whad Require Import C14.Spec C14.Sel.", ["spec_roles_table"])[0]
        roles = [(int(x), int(y)) for x, y in re.findall(r"\(\s*(\d+)(?:%N)?,\s*(\d+)(?:%N)?\s*\)", rt)]
        if len(roles) != 25:
            raise C.CheckBroken("cannot read spec_roles_table: " + rt[:200])
        return roles
    f_roles = pool.submit(get_roles)
    regen_dir = os.path.join(C.build_dir(PID), "regen")
    f_a = pool.submit(stage_a, ctx)
    table = f_table.result()
    rows = table["rows"]
    methods = {(tuple(a), tuple(b)): v for a, b, v in rows}
    roles = f_roles.result()

    # ---- stage B: generate and start the implementation runs --------------------
    g = Gen(ctx, {k: (v if isinstance(v, int) else 0) for k, v in methods.items()}, roles)
    cases = gen_cases(ctx, g)
    ctx.log("stage B: %d cases generated" % len(cases))
    f_pairs = pool.submit(run_pairs, cases)

    # ---- stage A ------------------------------------------------------------
    a_res, info = f_a.result()
    ctx.log("stage A: translator+regenerated proofs:", a_res["ok"], "; same as snapshot:", a_res["regen_same_as_snapshot"])
    a_viol = 0
    tr_bad = sp_bad = pin_bad = None
    regen_usable = info is not None and a_res.get("failed_file") not in ("GenTable.v", "Sel.v")
    if regen_usable:
        tr_bad, sp_bad, pin_bad, _ = stage_a_live(ctx, info, table, regen_dir)
        # import-time introspection agrees with the AST reading
        live_map = sorted([[list(k), list(v)] for k, v in table["mapping"]])
        ast_map = {}
        for (a, b), ms in info["mapping"]:
            ast_map[(a, b)] = ms
        ast_sorted = sorted([[list(k), list(v)] for k, v in ast_map.items()])
        if live_map != ast_sorted or any(info["consts"].get(k) != v for k, v in table["consts"].items()):
            tr_bad = (tr_bad or []) + [-1]
        if not tr_bad and not pin_bad:
            ctx.cov["discharged"] += 1
        if not sp_bad:
            ctx.cov["discharged"] += 1
    else:
        # the generated definitions are unusable: the oracle still runs against the snapshot's glue (theories/C14/Sel.v)
        def lit(t):
            return "(%s, %s, %s, %d)" % (cbool(t[0]), cbool(t[1]), cbool(t[2]), t[3])
        def live(v):
            return "(Some None)" if v == "none" else ("(Some (Some %d))" % v if isinstance(v, int) else "None")
        terms = ["(%s, %s, %s)" % (lit(a), lit(b), live(v)) for a, b, v in rows]
        sp_bad, _ = C.run_cases(PID, "sp", "From Whad Require Import C14.Base C14.Spec C14.GenTable C14.Sel.\nOpen Scope N_scope.",
                                "(bool * bool * bool * N) * (bool * bool * bool * N) * option (option N)", terms, "check_live_is_spec")
    for idx in (sp_bad or [])[:8]:
        a, b, v = rows[idx]
        a_viol += ctx.violation("live key_generation_method_selection differs from Tables 2.6-2.8",
                                {"op": "method", "initiator": dict(zip(("lesc", "oob", "mitm", "iocap"), a)),
                                 "responder": dict(zip(("lesc", "oob", "mitm", "iocap"), b))},
                                expected="Spec.spec_kres (see coq/theories/C14/Spec.v)", observed=v)
    ctx.log("stage A: translator validation bad=%s, live-vs-spec bad=%s, pin-source bad=%s" % (
        len(tr_bad) if tr_bad is not None else "n/a", len(sp_bad or []), len(pin_bad) if pin_bad is not None else "n/a"))

    results = f_pairs.result()
    pool.shutdown()
    ctx.log("stage B: implementation runs done")
    ctx.cov["evaluations"] = len(rows) + len(table["pins"]) + sum(len(steps_of(c)) for c in cases)
    ctx.cov["traces_validated_against_impl"] = sum(len(steps_of(c)) for c in cases)

    nviol, viol_idx, per_what = 0, [], {}
    dist = {"outcomes": {}, "methods": {}, "kinds": {}, "pdus_sent": {}, "exceptions": {}}
    nsteps = 0
    for i, (c0, r0) in enumerate(zip(cases, results)):
        if r0 is None or "driver_error" in r0:
            raise C.CheckBroken("impl driver failed on case %d: %r" % (i, r0))
        kd = c0["kind"].split(":")[0]
        dist["kinds"][kd] = dist["kinds"].get(kd, 0) + 1
        failed_case = False
        for stepno, (c, r) in enumerate(zip(steps_of(c0), runs_of(r0))):
            nsteps += 1
            vs = U.oracle(c, r, c.get("expect"))
            o = "%s/%s" % (U.outcome(r["sides"][0]), U.outcome(r["sides"][1]))
            dist["outcomes"][o] = dist["outcomes"].get(o, 0) + 1
            dist["methods"][str(c.get("spec_method"))] = dist["methods"].get(str(c.get("spec_method")), 0) + 1
            if stepno:
                mk = "step%d:%s%s" % (stepno + 1, c.get("mode"), "+interleaved" if c.get("concurrent") else "")
                dist.setdefault("sequence_steps", {})[mk] = dist.setdefault("sequence_steps", {}).get(mk, 0) + 1
            for s_ in r["sides"]:
                for op in s_["trace"]:
                    dist["pdus_sent"][str(op)] = dist["pdus_sent"].get(str(op), 0) + 1
                for e in s_["exc"]:
                    k = e["cls"] + "@" + e["where"]
                    dist["exceptions"][k] = dist["exceptions"].get(k, 0) + 1
            for what, key, exp, obs in vs:
                payload = dict(public_case(c0), op="pair", failing_step=stepno + 1)
                if stepno:
                    what = "procedure %d of a sequence through the same stacks (%s): %s" % (
                        stepno + 1, {"same": "same connection", "reconnect": "same handle after a disconnection",
                                     "new": "new connection handle"}[c.get("mode", "new")]
                        + (", interleaved with the previous one" if c.get("concurrent") else ""), what)
                if key is not None and key in ctx.kf:
                    ctx.violation(what, payload, key=key, expected=exp, observed=obs)
                    continue
                if not failed_case:
                    nviol += 1
                    viol_idx.append(i)
                    failed_case = True
                    wk = what if not stepno else what.split(": ", 1)[1] + " [later procedure of a sequence]"
                    per_what[wk] = per_what.get(wk, 0) + 1
                    if per_what[wk] <= 3 and len(ctx.violations) < 15:      # a few replays per class of failure are enough
                        ctx.violation(what, payload, key=key, expected=exp, observed=obs)
                break       # one replay per failing case
    ctx.log("oracle: %d cases (%d pairing procedures), %d violating, known findings hit: %s" % (len(cases), nsteps, nviol, sorted(ctx.known_hits)))

    # ---- correspondence model <-> implementation (inside Coq) -----------------
    pre = "From Whad Require Import C14.Base C14.GenTable C14.Model.\nOpen Scope N_scope."
    terms = [clist(["(%s, %s)" % (COQ_MODE[c.get("mode", "new")], U.ccase(c, r))
                    for c, r in zip(steps_of(c0), runs_of(r0))]) for c0, r0 in zip(cases, results)]
    bad, logs = C.run_cases(PID, "pair", pre, "list (mode * case_t)", terms, "check_seq", shard=150, max_chars=350000)
    ctx.notes += logs[:4]
    ctx.log("correspondence: %d cases, %d bad" % (len(terms), len(bad)))
    first_bad = None
    if bad:
        i = bad[0]
        try:
            diff = C.coq_eval(PID, "diff", pre, ["seq_diff 0 true st_init st_init %s" % terms[i]])[0]
        except C.CheckBroken as e:      # noqa
            diff = "?"
        first_bad = {"case": public_case(cases[i]), "differing_components": diff,
                     "impl": {"outcomes": [U.outcome(s) for s in results[i]["sides"]],
                              "states": [s["state"] for s in results[i]["sides"]],
                              "fail": [s["fail"] for s in results[i]["sides"]], "preq": results[i]["preq"], "pres": results[i]["pres"]}}
        ctx.log("first disagreeing case:", json.dumps(first_bad)[:600])

    # ---- coverage ----------------------------------------------------------------
    nontrivial = [[[st["i"], st["r"], st["ui"], st.get("mode"), st.get("ediv"), st.get("bv")] for st in steps_of(c)]
                  for c, r in zip(cases, results) if r["nmsg"] > 4]
    ctx.cov["distinct_nontrivial"] = C.distinct_count(nontrivial) + C.distinct_count(rows)
    ctx.cov["rule"] = ("stage A: the full product 40x40 of (lesc, oob, mitm, iocap) per side, exhaustive. Stage B: the same product exhaustive "
                       "(x%d) with bonding / key size 7..16 / 2^4 distribution flags / scripted user sampled, plus sweeps of distribution flags, key sizes, "
                       "a wrong passkey bit in every round, refused numeric comparison, random draws at the top of their range, and random parameter sets. "
                       "Non-trivial = a run that exchanged more than 4 PDUs (went beyond request/response/failed); distinct by content hash"
                       % (3 if ctx.thorough else 1))
    covered_states = sorted({s["state"] for r in results for s in r["sides"]})
    dist["final_states_seen"] = covered_states
    dist["cases"] = len(cases)
    dist["violating_cases_by_kind"] = per_what
    dist["max_pdus_in_a_run"] = max(r["nmsg"] for r in results)
    dist["uncovered_branches"] = ["handler branches for PDUs arriving in an unexpected state other than those reached after a refused numeric comparison (SM_Failed/UNSPEC_REASON paths)",
                                  "accept_pairing=False, request_pairing/on_security_request (peripheral-initiated), keypress, ct2",
                                  "key_generation_method_selection returning None (unreachable for IO capability codes 0..4)"]
    ctx.cov["distribution"] = dist
    smp = "whad/ble/stack/smp/__init__.py"
    ctx.cov["source_ties"] = (info["ties"] if info else []) + [
        C.source_tie(smp, 1183, 1260), C.source_tie(smp, 1261, 2360), C.source_tie(smp, 2361, 2720),
        C.source_tie("whad/ble/stack/smp/parameters.py"), C.source_tie("whad/ble/stack/llm/__init__.py", 656, 955),
        C.source_tie("whad/ble/crypto.py", 23, 200)]
    k = next((i for i, c in enumerate(cases) if c.get("spec_method") == 1 and c["kind"] == "product"), 0)
    k2 = next((i for i, c in enumerate(cases) if c.get("spec_method") == 4 and c["kind"] == "product"), 1)
    def sample(i):
        r = results[i]
        return {"case": public_case(cases[i]), "impl": {"outcomes": [U.outcome(s) for s in r["sides"]], "pdus": r["nmsg"],
                                                        "method": [s["method"] for s in r["sides"]],
                                                        "stk": r["sides"][0]["stk"], "db_entries": [len(s["db"]) for s in r["sides"]]}}
    ctx.cov["samples"] = [{"stage": "A", "row": rows[777]}, sample(k), sample(k2), sample(len(cases) - 1)]
    ctx.cov["stage_a"] = {"translated_items": info["items"] if info else [], "regenerated_same_as_snapshot": a_res["regen_same_as_snapshot"],
                          "lemmas_rechecked_against_regenerated_definition": a_res.get("lemmas_rechecked", []),
                          "translator_validation_cases": len(rows) + len(table["pins"]),
                          "translator_bad": tr_bad, "live_vs_spec_bad": sp_bad, "pin_source_bad": pin_bad}
    ctx.cov["correspondence"] = {"pair_cases": len(terms), "pair_bad": len(bad)}

    # ---- verdict -------------------------------------------------------------------
    broken = []
    if not proofs_ok:
        broken.append(("proof obligations of theories/C14: " + detail.splitlines()[0][:200], detail, None))
    if not a_res["ok"]:
        broken.append(("stage A: " + a_res["detail"][0].splitlines()[0][:200], "\n".join(a_res["detail"]), None))
    if tr_bad:
        j = tr_bad[0]
        broken.append(("stage A: generated definition differs from the live function on %d inputs (translator grammar no longer means what the code means)" % len(tr_bad),
                       "", rows[j] if j >= 0 else "mapping/constants read by ast differ from the imported module"))
    if pin_bad:
        broken.append(("stage A: generated get_pin_code_source differs from the live get_pin_code", "", table["pins"][pin_bad[0]]))
    if bad:
        broken.append(("correspondence C14.Model vs the two real stacks (%d of %d runs disagree)" % (len(bad), len(terms)), "\n".join(logs), first_bad))
    if broken and not ctx.violations:
        for what, det, first in broken[:2]:
            ctx.broken_obligation(what, det, first)


def replay(payload):
    case = payload.get("case") or (payload.get("first_disagreeing_case") or {}).get("case")
    print(json.dumps(case)[:1500])
    if not case:
        return 0
    if case.get("op") == "method":
        t = C.run_impl("C14.py", {"mode": "table"})
        a = [case["initiator"][k] for k in ("lesc", "oob", "mitm", "iocap")]
        b = [case["responder"][k] for k in ("lesc", "oob", "mitm", "iocap")]
        print("implementation now selects:", [v for x, y, v in t["rows"] if x == a and y == b])
        return 0
    rr = C.run_impl("C14.py", {"mode": "pair", "cases": [{"seq": [step_request(st) for st in steps_of(case)]}]})["results"][0]["runs"]
    for stepno, (st, r) in enumerate(zip(steps_of(case), rr)):
        print("--- procedure %d (%s)" % (stepno + 1, st.get("mode", "new")))
        replay_one(st, r)
    return 0


def replay_one(case, r):
    print("implementation now:", json.dumps({"outcomes": [U.outcome(s) for s in r["sides"]], "states": [s["state"] for s in r["sides"]],
                                              "fail": [s["fail"] for s in r["sides"]], "exc": [s["exc"] for s in r["sides"]],
                                              "method": [s["method"] for s in r["sides"]], "pdus": r["nmsg"],
                                              "pairing_request": r["preq"], "pairing_response": r["pres"],
                                              "db_entries": [len(s["db"]) for s in r["sides"]]}))
    for what, key, exp, obs in U.oracle(case, r, case.get("expect")):
        print("property violated:", what, "| class:", key, "| expected:", json.dumps(exp)[:200], "| observed:", json.dumps(obs)[:200])
    return 0
