"""C09 — the chunk arithmetic of GattClient.write_long_nolock (whad/ble/stack/gatt/__init__.py) that is
translated from the source on every run (harness/translators/pyfun.py) and proved equal to the
hand-written model (coq/theories/C09/GenEq.v against the snapshot coq/theories/C09/Gen.v).
See design/PYTRANS.md."""

SRC = "whad/ble/stack/gatt/__init__.py"
TITLE = "C09 — Gallina generated from whad/ble/stack/gatt/__init__.py (GattClient.write_long_nolock)"
MODEL_IMPORT = "From Whad Require Import C09.Model."
QN = "GattClient.write_long_nolock"


def _bytes(rng, n):
    return bytes(rng.randrange(256) for _ in range(n))


def gen_plan(rng):
    mtu = rng.choice([6, 7, 23, 23, 24, 50, 185, 247, 517, rng.randrange(6, 520)])
    cs = mtu - 5
    n = rng.choice([0, 1, cs - 1, cs, cs + 1, 2 * cs - 1, 2 * cs, 2 * cs + 1, 3 * cs, 5 * cs + 1, rng.randrange(0, 600)])
    return {"value": _bytes(rng, max(0, min(n, 700))), "mtu": mtu}


def gen_chunk(rng):
    n = rng.randrange(0, 120)
    return {"value": _bytes(rng, n), "offset": rng.choice([0, 1, n, n + 3, rng.randrange(0, n + 2)]),
            "chunk_size": rng.choice([1, 2, 18, 18, rng.randrange(1, 60)]), "echoed": _bytes(rng, rng.randrange(0, 30))}


LOOP_INPUTS = [["value", "value", "bytes"], ["offset", "offset", "nat"], ["chunk_size", "chunk_size", "nat"],
               ["msg.value", "echoed", "bytes"]]
LOOP_LIVE = ("def live(a):\n"
             "    return FRAG({'value': a['value'], 'offset': a['offset'], 'chunk_size': a['chunk_size'], 'msg': NS(value=a['echoed'])})\n")

ITEMS = [
    # data_len, local_mtu, nb_chunks (int(data_len/(mtu-5)), +1 when a remainder is left), chunk_size, offset = 0
    {"path": SRC, "qualname": QN,
     "spec": {"name": "write_long_plan", "mode": "prefix", "stop_at": "For", "returns": ["nb_chunks", "chunk_size", "offset"],
              "inputs": [["value", "value", "bytes"], ["self.att.get_server_mtu()", "mtu", "nat"]]},
     "model": "(nb_chunks (length value) (mtu - 5), mtu - 5, 0)%nat", "gen": gen_plan,
     "live": ("def live(a):\n"
              "    return FRAG({'value': a['value'], 'self': NS(att=NS(get_server_mtu=lambda: a['mtu']))})\n")},
    # the piece sent by each Prepare Write request: value[offset:offset + chunk_size]
    {"path": SRC, "qualname": QN,
     "spec": {"name": "write_long_chunk", "mode": "expr", "select": {"arg_of": "self.att.prepare_write_request", "index": 2},
              "inputs": LOOP_INPUTS},
     "model": "slice offset (offset + chunk_size) value", "gen": gen_chunk, "live": LOOP_LIVE},
    # offset += len(msg.value)
    {"path": SRC, "qualname": QN,
     "spec": {"name": "write_long_next_offset", "mode": "expr", "select": {"rhs_of": "offset", "nth": 1}, "inputs": LOOP_INPUTS},
     "model": "(offset + length echoed)%nat", "gen": gen_chunk, "live": LOOP_LIVE},
]
