"""C19 — capture fidelity: format -> PCAP -> replay.  See DESIGN.md §2 C19, design/C19.md.

Pipeline of a run:
 1 translator: channel/frequency maps of the tree under verification -> Gallina
   (build/C19/gen/MapsGen.v), compiled; kernel-checked equality with the committed
   snapshot coq/theories/C19/Maps.v (which the theorems are about) + the
   channel_maps_inverse sweeps re-proved on the generated text; if the text differs
   from the snapshot the whole C19 theory is rebuilt against the generated maps.
 2 proofs: make + Print Assumptions of theories/C19.
 3 generation: per domain an exhaustive item sweep + random captures (metadata
   valuations x clock kinds) + corpus witnesses (known findings) + a malformed stream.
 4 implementation: harness/impl/C19.py (real PcapWriterMonitor, real Pcap device, real
   Sniffer connectors), live channel maps on wide integer ranges.
 5 oracle = the property on the real code's outputs.
 6 correspondence model vs implementation inside Coq (captures, maps, raising writers).
 7 verdict.
"""
import json, os, re, shutil, struct
from harness import common as C
from harness.common import cbytes, cbool, clist, cZ, copt, cpair
from harness.translators import C19_maps as T

PID = "C19"
DOMAINS = ["ble", "dot15d4", "esb", "unifying", "phy"]
COQ_DOM = {"ble": "BLE", "dot15d4": "DOT15D4", "esb": "ESB", "unifying": "UNIFYING", "phy": "PHY"}
MAP_IDS = {"ble_channel_to_rf_channel": 0, "rf_channel_to_ble_channel": 1, "ble_channel_to_frequency": 2,
           "ble_frequency_to_channel": 3, "hub_channel_to_frequency": 4, "dot15d4_channel_to_frequency": 5,
           "dot15d4_frequency_to_channel": 6, "esb_channel_to_frequency": 7, "esb_frequency_to_channel": 8}
CHANNELS = {"ble": list(range(0, 40)), "dot15d4": list(range(11, 27)), "esb": list(range(0, 126)),
            "unifying": list(range(0, 126)), "phy": [2402000000, 2480000000, 433920000, 868100000, 915000000, 1, 4294967295]}
RSSI_EDGE = [-128, -127, -100, -1, 0, 1, 100, 126, 127]

# finding keys: (domain, item) -> key ; the predicates are in classify()
KEYS = {
    "ble-absent-channel-reads-37", "ble-absent-rssi-defaulted-by-hub-message", "ble-absent-crc-flag-defaulted-by-hub-message",
    "dot15d4-absent-channel-reads-15", "dot15d4-absent-rssi-reads-0", "dot15d4-fcs-validity-not-carried",
    "esb-channel-not-carried", "esb-rssi-not-carried", "esb-crc-flag-not-carried",
    "unifying-channel-not-carried", "unifying-rssi-not-carried", "unifying-crc-flag-not-carried",
    "phy-absent-rssi-reads-0", "phy-absent-frequency-reads-0",
}


# ---------------------------------------------------------------------------
# frames
# ---------------------------------------------------------------------------

def fcs16(data):
    crc = 0
    for b in data:
        crc ^= b
        for _ in range(8):
            crc = (crc >> 1) ^ 0x8408 if crc & 1 else crc >> 1
    return crc


def esb_crc_update(crc, value, bits):
    crc ^= value << 8
    while bits > 0:
        bits -= 1
        crc = ((crc << 1) ^ 0x1021) if crc & 0x8000 else (crc << 1)
    return crc & 0xFFFF


def esb_frame(address, payload, pid=0, no_ack=False, good_crc=True):
    """an Enhanced ShockBurst frame as it is on air (same construction as tests/protocol/esb)"""
    pcf = ((len(payload) & 0x3F) << 3) | ((pid & 3) << 1) | (1 if no_ack else 0)
    carry, out = pcf & 1, []
    for x in payload:
        out.append((x >> 1) | (carry << 7)); carry = x & 1
    out.append(carry << 7)
    frame = bytes(address) + bytes([pcf >> 1]) + bytes(out)
    crc = 0xFFFF
    for x in frame[:-1]:
        crc = esb_crc_update(crc, x, 8)
    crc = esb_crc_update(crc, frame[-1], 1)
    if not good_crc:
        crc ^= 0x0100
    c = struct.pack(">H", crc)
    out[-1] |= c[0] >> 1
    out.append((c[1] >> 1) | ((c[0] & 1) << 7))
    out.append((c[1] & 1) << 7)
    return bytes([0xAA]) + bytes(address) + bytes([pcf >> 1]) + bytes(out)


def ble_crc24(pdu, init=0x555555):
    """CRC of a BLE PDU as scapy's BTLE layer computes it when it builds a frame (3 bytes)"""
    def swap(a):
        return int("{:08b}".format(a)[::-1], 2)
    state = swap(init & 0xff) + (swap((init >> 8) & 0xff) << 8) + (swap((init >> 16) & 0xff) << 16)
    for i in pdu:
        for _ in range(8):
            nb = (state ^ i) & 1
            i >>= 1
            state >>= 1
            if nb:
                state |= 1 << 23
                state ^= 0x5a6000
    return struct.pack("<L", state)[:-1]


BLE_ADV_AA = bytes.fromhex("d6be898e")       # BleDomain.format: BTLE(access_addr=0x8e89bed6) / BTLE_ADV
BLE_DATA_AA = bytes.fromhex("44332211")      # BleDomain.format: BTLE(access_addr=0x11223344) / BTLE_DATA
SIZES = {"ble": ["min", "adv-max", "data-251", "data-255"], "dot15d4": ["ack5", "len6", "len7", "max127"],
         "esb": ["empty", "max32"], "unifying": ["empty", "max32"], "phy": ["one", "long"]}


def boundary_frame(rng, domain, k, size):
    """minimum / maximum length frames of each domain"""
    rb = lambda n: bytes(rng.randrange(256) for _ in range(n))
    if domain == "ble":
        if size == "min":                       # empty data PDU: access address + 2-byte header + CRC = 9 bytes
            return bytes([rng.randrange(1, 255) for _ in range(4)]) + bytes([0x01, 0x00]) + rb(3)
        if size == "adv-max":                   # legacy advertising PDU, 37 bytes of payload
            return BLE_ADV_AA + bytes([0x42, 37, k & 0xff]) + rb(36) + rb(3)
        n = 251 if size == "data-251" else 255
        return bytes([rng.randrange(1, 255) for _ in range(4)]) + bytes([0x02, n, k & 0xff]) + rb(n - 1) + rb(3)
    if domain == "dot15d4":
        body = {"ack5": bytes([0x02, 0x00, k & 0xff]),                      # ACK: frame control + sequence number
                "len6": bytes([0x02, 0x00, k & 0xff]) + rb(1),
                "len7": bytes([0x03, 0x08, k & 0xff]) + rb(2),
                "max127": bytes([0x41, 0x88, k & 0xff]) + bytes.fromhex("34120000ffff") + rb(116)}[size]
        return body + struct.pack("<H", fcs16(body))
    if domain in ("esb", "unifying"):
        addr = bytes([rng.randrange(0x80, 0x100)] + [rng.randrange(256) for _ in range(4)])
        return esb_frame(addr, b"" if size == "empty" else bytes([k & 0xff]) + rb(31), pid=rng.randrange(4))
    return bytes([k & 0xff]) if size == "one" else bytes([k & 0xff]) + rb(599)


def mk_frame(rng, domain, k, size=None, shape=None):
    """a frame whose content carries the sequence number k (to observe order).
    `size`: a boundary length (SIZES); `shape`: the packet object handed to the monitor has no
    link-layer header layer (BLE "adv" / "data": BTLE_ADV/... or BTLE_DATA/... as produced by
    BleAdvPduReceived / BlePduReceived; 802.15.4 "nofcs": Dot15d4 without FCS) -- the frame is
    then what format() must write: default access address + PDU + the CRC scapy computes."""
    tag = bytes([k & 0xff, (k >> 8) & 0xff])
    if size is not None:
        return boundary_frame(rng, domain, k, size)
    if domain == "ble" and shape in ("adv", "data"):
        if shape == "adv":
            pdu = bytes([rng.choice([0x40, 0x00, 0x42, 0x46]), 6 + 3]) + tag + bytes(rng.randrange(256) for _ in range(4)) + bytes([2, 1, 6])
            return BLE_ADV_AA + pdu + ble_crc24(pdu)
        att = bytes([0x52, 0x03, 0x00]) + tag + bytes(rng.randrange(256) for _ in range(rng.randrange(0, 12)))
        l2 = struct.pack("<HH", len(att), 4) + att
        pdu = bytes([0x02, len(l2)]) + l2
        return BLE_DATA_AA + pdu + ble_crc24(pdu)
    if domain == "dot15d4" and shape == "nofcs":
        return bytes([0x41, 0x88, k & 0xff]) + bytes.fromhex("34120000ffff") + tag + bytes(rng.randrange(256) for _ in range(rng.randrange(0, 20)))
    if domain == "ble":
        if rng.random() < 0.5:     # advertisement
            adva = tag + bytes(rng.randrange(256) for _ in range(4))
            pdu = bytes([0x40, 6 + 3]) + adva + bytes([2, 1, 6])
            aa = bytes.fromhex("d6be898e")
        else:                      # data PDU, L2CAP/ATT write command
            att = bytes([0x52, 0x03, 0x00]) + tag + bytes(rng.randrange(256) for _ in range(rng.randrange(0, 12)))
            l2 = struct.pack("<HH", len(att), 4) + att
            pdu = bytes([0x02, len(l2)]) + l2
            aa = bytes([rng.randrange(1, 255) for _ in range(4)])
        # frames whose Length byte disagrees with the captured size, both ways: a Bluetooth 5.1
        # data PDU with the CP bit and a CTEInfo byte after the header, trailing bytes the
        # Length byte does not announce, and a Length byte announcing more than was captured
        r = rng.random()
        if r < 0.12 and pdu[0] == 0x02:
            pdu = bytes([0x22, pdu[1], 0x14]) + pdu[2:]
        elif r < 0.24:
            pdu = pdu + bytes(rng.randrange(256) for _ in range(rng.randrange(1, 4)))
        elif r < 0.36 and pdu[1] >= 2:
            pdu = bytes([pdu[0], pdu[1] + rng.randrange(1, 6)]) + pdu[2:]
        elif r < 0.42:
            pdu = bytes([pdu[0], max(0, pdu[1] - rng.randrange(1, 3))]) + pdu[2:]
        return aa + pdu + bytes(rng.randrange(256) for _ in range(3))
    if domain == "dot15d4":
        body = bytes([0x41, 0x88, k & 0xff]) + bytes.fromhex("34120000ffff") + tag + bytes(rng.randrange(256) for _ in range(rng.randrange(0, 20)))
        fcs = fcs16(body)
        if rng.random() < 0.15:
            fcs ^= 0x0101
        return body + struct.pack("<H", fcs)
    if domain in ("esb", "unifying"):
        addr = bytes([rng.randrange(0x80, 0x100)] + [rng.randrange(256) for _ in range(4)])
        payload = tag + bytes(rng.randrange(256) for _ in range(rng.randrange(0, 10)))
        return esb_frame(addr, payload, pid=rng.randrange(4), good_crc=rng.random() > 0.15)
    return tag + bytes(rng.randrange(256) for _ in range(rng.randrange(1, 24)))


# ---------------------------------------------------------------------------
# metadata valuations and clocks
# ---------------------------------------------------------------------------

def rand_meta(rng, domain, p_absent=0.25):
    m = {}
    def maybe(v):
        return None if rng.random() < p_absent else v
    m["channel"] = maybe(rng.choice(CHANNELS[domain]))
    m["rssi"] = maybe(rng.choice(RSSI_EDGE) if rng.random() < 0.4 else rng.randrange(-128, 128))
    if domain == "ble":
        m["direction"] = maybe(rng.choice([0, 1, 2, 1, 2]))
    if domain != "phy":
        m["valid"] = maybe(rng.random() < 0.6)
    if domain == "dot15d4":
        m["lqi"] = maybe(rng.choice([0, 1, 200, 254, 255, rng.randrange(256)]))
    if domain == "phy":
        if rng.random() < 0.7:
            m.update(syncword=bytes(rng.randrange(256) for _ in range(rng.randrange(0, 5))).hex(),
                     endianness=rng.randrange(2), modulation=rng.randrange(8),
                     deviation=rng.randrange(0, 500000), datarate=rng.randrange(0, 2000000))
    return {k: v for k, v in m.items() if v is not None}


def rand_clock(rng, n, kind):
    """(local clock per packet, device timestamp per packet or None)"""
    now = rng.randrange(1600000000000000, 1800000000000000)
    nows = []
    for _ in range(n):
        nows.append(now)
        now += rng.choice([0, 1, 9, 10, 11, 777, rng.randrange(0, 5000), rng.randrange(0, 3000000)])
    if kind == "none":
        ts = [None] * n
    elif kind == "device":
        t, ts = rng.randrange(0, 2 ** 32), []
        for _ in range(n):
            ts.append(t)
            t += rng.choice([0, 1, 9, 10, 11, 625, rng.randrange(0, 3000), rng.randrange(0, 20000000)])
    elif kind == "mixed":
        D = nows[0] - rng.randrange(0, 2 ** 32)
        ts = [(x - D) if rng.random() < 0.6 else None for x in nows]
    else:  # "unrelated": some packets without timestamp, device clock unrelated to the local one
        t, ts = rng.randrange(0, 2 ** 32), []
        for _ in range(n):
            ts.append(t if rng.random() < 0.6 else None)
            t += rng.randrange(0, 3000)
    return nows, ts


def mk_case(rng, domain, metas, kind, label):
    nows, ts = rand_clock(rng, len(metas), kind)
    pkts = []
    for k, m in enumerate(metas):
        m = dict(m)
        if ts[k] is not None:
            m["ts"] = ts[k]
        size = m.pop("size", None)
        alts = [mk_frame(rng, domain, k, size=size, shape=m.get("shape")).hex() for _ in range(3 if domain in ("esb", "unifying") else 1)]
        pkts.append({"frame": alts[0], "frames": alts, "meta": m})
    return {"domain": domain, "clock": nows, "pkts": pkts, "kind": kind, "label": label}


def sweep_metas(rng, domain, full=False):
    """every RSSI -128..127 and absent, every channel and absent, every direction / validity
    value and absent (per item exhaustive; `full`: channel x RSSI cross product)"""
    chans = CHANNELS[domain] + [None]
    rssis = list(range(-128, 128)) + [None]
    dirs = [None, 0, 1, 2] if domain == "ble" else [None]
    valids = [None, True, False] if domain != "phy" else [None]
    out = []
    if full:
        combos = [(c, r) for c in chans for r in rssis]
    else:
        n = max(len(chans), len(rssis))
        combos = [(chans[i % len(chans)], rssis[i % len(rssis)]) for i in range(n)]
        combos += [(c, rng.choice(rssis)) for c in chans for _ in range(2)]
    for i, (c, r) in enumerate(combos):
        m = {"channel": c, "rssi": r, "direction": dirs[i % len(dirs)], "valid": valids[(i // len(dirs)) % len(valids)]}
        if domain == "dot15d4":
            m["lqi"] = [None, 0, 255, 200, i % 256][i % 5]
        if domain == "phy" and i % 3:
            m["syncword"] = "aabb"
        out.append({k: v for k, v in m.items() if v is not None})
    # all (direction, validity, presence of channel / rssi) combinations
    for d in dirs:
        for v in valids:
            for c in (None, chans[0]):
                for r in (None, -40):
                    m = {"channel": c, "rssi": r, "direction": d, "valid": v}
                    out.append({k: x for k, x in m.items() if x is not None})
    return out


def gen_cases(ctx):
    rng, cases = ctx.rng, []
    for d in DOMAINS:
        metas = sweep_metas(rng, d, full=(ctx.thorough and d in ("ble", "dot15d4")))
        for i in range(0, len(metas), 300):
            cases.append(mk_case(rng, d, metas[i:i + 300], "device", "sweep"))
        nrand = 120 if ctx.thorough else 14
        for j in range(nrand):
            kind = ["device", "none", "mixed", "mixed", "unrelated"][j % 5]
            n = rng.choice([1, 1, 2, 3, 5, 8, 13, 25])
            cases.append(mk_case(rng, d, [rand_meta(rng, d) for _ in range(n)], kind, "random"))
        # a capture written in two sessions (the second monitor appends to the file of the first)
        for j in range(8 if ctx.thorough else 2):
            n = rng.choice([2, 4, 7, 12])
            c = mk_case(rng, d, [rand_meta(rng, d) for _ in range(n)], ["device", "mixed", "none"][j % 3], "append")
            c["split"] = rng.randrange(1, n)
            cases.append(c)
        # frame-length boundaries: the shortest and the longest frames of the domain, between
        # ordinary ones (every written packet must be replayed, in order)
        for j in range(4 if ctx.thorough else 1):
            metas = []
            for sz in SIZES[d] * (2 if ctx.thorough else 1):
                metas.append(dict(rand_meta(rng, d), size=sz))
                metas.append(rand_meta(rng, d))
            rng.shuffle(metas)
            cases.append(mk_case(rng, d, metas, ["device", "mixed", "none", "device"][j % 4], "frame-length-boundaries"))
        # packet shapes without link-layer header layer, as the non-raw message classes produce
        # them (BleAdvPduReceived: BTLE_ADV/...; BlePduReceived: BTLE_DATA/...; 802.15.4 PduReceived:
        # Dot15d4 without FCS), each metadata field present / absent
        shapes = {"ble": ["adv", "data"], "dot15d4": ["nofcs"]}.get(d, [])
        for sh in shapes:
            metas = []
            for c in (None, rng.choice(CHANNELS[d])):
                for r_ in (None, rng.randrange(-128, 128)):
                    for v in (None, True, False):
                        for di in ((None, 1, 2, 0) if d == "ble" else (None,)):
                            metas.append({k_: x for k_, x in (("channel", c), ("rssi", r_), ("valid", v), ("direction", di), ("shape", sh)) if x is not None})
            if not ctx.thorough:
                rng.shuffle(metas)
                metas = metas[:14]
            else:
                metas += [dict(rand_meta(rng, d), shape=sh) for _ in range(40)]
            cases.append(mk_case(rng, d, metas, "device", "shape-" + sh))
            cases.append(mk_case(rng, d, [dict(rand_meta(rng, d), shape=sh) for _ in range(5)], "none", "shape-" + sh))
        # the connector is stopped and started again (or its sniffing mode re-enabled) in the
        # middle of the replay: start / k packets / stop / start / ... / rest
        for j in range(12 if ctx.thorough else 4):
            n = rng.choice([4, 6, 9, 14])
            c = mk_case(rng, d, [rand_meta(rng, d) for _ in range(n)], ["device", "mixed", "none", "device"][j % 4], "restart")
            op = ["stop_start", "reconfigure"][j % 2]
            ks = sorted(rng.sample(range(1, n), rng.choice([1, 1, 2, 3]) if n > 4 else 1))
            c["restarts"] = [[k, op] for k in ks]
            cases.append(c)
        # two writer threads on one monitor: while packet i reads the local clock a second thread
        # runs the whole process_packet of packet i+1 (possible only if the clock is read outside
        # the writer lock)
        for j in range(6 if ctx.thorough else 2):
            n = rng.choice([3, 5, 8])
            c = mk_case(rng, d, [rand_meta(rng, d) for _ in range(n)], ["none", "mixed"][j % 2], "concurrent-writers")
            first = rng.randrange(0, n - 1)
            c["concurrent"] = [[first, first + 1]] + ([[first + 2, first + 3]] if first + 3 < n and rng.random() < 0.5 else [])
            cases.append(c)
        # the wall clock of the replaying host steps backwards during the replay: must not matter
        for j in range(6 if ctx.thorough else 2):
            c = mk_case(rng, d, [rand_meta(rng, d) for _ in range(rng.choice([3, 5, 8]))], ["device", "mixed"][j % 2], "replay-clock-backwards")
            c["replay_clock"] = "backwards"
            cases.append(c)
    return cases


def gen_malformed(ctx):
    """values the header fields cannot hold: the writer raises; nothing may be written silently wrong"""
    rng, out = ctx.rng, []
    bad = [("ble", {"channel": 37, "rssi": 128}), ("ble", {"channel": 37, "rssi": -129}), ("ble", {"channel": 254, "rssi": 0}),
           ("dot15d4", {"channel": 11, "rssi": -40, "lqi": 256}), ("dot15d4", {"channel": 65536, "rssi": -40}),
           ("phy", {"channel": 4294967296, "rssi": 0, "syncword": "aa"})]
    for d, m in (bad if ctx.thorough else bad[:4]):
        c = mk_case(rng, d, [m], "device", "malformed")
        out.append(c)
    return out


# ---------------------------------------------------------------------------
# oracle: the property on the real code's outputs
# ---------------------------------------------------------------------------

def in_quantifier(domain, m):
    """is the valuation one the property quantifies over"""
    r, c = m.get("rssi"), m.get("channel")
    if r is not None and not -128 <= r <= 127:
        return False
    if c is not None and domain != "phy" and c not in CHANNELS[domain]:
        return False
    if domain == "phy" and c is not None and not 0 <= c <= 4294967295:
        return False
    if m.get("direction") not in (None, 0, 1, 2):
        return False
    if m.get("lqi") is not None and not 0 <= m["lqi"] <= 255:
        return False
    return True


def canon_dir(domain, v):
    if domain != "ble":
        return None
    return 0 if v is None else v


def a_items(domain, a):
    """items of the message emitted by the Pcap device (stage A)"""
    if domain == "ble":
        frame = struct.pack("<I", a["access_address"]) + bytes.fromhex(a["pdu"]) + a["crc"].to_bytes(3, "big")
        return {"bytes": frame.hex(), "channel": a["channel"], "rssi": a["rssi"], "direction": a["direction"],
                "valid": a["crc_validity"], "ts": a["timestamp"]}
    if domain == "dot15d4":
        frame = bytes.fromhex(a["pdu"]) + struct.pack("<H", a["fcs"])
        return {"bytes": frame.hex(), "channel": a["channel"], "rssi": a["rssi"], "valid": a["fcs_validity"],
                "lqi": a["lqi"], "ts": a["timestamp"]}
    if domain in ("esb", "unifying"):
        return {"bytes": a["pdu"], "channel": a["channel"], "rssi": a["rssi"], "valid": a["crc_validity"], "ts": a["timestamp"]}
    return {"bytes": a["packet"], "channel": a["frequency"], "rssi": a["rssi"], "ts": a["timestamp"]}


def classify(domain, item, stage, m, got, a_got, crc_ok):
    """key of the known finding this item failure belongs to, or None (-> VIOLATION)"""
    want = m.get(item)
    if domain == "ble":
        if item == "channel" and want is None and got == 37:
            return "ble-absent-channel-reads-37"
        if stage == "B" and item == "rssi" and want is None and a_got is None and got == 0:
            return "ble-absent-rssi-defaulted-by-hub-message"
        if stage == "B" and item == "valid" and want is None and a_got is None and got is False:
            return "ble-absent-crc-flag-defaulted-by-hub-message"
    elif domain == "dot15d4":
        if item == "channel" and want is None and got == 15:
            return "dot15d4-absent-channel-reads-15"
        if item == "rssi" and want is None and got == 0:
            return "dot15d4-absent-rssi-reads-0"
        if item == "valid" and want in (None, False) and got is True:
            return "dot15d4-fcs-validity-not-carried"
    elif domain in ("esb", "unifying"):
        if item == "channel" and want != 0 and got == 0:
            return domain + "-channel-not-carried"
        if item == "rssi" and want is not None and got is None:
            return domain + "-rssi-not-carried"
        if item == "valid" and got is not None and got == crc_ok:
            return domain + "-crc-flag-not-carried"
    elif domain == "phy":
        if item == "rssi" and want is None and got == 0:
            return "phy-absent-rssi-reads-0"
        if item == "channel" and want is None and got == 0:
            return "phy-absent-frequency-reads-0"
    return None


def item_list(domain):
    items = ["channel", "rssi"]
    if domain == "ble":
        items.append("direction")
    if domain != "phy":
        items.append("valid")
    return items


def judge_case(case, res, report):
    """Evaluate the property on one capture. `report(what, key, detail)` is called for every failure.
    Returns the number of packets judged."""
    d = case["domain"]
    pk = case["pkts"]
    inq = [in_quantifier(d, p["meta"]) for p in pk]
    if "exc" in res:
        if all(inq):
            report("writing / replaying the capture raised %s (%s)" % (res["exc"], res.get("where")), None,
                   {"exc": res["exc"], "where": res.get("where"), "msg": res.get("msg")})
        return 0
    ins = res["in"]
    A = [a_items(d, a) for a in res["A"]]
    B = res["B"]
    for k, op in res.get("ops_done") or []:
        if (op.startswith("!") or op == "gate-not-reached") and all(inq):
            report("stopping / starting the connector after %d packets: %s" % (k, op), None, {"after": k, "op": op})
    if res.get("replay_thread_exc") and all(inq):
        report("the replay thread raised %s" % res["replay_thread_exc"], None, {"exc": res["replay_thread_exc"]})
    for stage, got in (("file", res["written"]), ("A", A), ("B", B)):
        if len(got) != len(pk) and all(inq):
            report("%d packets given to the writer, %d at stage %s" % (len(pk), len(got), stage), None,
                   {"stage": stage, "expected": len(pk), "observed": len(got)})
            return 0
    if not all(inq) and (len(A) != len(pk) or len(B) != len(pk)):
        return 0
    n = 0
    for i, p in enumerate(pk):
        if not inq[i] or not ins[i].get("stable"):
            continue
        n += 1
        m = p["meta"]
        crc_ok = ins[i].get("crc_ok")
        for stage, got in (("A", A[i]), ("B", B[i])):
            if got["bytes"] != p["frame"]:
                report("packet bytes differ at stage %s" % stage, None,
                       {"index": i, "stage": stage, "expected": p["frame"], "observed": got["bytes"]})
            for it in item_list(d):
                want, have = m.get(it), got.get(it)
                if it == "direction":
                    want, have = canon_dir(d, want), canon_dir(d, have)
                if want != have:
                    key = classify(d, it, stage, m, got.get(it), A[i].get(it), crc_ok)
                    report("%s %s not preserved (stage %s)" % (d, it, stage), key,
                           {"index": i, "stage": stage, "item": it, "expected": m.get(it), "observed": got.get(it), "meta": m})
        if d == "dot15d4" and m.get("channel") is not None and res["tap_back"][i] != m["channel"]:
            report("TAP centre frequency does not map back to the channel", None,
                   {"index": i, "channel": m["channel"], "tap_khz": res["tap_khz"][i], "maps_back_to": res["tap_back"][i]})
    # order is observed through the bytes (every frame carries its index); time:
    # (two sessions with device timestamps unrelated to the local clock have no common capture
    #  time at the seam: judged for the items only)
    if case["kind"] in ("none", "mixed") or (case["kind"] == "device" and not case.get("split")):
        T = [w[0] for w in res["written"]]
        if any(T[i] > T[i + 1] for i in range(len(T) - 1)):
            i = [i for i in range(len(T) - 1) if T[i] > T[i + 1]][0]
            report("written capture times decrease", None, {"index": i + 1, "times": T[max(0, i - 1):i + 3]})
        for stage, got in (("A", A), ("B", B)):
            ts = [g["ts"] for g in got]
            if any(t is None for t in ts):
                report("replayed packet without timestamp (stage %s)" % stage, None, {"stage": stage, "ts": ts[:10]})
            elif ts and (ts[0] != 0 or any(ts[i] > ts[i + 1] for i in range(len(ts) - 1)) or min(ts) < 0):
                report("relative timestamps do not start at 0 / decrease (stage %s)" % stage, None, {"stage": stage, "ts": ts[:20]})
    return n


# ---------------------------------------------------------------------------
# Coq terms
# ---------------------------------------------------------------------------

def c_meta(ch, rssi, di, valid, lqi, ts):
    return "(Build_meta %s %s %s %s %s %s)" % (copt(ch, cZ), copt(rssi, cZ), copt(di, cZ), copt(valid, cbool), copt(lqi, cZ), copt(ts, cZ))


def c_in_meta(d, m):
    return c_meta(m.get("channel"), m.get("rssi"), m.get("direction") if d == "ble" else None,
                  m.get("valid") if d != "phy" else None, m.get("lqi") if d == "dot15d4" else None, m.get("ts"))


def c_out_meta(d, g):
    return c_meta(g.get("channel"), g.get("rssi"), g.get("direction"), g.get("valid"), g.get("lqi"), g.get("ts"))


def capture_term(case, res, hub):
    d = case["domain"]
    A = [a_items(d, a) for a in res["A"]]
    pins, obs = [], []
    for i, p in enumerate(case["pkts"]):
        crc_ok = res["in"][i].get("crc_ok", True)
        pins.append("(Build_pin %s %s %s %s)" % (cbytes(bytes.fromhex(p["frame"])), cbool(crc_ok), c_in_meta(d, p["meta"]), cZ(case["clock"][i])))
        khz = res["tap_khz"][i] if d == "dot15d4" else None
        if isinstance(khz, str):
            khz = -1
        obs.append("(%s, %s, %s, %s, %s, %s)" % (cZ(res["written"][i][0]), copt(khz, cZ), cbytes(bytes.fromhex(A[i]["bytes"])), c_out_meta(d, A[i]),
                                                 cbytes(bytes.fromhex(res["B"][i]["bytes"])), c_out_meta(d, res["B"][i])))
    if case.get("restarts"):
        pos = [0] + [k for k, _op in case["restarts"]]
        ks = [C.cnat(pos[i + 1] - pos[i]) for i in range(len(pos) - 1)]
        return "(%s, (%s, %s), %s, %s, %s)" % (COQ_DOM[d], cbool(hub["ble_rssi_optional"]), cbool(hub["ble_crc_optional"]),
                                             clist(pins), clist(ks), clist(obs))
    k = case.get("split")
    if k:
        return "(%s, (%s, %s), %s, %s, %s)" % (COQ_DOM[d], cbool(hub["ble_rssi_optional"]), cbool(hub["ble_crc_optional"]),
                                             clist(pins[:k]), clist(pins[k:]), clist(obs))
    return "(%s, (%s, %s), %s, %s)" % (COQ_DOM[d], cbool(hub["ble_rssi_optional"]), cbool(hub["ble_crc_optional"]), clist(pins), clist(obs))


# ---------------------------------------------------------------------------
# translator obligations
# ---------------------------------------------------------------------------

SWEEPS = """
Lemma gen_ble_inverse :
  forallb (fun c => (G.rf_channel_to_ble_channel (G.ble_channel_to_rf_channel c) =? c)
                    && (G.ble_channel_to_rf_channel (G.rf_channel_to_ble_channel c) =? c)
                    && match G.ble_channel_to_frequency c with
                       | Some f => match G.ble_frequency_to_channel f with Some c' => c' =? c | None => false end
                       | None => false end)
          (Whad.C19.Model.zrange 0 40) = true.
Proof. vm_compute. reflexivity. Qed.
Goal True. idtac "OBL_OK gen_ble_inverse". Abort.
Lemma gen_dot15d4_inverse :
  forallb (fun c => (G.dot15d4_frequency_to_channel (G.dot15d4_channel_to_frequency c) =? c)
                    && (G.dot15d4_frequency_to_channel (G.hub_channel_to_frequency c) =? c))
          (Whad.C19.Model.zrange 11 16) = true.
Proof. vm_compute. reflexivity. Qed.
Goal True. idtac "OBL_OK gen_dot15d4_inverse". Abort.
"""


def translator_obligations(ctx, bd):
    """Returns dict(ok, identical, errors, ties, gdir, names, alt (None|dir), detail)."""
    text, ties, errors = T.translate(C.REPO)
    gdir = os.path.join(bd, "gen")
    os.makedirs(gdir, exist_ok=True)
    with open(os.path.join(gdir, "MapsGen.v"), "w") as f:
        f.write(text)
    snap = open(os.path.join(C.COQ, "theories", PID, "Maps.v")).read()
    names = [n for n, _f, _p in T.FUNCS if n not in {e[0] for e in errors}]
    info = {"ok": False, "identical": text == snap, "errors": errors, "ties": ties, "gdir": gdir, "names": names,
            "alt": None, "detail": "", "n_obl": len(T.FUNCS) + 2, "n_ok": 0}
    if errors:
        info["detail"] = "translator rejected: " + "; ".join("%s (%s)" % e for e in errors)
    rc, out = C.sh(["timeout", "120", "coqc", "-Q", gdir, "C19gen", "MapsGen.v"], cwd=gdir)
    if rc != 0:
        info["detail"] += " generated definitions do not compile: " + out[-600:]
        return info
    # forall x, regenerated f x = snapshot f x : by conversion when the text is (alpha-)identical,
    # otherwise by case analysis on every test + linear arithmetic with Euclidean division -- a
    # proof for ALL integers, so every theorem about the snapshot maps holds of the regenerated ones
    body = ["From Coq Require Import List ZArith Bool Lia ZifyBool.", "Require Whad.C19.Maps Whad.C19.Model.", "Require C19gen.MapsGen.",
            "Module G := C19gen.MapsGen.", "Import ListNotations.", "Open Scope Z_scope.",
            "Ltac Zify.zify_post_hook ::= Z.to_euclidean_division_equations.",
            "Ltac split_ifs := repeat match goal with |- context [if ?b then _ else _] => let E := fresh \"E\" in destruct b eqn:E end.",
            "Ltac ext_eq := cbv zeta; split_ifs; first [reflexivity | lia | (f_equal; lia) | (exfalso; lia)]."]
    for n in names:
        body.append("Lemma same_%s : forall x, G.%s x = Whad.C19.Maps.%s x.\nProof. intros x; first [reflexivity; idtac \"OBL_CONV %s\" "
                    "| timeout 120 (unfold G.%s, Whad.C19.Maps.%s; ext_eq); idtac \"OBL_EXT %s\"]. Qed." % (n, n, n, n, n, n, n))
        body.append('Goal True. idtac "OBL_OK same_%s". Abort.' % n)
    if not errors:
        body.append(SWEEPS)
    with open(os.path.join(gdir, "GenObl.v"), "w") as f:
        f.write("\n".join(body) + "\n")
    rc, out = C.sh(["timeout", "300", "coqc", "-Q", os.path.join(C.COQ, "theories"), "Whad", "-Q", gdir, "C19gen", "GenObl.v"], cwd=gdir)
    info["n_ok"] = len(re.findall(r"OBL_OK", out))
    info["proved_equal_not_convertible"] = re.findall(r"OBL_EXT (\w+)", out)
    if rc == 0 and not errors:
        info["ok"] = True
        ext = info["proved_equal_not_convertible"]
        how = ("are textually identical to" if info["identical"] else
               ("are convertible with" if not ext else "are proved equal for all integers (%s: case analysis + lia; the others by conversion) to" % ", ".join(ext)))
        info["detail"] = "generated maps %s the committed snapshot; %d translator obligations checked" % (how, info["n_ok"])
        return info
    if errors:
        return info
    # the source changed: rebuild the whole theory against the regenerated maps
    alt = os.path.join(bd, "alt")
    if os.path.isdir(alt):
        shutil.rmtree(alt)
    os.makedirs(alt)
    with open(os.path.join(alt, "Maps.v"), "w") as f:
        f.write(text)
    for fn in ("Model.v", "Proofs.v", "Property.v"):
        src = open(os.path.join(C.COQ, "theories", PID, fn)).read()
        def fix(mo):
            mods = mo.group(1).split()
            keep = [x for x in mods if not x.startswith("C19.")]
            mine = [x[4:] for x in mods if x.startswith("C19.")]
            s = ""
            if keep:
                s += "From Whad Require Import %s.\n" % " ".join(keep)
            if mine:
                s += "From C19alt Require Import %s." % " ".join(mine)
            return s
        src = re.sub(r"^From Whad Require Import (.*)\.$", fix, src, flags=re.M)
        with open(os.path.join(alt, fn), "w") as f:
            f.write(src)
    log = ""
    for fn in ("Maps.v", "Model.v", "Proofs.v", "Property.v"):
        rc, out = C.sh(["timeout", "300", "coqc", "-Q", os.path.join(C.COQ, "theories"), "Whad", "-Q", alt, "C19alt", fn], cwd=alt)
        log += out
        if rc != 0:
            info["detail"] = ("maps regenerated from the source differ from the snapshot and the C19 theory does not rebuild against them (%s): %s"
                              % (fn, out[-1500:]))
            return info
    thms = C.property_theorems(PID)
    chk = ["From C19alt Require Import Property."]
    for t in thms:
        chk += ['Goal True. idtac "BEGIN %s". Abort.' % t, "Print Assumptions %s." % t, 'Goal True. idtac "END %s". Abort.' % t]
    with open(os.path.join(alt, "Assume.v"), "w") as f:
        f.write("\n".join(chk) + "\n")
    rc, out = C.sh(["timeout", "300", "coqc", "-Q", os.path.join(C.COQ, "theories"), "Whad", "-Q", alt, "C19alt", "Assume.v"], cwd=alt)
    closed = len(re.findall(r"BEGIN \S+\s+Closed under the global context", out))
    if rc != 0 or closed != len(thms):
        info["detail"] = "theory rebuilt against regenerated maps but %d/%d theorems closed: %s" % (closed, len(thms), out[-800:])
        return info
    info.update(ok=True, alt=alt, n_ok=info["n_obl"],
                detail="maps regenerated from the source differ from the committed snapshot; all %d theorems re-proved against the regenerated definitions" % len(thms))
    return info


def map_inputs(ctx):
    rng = ctx.rng
    wide = list(range(-300, 601))
    mhz = 1000000
    fr = []
    for f in range(2380, 2500):
        for off in (0, 1, -1, 499999, 500000, 999999):
            fr.append(f * mhz + off)
    fr += [rng.randrange(2300 * mhz, 2600 * mhz) for _ in range(1500 if ctx.thorough else 300)]
    fr += [0, 1, -1, -2405000000, 2 ** 40, -(2 ** 40), 2402000000, 2480000000, 2480000001, 2401999999]
    fr += [rng.randrange(-10 ** 11, 10 ** 11) for _ in range(200)]
    return {"ble_channel_to_rf_channel": wide, "rf_channel_to_ble_channel": wide, "ble_channel_to_frequency": wide,
            "hub_channel_to_frequency": wide, "dot15d4_channel_to_frequency": wide, "esb_channel_to_frequency": wide,
            "ble_frequency_to_channel": fr, "dot15d4_frequency_to_channel": fr, "esb_frequency_to_channel": fr}


def compose_requests():
    return {"compose:ble_rf": {"f": "ble_channel_to_rf_channel", "g": "rf_channel_to_ble_channel", "xs": list(range(0, 40))},
            "compose:rf_ble": {"f": "rf_channel_to_ble_channel", "g": "ble_channel_to_rf_channel", "xs": list(range(0, 40))},
            "compose:ble_freq": {"f": "ble_channel_to_frequency", "g": "ble_frequency_to_channel", "xs": list(range(0, 40))},
            "compose:dot15d4": {"f": "dot15d4_channel_to_frequency", "g": "dot15d4_frequency_to_channel", "xs": list(range(11, 27))},
            "compose:dot15d4_hub": {"f": "hub_channel_to_frequency", "g": "dot15d4_frequency_to_channel", "xs": list(range(11, 27))},
            "compose:esb": {"f": "esb_channel_to_frequency", "g": "esb_frequency_to_channel", "xs": list(range(0, 126))}}


# ---------------------------------------------------------------------------
# run
# ---------------------------------------------------------------------------

def strip_case(c):
    if c.get("handed_over"):
        return c["handed_over"]
    return {"domain": c["domain"], "clock": c["clock"], "replay_clock": c.get("replay_clock"), "split": c.get("split"),
            "restarts": c.get("restarts"), "concurrent": c.get("concurrent"),
            "pkts": [{k: v for k, v in p.items() if k != "frames"} for p in c["pkts"]]}


def _drive(cases, maps, tag):
    tmp = "/var/tmp/C19-%s-%d" % (tag, os.getpid())
    try:
        req = {"tmp": tmp, "maps": maps or {}, "hub_probe": True,
               "cases": [{"domain": c["domain"], "clock": c["clock"], "pkts": c["pkts"], "replay_clock": c.get("replay_clock"), "split": c.get("split"), "restarts": c.get("restarts"), "concurrent": c.get("concurrent")} for c in cases]}
        return C.run_impl("C19.py", req)
    finally:
        shutil.rmtree(tmp, ignore_errors=True)


def run_driver(cases, maps=None, tag="run"):
    """One driver process per domain (a session of whad-client serves one domain: the ESB and
    Unifying hubs (un)bind scapy layers globally), run in parallel; results in input order.
    The frame alternative the driver chose is written back into the case."""
    from concurrent.futures import ThreadPoolExecutor
    groups = {}
    for i, c in enumerate(cases):
        groups.setdefault(c["domain"], []).append(i)
    jobs = [(d, idx) for d, idx in groups.items()]
    if maps or not jobs:
        jobs.append(("maps", []))
    def work(job):
        d, idx = job
        return _drive([cases[i] for i in idx], maps if d == "maps" else None, tag + "-" + d)
    with ThreadPoolExecutor(max_workers=max(1, len(jobs))) as ex:
        outs = list(ex.map(work, jobs))
    res = {"cases": [None] * len(cases), "maps": {}, "hub": None}
    for (d, idx), o in zip(jobs, outs):
        res["hub"] = res["hub"] or o["hub"]
        if d == "maps":
            res["maps"] = o["maps"]
        for i, rc in zip(idx, o["cases"]):
            res["cases"][i] = rc
            for p, a in zip(cases[i]["pkts"], rc.get("in", [])):
                if "frames" in p and "alt" in a:
                    p["frame"] = p["frames"][a["alt"]]
            normalise_concurrent(cases[i], rc)
    return res


def normalise_concurrent(case, rc):
    """A `concurrent` capture is judged and modelled in the order in which the writer lock was
    taken, with the clock readings in the order they were made (the model reads the clock
    inside the critical section).  The capture as handed over is kept for the replay file."""
    cc = rc.get("concurrent")
    if not cc or case.get("handed_over"):
        return
    case["handed_over"] = {"domain": case["domain"], "clock": list(case["clock"]), "concurrent": case["concurrent"],
                           "pkts": [{k: v for k, v in p.items() if k != "frames"} for p in case["pkts"]]}
    order = cc["lock_order"]
    if sorted(order) != list(range(len(case["pkts"]))) or len(cc["clock_reads"]) != len(order):
        return
    case["pkts"] = [case["pkts"][k] for k in order]
    rc["in"] = [rc["in"][k] for k in order]
    case["clock"] = [v for _i, v in cc["clock_reads"]]


def shrink(case, pred):
    """smallest sub-capture (single packets, consecutive pairs, prefixes) on which `pred(case, res)` still holds"""
    n = len(case["pkts"])
    if n <= 1 or case.get("concurrent"):
        return case
    cands = []
    def sub(idx):
        return dict(case, clock=[case["clock"][i] for i in idx], pkts=[case["pkts"][i] for i in idx])
    for i in range(min(n, 40)):
        cands.append(sub([i]))
    for i in range(min(n - 1, 40)):
        cands.append(sub([i, i + 1]))
    for k in (3, 4, 6, 10):
        if k < n:
            cands.append(sub(list(range(k))))
    try:
        r = run_driver(cands, tag="shrink")
    except C.CheckBroken:
        return case
    for c, res in zip(cands, r["cases"]):
        if pred(c, res):
            return c
    return case


def run(ctx):
    bd = C.build_dir(PID, clean=True)
    ctx.cov["trusted_base"] = [
        "Coq 8.16.1 kernel + vm_compute (no native_compute); every theorem of Property.v closed under the global context (Print Assumptions, this run)",
        "translator harness/translators/C19_maps.py: its grammar means in Gallina what it means in Python ('//' = Z.div, int(n/d) = Z.quot n d although Python computes n/d in binary floating point) -- validated this run by evaluating the generated definitions and the live functions on the same integers",
        "hand-written model coq/theories/C19/Model.v of convert_to_header / convert_from_header / format / process_packet / __to_raw_message, tied to the code by the correspondence of this run (sampled; exhaustive per item)",
        "scapy build/dissect of BTLE_RF, Dot15d4TAP TLVs, Phy_Packet_Hdr, ESB_Hdr and scapy PcapWriter/PcapReader: a header is a record that survives the file unchanged for encodable values (not modelled, exercised on every case)",
        "the float path now*1e6 -> /1e6 -> (sec, usec) of the written record is abstracted as a monotone function rnd (Section-style parameter of the theorem); the correspondence uses rnd = identity with a patched local clock of whole microseconds",
        "the ESB dissector's CRC verdict on a frame (valid_crc) is an input attribute of the frame (observed on the input, not modelled)",
        "whether BleRawPduReceived reports an unset rssi / crc_validity as None is a parameter of the model (whad/hub/ble/pdu.py, property C03), probed on the live code each run",
    ]
    ctx.assumptions = [
        "metadata valuations: channel in the protocol's range (BLE 0..39, 802.15.4 11..26, ESB/Unifying 0..125, PHY frequency < 2^32), RSSI -128..127, BLE direction in {absent, UNKNOWN, MASTER_TO_SLAVE, SLAVE_TO_MASTER}, LQI 0..255",
        "frames: wf bytes; BLE >= 7 bytes (access address + CRC), 802.15.4 >= 2 bytes; ESB/Unifying frames with preamble 0xAA whose scapy object rebuilds to the same bytes",
        "order_and_monotone_time: local clock and device timestamps non-decreasing, and either every packet has a device timestamp or device clock = local clock - D for one constant D; the rounding of the written time is monotone",
    ]
    # ---- 1 translator (needs Lib + the snapshot theory built: done by check_proofs) ------
    proofs_ok, detail = ctx.check_proofs(lib_targets=["theories/Lib/Bytes.vo"])
    ctx.log("proofs:", proofs_ok, detail.splitlines()[0][:200])
    if ctx.thorough and proofs_ok:
        rc, out = C.sh(["timeout", "900", "coqchk", "-o", "-silent", "-Q", "theories", "Whad", "Whad.C19.Property"], cwd=C.COQ, timeout=930)
        summary = out[out.find("CONTEXT SUMMARY"):] if "CONTEXT SUMMARY" in out else out[-600:]
        ctx.cov["coqchk"] = " ".join(summary.split())[:600]
        if rc != 0 or "Axioms: <none>" not in " ".join(summary.split()):
            proofs_ok, detail = False, "coqchk -o does not report an axiom-free context: " + summary[-600:]
        ctx.log("coqchk:", rc == 0, ctx.cov["coqchk"][:120])
    tr = translator_obligations(ctx, bd)
    ctx.cov["obligations"] += tr["n_obl"]
    ctx.cov["discharged"] += tr["n_ok"] if tr["ok"] else min(tr["n_ok"], tr["n_obl"] - 1)
    ctx.log("translator:", tr["ok"], tr["detail"][:300])
    ctx.cov["translator"] = {"identical_to_snapshot": tr["identical"], "errors": tr["errors"], "detail": tr["detail"][:600]}
    ctx.cov["checker_cmd"] += " ; coqc build/C19/gen/MapsGen.v GenObl.v (generated maps = snapshot, sweeps on generated text)"

    # ---- 2 generation ---------------------------------------------------------------------
    corpus, cdir = [], os.path.join(C.VERIF, "corpus", PID)
    for fn in sorted(os.listdir(cdir)) if os.path.isdir(cdir) else []:
        w = json.load(open(os.path.join(cdir, fn)))
        c = dict(w["case"], kind=w["case"].get("kind", "device"), label="corpus:" + fn)
        corpus.append(c)
    cases = corpus + gen_cases(ctx)
    malformed = gen_malformed(ctx)
    maps_in = map_inputs(ctx)
    maps_req = dict(maps_in)
    maps_req.update(compose_requests())

    # ---- 3 implementation -----------------------------------------------------------------
    r = run_driver(cases + malformed, maps_req)
    hub = r["hub"]
    res_cases, res_mal = r["cases"][:len(cases)], r["cases"][len(cases):]
    ctx.log("driver: %d captures, %d packets; hub optional rssi/crc = %s/%s" % (
        len(cases), sum(len(c["pkts"]) for c in cases), hub["ble_rssi_optional"], hub["ble_crc_optional"]))

    # ---- 4 oracle -------------------------------------------------------------------------
    judged, fail_classes, reported = 0, {}, {}
    for ci, (case, res) in enumerate(zip(cases, res_cases)):
        fails = []
        judged += judge_case(case, res, lambda what, key, det: fails.append((what, key, det)))
        for what, key, det in fails:
            fail_classes[key or "UNLISTED"] = fail_classes.get(key or "UNLISTED", 0) + 1
            if key is not None and key in ctx.kf:
                ctx.violation(what, None, key=key)
                continue
            # an unlisted failure: shrink and report (at most 2 replays per kind of failure)
            reported[what] = reported.get(what, 0) + 1
            if reported[what] > 2 or len(ctx.violations) >= 6:
                continue
            def pred(c, rs, what=what, key=key):
                fs = []
                judge_case(c, rs, lambda w2, k2, d2: fs.append((w2, k2)))
                return (what, key) in fs
            small = shrink(case, pred)
            ctx.violation(what, {"op": "capture", "case": strip_case(small), "kind": case["kind"], "label": case["label"], "detail": det},
                          key=key, expected=det.get("expected"), observed=det.get("observed"))
            break   # one replay per capture is enough
    # channel maps on the live functions (the property's second sentence)
    map_fail = []
    for key, spec in compose_requests().items():
        for x, y in zip(spec["xs"], r["maps"][key]):
            if not (isinstance(y, list) and y[1] == x):
                map_fail.append((key, x, y))
    for key, x, y in map_fail[:3]:
        ctx.violation("channel maps not mutually inverse: %s(%s(%d)) = %r" % (compose_requests()[key]["g"], compose_requests()[key]["f"], x, y),
                      {"op": "maps", "compose": key, "x": x}, expected=x, observed=y)
    for c, res in zip(malformed, res_mal):
        if "exc" not in res:
            ctx.violation("a value the capture header cannot hold was written without error", {"op": "capture", "case": strip_case(c), "kind": "malformed"},
                          observed=res.get("written"))

    # ---- 5 correspondence -----------------------------------------------------------------
    if tr["alt"]:
        pre_model = 'Add LoadPath "%s" as C19alt.\nFrom Whad Require Import Lib.Bytes.\nFrom C19alt Require Import Maps Model.\nOpen Scope N_scope.' % tr["alt"]
    else:
        pre_model = "From Whad Require Import Lib.Bytes C19.Maps C19.Model.\nOpen Scope N_scope."
    cap_terms, cap_idx, spl_terms, spl_idx, ops_terms, ops_idx = [], [], [], [], [], []
    for ci, (case, res) in enumerate(zip(cases, res_cases)):
        if "exc" in res or res.get("replay_thread_exc"):
            continue
        if not (len(res["A"]) == len(res["B"]) == len(res["written"]) == len(case["pkts"])):
            continue
        if case.get("restarts"):
            ops_terms.append(capture_term(case, res, hub)); ops_idx.append(ci)
        elif case.get("split"):
            spl_terms.append(capture_term(case, res, hub)); spl_idx.append(ci)
        else:
            cap_terms.append(capture_term(case, res, hub)); cap_idx.append(ci)
    bad_cap, logs_cap = C.run_cases(PID, "capture", pre_model, "domain * (bool * bool) * list pin * list obs", cap_terms, "check_capture", shard=60)
    bad_spl, logs_spl = (C.run_cases(PID, "append", pre_model, "domain * (bool * bool) * list pin * list pin * list obs", spl_terms, "check_capture_split", shard=60)
                         if spl_terms else ([], []))
    bad_ops, logs_ops = (C.run_cases(PID, "restart", pre_model, "domain * (bool * bool) * list pin * list nat * list obs", ops_terms, "check_capture_ops", shard=60)
                         if ops_terms else ([], []))
    bad_cap = bad_cap + [len(cap_idx) + b for b in bad_spl] + [len(cap_idx) + len(spl_idx) + b for b in bad_ops]
    cap_idx, logs_cap = cap_idx + spl_idx + ops_idx, logs_cap + logs_spl + logs_ops
    cap_terms = cap_terms + spl_terms + ops_terms
    mal_terms = ["(%s, %s)" % (COQ_DOM[c["domain"]], c_in_meta(c["domain"], c["pkts"][0]["meta"])) for c, res in zip(malformed, res_mal) if "exc" in res]
    bad_mal, logs_mal = C.run_cases(PID, "unenc", pre_model, "domain * meta", mal_terms, "check_unencodable") if mal_terms else ([], [])
    # maps: generated definitions vs live functions
    bad_map, logs_map, map_terms, map_meta = [], [], [], []
    if os.path.exists(os.path.join(tr["gdir"], "MapsGen.vo")):
        gen_pre = ['Add LoadPath "%s" as C19gen.' % tr["gdir"], "From Whad Require Import C19.Model.", "Require C19gen.MapsGen.", "Open Scope N_scope.",
                   "Definition gen_map_fn (k : N) (x : Z) : option Z := match k with"]
        optv = T.option_valued(open(os.path.join(tr["gdir"], "MapsGen.v")).read())
        for n in tr["names"]:
            gen_pre.append("  | %d => %s(C19gen.MapsGen.%s x)" % (MAP_IDS[n], "" if n in optv else "Some ", n))
        gen_pre.append("  | _ => None end.")
        gen_pre.append("Definition gen_check_map (c : N * Z * option Z) : bool := let '(k, x, y) := c in opt_eqb Z.eqb (gen_map_fn k x) y.")
        for n in tr["names"]:
            for x, y in zip(maps_in[n], r["maps"][n]):
                if isinstance(y, str):
                    ctx.violation("channel map %s raised / returned a non-integer on %d: %s" % (n, x, y), {"op": "maps", "fn": n, "x": x}, observed=y)
                    continue
                map_terms.append("(%d, %s, %s)" % (MAP_IDS[n], cZ(x), copt(y, cZ)))
                map_meta.append((n, x, y))
        bad_map, logs_map = C.run_cases(PID, "maps", "\n".join(gen_pre), "N * Z * option Z", map_terms, "gen_check_map", shard=4000)
    ctx.notes += logs_cap[:2] + logs_map[:2] + logs_mal[:1]
    ctx.log("correspondence: captures %d (%d bad); maps %d (%d bad); raising writers %d (%d bad)" % (
        len(cap_terms), len(bad_cap), len(map_terms), len(bad_map), len(mal_terms), len(bad_mal)))

    # ---- coverage -------------------------------------------------------------------------
    npk = sum(len(c["pkts"]) for c in cases)
    ctx.cov["evaluations"] = npk + len(map_terms) + len(malformed)
    ctx.cov["traces_validated_against_impl"] = len(cap_terms)
    dist = {"captures": len(cases), "packets": npk, "packets_judged_by_oracle": judged, "per_domain": {}, "clock_kinds": {},
            "failure_classes_seen": fail_classes, "map_points": len(map_terms), "malformed": len(malformed)}
    nontriv = []
    for c in cases:
        dist["clock_kinds"][c["kind"]] = dist["clock_kinds"].get(c["kind"], 0) + 1
        pd = dist["per_domain"].setdefault(c["domain"], {"packets": 0, "absent_channel": 0, "absent_rssi": 0, "absent_valid": 0,
                                                         "absent_direction": 0, "no_device_ts": 0, "rssi_values": set(), "channels": set()})
        for p in c["pkts"]:
            m = p["meta"]
            pd["packets"] += 1
            pd["absent_channel"] += "channel" not in m
            pd["absent_rssi"] += "rssi" not in m
            pd["absent_valid"] += "valid" not in m
            pd["absent_direction"] += "direction" not in m
            pd["no_device_ts"] += "ts" not in m
            if "rssi" in m: pd["rssi_values"].add(m["rssi"])
            if "channel" in m: pd["channels"].add(m["channel"])
            nontriv.append([c["domain"], sorted((k, v) for k, v in m.items() if k != "ts")])
    dist["ble_frames_length_byte"] = {"consistent": 0, "pdu_longer_than_announced": 0, "pdu_shorter_than_announced": 0, "cp_bit_cteinfo": 0}
    for c in cases:
        if c["domain"] == "ble":
            for p in c["pkts"]:
                f = bytes.fromhex(p["frame"])
                if len(f) >= 9:
                    pdu = f[4:-3]
                    k = "consistent" if pdu[1] == len(pdu) - 2 else ("pdu_longer_than_announced" if pdu[1] < len(pdu) - 2 else "pdu_shorter_than_announced")
                    dist["ble_frames_length_byte"][k] += 1
                    dist["ble_frames_length_byte"]["cp_bit_cteinfo"] += bool(pdu[0] & 0x20) and f[:4] != bytes.fromhex("d6be898e")
    dist["labels"] = {}
    for c in cases:
        lab = c["label"].split(":")[0]
        dist["labels"][lab] = dist["labels"].get(lab, 0) + len(c["pkts"])
    dist["frame_lengths"] = {d_: [min(len(p["frame"]) // 2 for c in cases if c["domain"] == d_ for p in c["pkts"]),
                                  max(len(p["frame"]) // 2 for c in cases if c["domain"] == d_ for p in c["pkts"])] for d_ in DOMAINS}
    dist["concurrent_writer_injections"] = {}
    for c, rs in zip(cases, res_cases):
        for _i, _j, what in (rs.get("concurrent") or {}).get("interleaved", []):
            dist["concurrent_writer_injections"][what] = dist["concurrent_writer_injections"].get(what, 0) + 1
    for pd in dist["per_domain"].values():
        pd["rssi_values"], pd["channels"] = len(pd["rssi_values"]), len(pd["channels"])
    ctx.cov["distribution"] = dist
    ctx.cov["distinct_nontrivial"] = C.distinct_count(nontriv)
    ctx.cov["uncovered_branches"] = []
    ctx.cov["rule"] = ("one case = one PCAP file written by the real PcapWriterMonitor and replayed by the real Pcap device + Sniffer; "
                       "per domain an exhaustive per-item sweep (all channels, RSSI -128..127, directions, validity, each absent) plus random "
                       "valuations under four clock kinds; distinct = distinct (domain, metadata valuation); maps: every integer -300..600 / "
                       "frequencies around every MHz boundary 2380..2500 MHz plus random and extreme values")
    k = next((i for i, c in enumerate(cases) if c["label"] == "random" and len(c["pkts"]) >= 2), 0)
    ctx.cov["samples"] = [
        {"capture": {"domain": cases[k]["domain"], "kind": cases[k]["kind"], "packet0": cases[k]["pkts"][0], "clock0": cases[k]["clock"][0]},
         "impl": {kk: (vv[:1] if isinstance(vv, list) else vv) for kk, vv in res_cases[k].items()}},
        {"map": "ble_frequency_to_channel", "x": maps_in["ble_frequency_to_channel"][7], "impl": r["maps"]["ble_frequency_to_channel"][7]},
        {"compose": "compose:ble_rf", "impl": r["maps"]["compose:ble_rf"][35:40]},
    ]
    ctx.cov["source_ties"] = [dict(t, via="translator") for t in tr["ties"]] + [
        C.source_tie("whad/common/monitors/pcap.py", 131, 173), C.source_tie("whad/hub/ble/__init__.py", 105, 173),
        C.source_tie("whad/hub/ble/__init__.py", 252, 274), C.source_tie("whad/hub/dot15d4/__init__.py", 96, 153),
        C.source_tie("whad/hub/dot15d4/__init__.py", 205, 222), C.source_tie("whad/hub/esb/__init__.py", 84, 103),
        C.source_tie("whad/hub/unifying/__init__.py", 30, 50), C.source_tie("whad/hub/phy/__init__.py", 93, 134),
        C.source_tie("whad/device/pcap/__init__.py", 171, 321)]
    ctx.cov["correspondence"] = {"captures": len(cap_terms), "captures_bad": len(bad_cap), "maps": len(map_terms), "maps_bad": len(bad_map),
                                 "raising_writers": len(mal_terms), "raising_bad": len(bad_mal), "hub": hub}

    # ---- 7 verdict ------------------------------------------------------------------------
    broken = []
    if not proofs_ok:
        broken.append(("proof obligations of theories/C19: " + detail.splitlines()[0][:200], detail, None))
    if not tr["ok"]:
        broken.append(("translator obligations (generated channel maps): " + tr["detail"][:200], tr["detail"], None))
    if bad_map:
        n, x, y = map_meta[bad_map[0]]
        broken.append(("generated definition of %s disagrees with the live function (%d points)" % (n, len(bad_map)), "\n".join(logs_map),
                       {"op": "maps", "fn": n, "x": x, "impl": y}))
    if bad_cap:
        ci = cap_idx[bad_cap[0]]
        broken.append(("correspondence C19.Model vs capture write/replay (%d captures disagree)" % len(bad_cap), "\n".join(logs_cap),
                       {"op": "capture", "case": strip_case(cases[ci]), "kind": cases[ci]["kind"], "impl": res_cases[ci]}))
    if bad_mal:
        broken.append(("model predicts an encodable header where the writer raised", "\n".join(logs_mal), None))
    if broken and not ctx.violations:
        what, det, first = broken[0]
        if first and first.get("op") == "capture" and len(first["case"]["pkts"]) > 3:
            first = dict(first, case=dict(first["case"], pkts=first["case"]["pkts"][:3], clock=first["case"]["clock"][:3]), note="first 3 packets of the capture")
            first.pop("impl", None)
        ctx.broken_obligation(what, det, first)


def replay(payload):
    case = payload.get("case") or payload.get("first_disagreeing_case") or {}
    print(json.dumps({k: v for k, v in payload.items() if k in ("what", "class", "expected", "observed")})[:1500])
    if case.get("op") == "capture":
        c = dict(case["case"], kind=case.get("kind", "device"), label="replay")
        c["replay_clock"] = case["case"].get("replay_clock")
        c["split"] = case["case"].get("split")
        c["restarts"] = case["case"].get("restarts")
        c["concurrent"] = case["case"].get("concurrent")
        if c["concurrent"]:
            c["kind"] = "none" if all("ts" not in p["meta"] for p in c["pkts"]) else "mixed"
        r = run_driver([c], tag="replay")
        res = r["cases"][0]
        print("implementation now gives:", json.dumps(res)[:3000])
        fails = []
        judge_case(c, res, lambda what, key, det: fails.append((what, key, det)))
        for f in fails[:10]:
            print("property failure:", f[0], "| class:", f[1], "|", json.dumps(f[2])[:400])
        if not fails:
            print("the property holds on this capture now")
        return 1 if any(f[1] is None for f in fails) else 0
    if case.get("op") == "maps":
        reqs = compose_requests()
        if "compose" in case:
            spec = dict(reqs[case["compose"]], xs=[case["x"]])
            r = run_driver([], {"compose:one": spec}, tag="replay")
            print("implementation now gives g(f(%d)) = %r" % (case["x"], r["maps"]["compose:one"][0]))
        else:
            r = run_driver([], {case["fn"]: [case["x"]]}, tag="replay")
            print("implementation now gives %s(%d) = %r" % (case["fn"], case["x"], r["maps"][case["fn"]][0]))
    return 0
