"""C11 — the pure arithmetic of L2CAPLayer that is translated from the source on every run
(harness/translators/pyfun.py) and proved equal to the hand-written model
(coq/theories/C11/GenEq.v against the snapshot coq/theories/C11/Gen.v).  See design/PYTRANS.md."""

SRC = "whad/ble/stack/l2cap/__init__.py"
TITLE = "C11 — Gallina generated from whad/ble/stack/l2cap/__init__.py (L2CAPLayer)"
MODEL_IMPORT = "From Whad Require Import C11.Model."

RX_INPUTS = [["self.state.fifo", "fifo", "bytes"], ["self.state.expected_len", "expected", "nat"],
             ["l2cap_data", "l2cap_data", "bytes"]]
RX_LIVE = ("def live(a):\n"
           "    return FRAG({'self': NS(state=NS(fifo=a['fifo'], expected_len=a['expected'])), 'l2cap_data': a['l2cap_data']})\n")


def _bytes(rng, n):
    return bytes(rng.choice([rng.randrange(256), rng.randrange(4), 0, 255]) for _ in range(n))


def gen_frag(rng):
    mtu = rng.choice([2, 3, 5, 23, 23, 24, 27, 100, 185, 247, 251, 517, rng.randrange(2, 600)])
    k = mtu - 1
    n = rng.choice([0, 1, mtu - 1, mtu, mtu + 1, 2 * k - 1, 2 * k, 2 * k + 1, 3 * k, 3 * k + 1,
                    rng.randrange(0, 4 * mtu + 2), rng.randrange(0, 700)])
    return {"mtu": mtu, "data": _bytes(rng, min(n, 900))}


def gen_rx(rng):
    n = rng.choice([0, 1, 2, 3, 4, 5, 8, rng.randrange(0, 40)])
    fifo = _bytes(rng, n)
    if n >= 2 and rng.random() < 0.5:
        fifo = bytes([rng.choice([0, 1, n - 4 if n >= 4 else 0, n, 255]), rng.choice([0, 0, 0, 1])]) + fifo[2:]
    exp = rng.choice([0, 1, 4, n, n + 1, max(n - 1, 0), rng.randrange(0, 60)])
    return {"fifo": fifo, "expected": exp, "l2cap_data": _bytes(rng, rng.choice([0, 1, 2, 3, rng.randrange(0, 30)]))}


def gen_rx2(rng):
    """fifo of at least two bytes (the domain of unpack('<H', fifo[:2]))."""
    a = gen_rx(rng)
    if len(a["fifo"]) < 2:
        a["fifo"] = a["fifo"] + b"\x05\x00"
    return a


def _rx(name, select, model, gen=gen_rx, when=None):
    it = {"path": SRC, "qualname": "L2CAPLayer.on_data_received",
          "spec": {"name": name, "mode": "expr", "select": select, "inputs": RX_INPUTS},
          "model": model, "gen": gen, "live": RX_LIVE}
    if when:
        it["model_when"] = when
    return it


ITEMS = [
    {"path": SRC, "qualname": "L2CAPLayer.get_fragments",
     "spec": {"name": "get_fragments", "inputs": [["self.state.remote_mtu", "mtu", "nat"], ["data", "data", "bytes"]]},
     "model": "get_fragments mtu data", "gen": gen_frag, "ncases": 100,
     "live": ("def live(a):\n"
              "    return MOD.L2CAPLayer.get_fragments(OBJ(MOD.L2CAPLayer, state=NS(remote_mtu=a['mtu'])), a['data'])\n")},
    # on_data_received: the reassembly arithmetic, expression by expression
    _rx("rx_append", {"rhs_of": "self.state.fifo", "nth": 0}, "fifo ++ l2cap_data"),
    _rx("rx_complete_cont", {"test_enclosing": "self.state.fifo", "nth": 1}, "(expected <=? length fifo)%nat"),
    _rx("rx_frame_cont", {"arg_of": "L2CAP_Hdr", "nth": 0}, "firstn expected fifo"),
    _rx("rx_is_start", {"test_enclosing": "self.state.fifo", "nth": 2}, "(2 <=? length l2cap_data)%nat"),
    _rx("rx_expected", {"rhs_of": "self.state.expected_len"}, "N.of_nat (N.to_nat (un_le16 fifo) + 4)",
        gen=gen_rx2, when="(2 <=? length fifo)%nat"),
    _rx("rx_complete_start", {"test_enclosing": "self.state.fifo", "nth": 3}, "(expected <=? length fifo)%nat"),
    _rx("rx_frame_start", {"arg_of": "L2CAP_Hdr", "nth": 1}, "firstn expected fifo"),
]
