"""C03 helpers: PDU generators for every domain (python3 stdlib only, no scapy), metadata
valuations and the per-class tables used by the oracle and by the Coq case printer.
"""
import struct

ADV_AA = 0x8E89BED6

# ----------------------------------------------------------------------------------------
# BLE
# ----------------------------------------------------------------------------------------
CTRL_PARAM_LEN = {0x00: 11, 0x01: 7, 0x02: 1, 0x03: 22, 0x04: 12, 0x05: 0, 0x06: 0, 0x07: 1, 0x08: 8,
                  0x09: 8, 0x0A: 0, 0x0B: 0, 0x0C: 5, 0x0D: 1, 0x0E: 8, 0x0F: 23, 0x10: 23, 0x11: 1,
                  0x12: 0, 0x13: 0, 0x14: 8, 0x15: 8, 0x16: 2, 0x17: 2, 0x18: 4, 0x19: 1, 0x1A: 1,
                  0x1B: 1, 0x1C: 2, 0x1D: 17, 0x1E: 1, 0x1F: 33, 0x20: 8, 0x21: 4, 0x22: 2, 0x23: 3}


def rbytes(rng, n):
    return bytes(rng.choice([rng.randrange(256), rng.randrange(256), 0, 1, 0xFF, 0x0F]) for _ in range(n))


def ble_data_pdus(rng, thorough):
    """BTLE_DATA PDUs: every LLID, every control opcode, lengths 0..max. -> [(tag, bytes)]"""
    out = []
    lens = list(range(0, 256)) if thorough else list(range(0, 30)) + [31, 32, 33, 64, 100, 127, 128, 200, 251, 254, 255]
    for llid in (1, 2, 0):
        for n in lens:
            if llid == 0 and n > 12 and not thorough:
                continue
            flags = rng.randrange(8) << 2          # NESN / SN / MD
            if llid == 2 and n >= 4:
                cid = rng.choice([4, 4, 6, 5, 0x40])
                body = rbytes(rng, n - 4)
                if cid == 4 and body:
                    body = bytes([rng.choice([0x01, 0x02, 0x03, 0x0A, 0x0B, 0x12, 0x52, 0x1B, 0x1D, 0x08, 0x09])]) + body[1:]
                pay = struct.pack("<HH", n - 4, cid) + body
            else:
                pay = rbytes(rng, n)
            out.append(("data-llid%d-len%d" % (llid, n), bytes([llid | flags, n]) + pay))
    for op in sorted(CTRL_PARAM_LEN) + [0x30, 0x7F, 0xFF]:
        k = CTRL_PARAM_LEN.get(op, rng.randrange(0, 6))
        pay = bytes([op]) + rbytes(rng, k)
        out.append(("ctrl-op%02x" % op, bytes([3 | (rng.randrange(8) << 2), len(pay)]) + pay))
    # control PDU with no opcode at all / truncated ones
    out.append(("ctrl-empty", bytes([3, 0])))
    return out


def eir_blocks(rng, budget):
    """Well-formed advertising data (sequence of length/type/value records) of at most `budget` bytes."""
    out = b""
    while True:
        kind = rng.choice(["flags", "name", "manuf", "tx", "uuid16", "raw"])
        if kind == "flags":
            rec = bytes([2, 0x01, rng.choice([0x06, 0x05, 0x1A, 0x02])])
        elif kind == "name":
            n = rng.randrange(0, 9)
            rec = bytes([1 + n, rng.choice([0x08, 0x09])]) + bytes(rng.randrange(0x41, 0x7B) for _ in range(n))
        elif kind == "manuf":
            n = rng.randrange(0, 8)
            rec = bytes([3 + n, 0xFF]) + struct.pack("<H", rng.choice([0x004C, 0x0059, 0xFFFF])) + rbytes(rng, n)
        elif kind == "tx":
            rec = bytes([2, 0x0A, rng.randrange(256)])
        elif kind == "uuid16":
            k = rng.randrange(1, 4)
            rec = bytes([1 + 2 * k, rng.choice([0x02, 0x03])]) + rbytes(rng, 2 * k)
        else:
            n = rng.randrange(0, 6)
            rec = bytes([1 + n, rng.choice([0x16, 0x19, 0x24, 0x2A])]) + rbytes(rng, n)
        if len(out) + len(rec) > budget:
            return out
        out += rec


ADV_TYPE_OF_PDU = {0: 1, 1: 2, 2: 3, 6: 4, 4: 5}      # scapy PDU_type -> whad AdvType value
PDU_OF_ADV_TYPE = {v: k for k, v in ADV_TYPE_OF_PDU.items()}


def ble_adv_pdus(rng, thorough):
    """BTLE_ADV PDUs of every PDU type (ADV_IND, DIRECT, NONCONN, SCAN_REQ, SCAN_RSP, CONNECT_REQ,
    SCAN_IND, reserved 7), both address types, data lengths 0..31. -> [(tag, bytes, carried_by_adv_msg)]"""
    out = []
    lens = range(0, 32)
    for ptype in (0, 2, 4, 6):
        for n in lens:
            if not thorough and ptype in (2, 6) and n % 3:
                continue
            txadd = rng.randrange(2)
            adva = rbytes(rng, 6)
            data = eir_blocks(rng, n)
            pay = adva + data
            out.append(("adv-t%d-len%d" % (ptype, len(data)), bytes([ptype | txadd << 6, len(pay)]) + pay, True))
    for txadd in (0, 1):
        for rxadd in (0, 1):
            pay = rbytes(rng, 6) + rbytes(rng, 6)
            out.append(("adv-direct-tx%d-rx%d" % (txadd, rxadd), bytes([1 | txadd << 6 | rxadd << 7, 12]) + pay, rxadd == 0))
    pay = rbytes(rng, 12)
    out.append(("adv-scanreq", bytes([3 | rng.randrange(2) << 6, 12]) + pay, False))
    pay = rbytes(rng, 12) + struct.pack("<I", 0x11223344) + rbytes(rng, 18)
    out.append(("adv-connreq", bytes([5 | rng.randrange(2) << 6, len(pay)]) + pay, False))
    out.append(("adv-reserved7", bytes([7, 6]) + rbytes(rng, 6), False))
    return out


# ----------------------------------------------------------------------------------------
# 802.15.4
# ----------------------------------------------------------------------------------------
def crc_kermit(data):
    crc = 0
    for c in data:
        q = (crc ^ c) & 15
        crc = (crc // 16) ^ (q * 4225)
        q = (crc ^ (c // 16)) & 15
        crc = (crc // 16) ^ (q * 4225)
    return crc


def d15_frames(rng, thorough):
    """802.15.4 MAC frames: beacon / data / ack / command (+ reserved types), every addressing mode
    combination, PAN-id compression, payload lengths 0..max. -> [(tag, bytes without FCS)]"""
    out = []

    def hdr(ftype, dam, sam, panc, ackreq=0, ver=0):
        fcf = ftype | ackreq << 5 | panc << 6 | dam << 10 | ver << 12 | sam << 14
        b = struct.pack("<H", fcf) + bytes([rng.randrange(256)])
        if dam:
            b += struct.pack("<H", rng.choice([0x1234, 0xFFFF, 0xBEEF]))
            b += rbytes(rng, 2 if dam == 2 else 8)
        if sam:
            if not (panc and dam):
                b += struct.pack("<H", rng.choice([0x1234, 0xFFFF]))
            b += rbytes(rng, 2 if sam == 2 else 8)
        return b

    modes = [(d, s, p) for d in (0, 2, 3) for s in (0, 2, 3) for p in (0, 1) if (d or s) and not (p and not (d and s))]
    plens = list(range(0, 100)) if thorough else [0, 1, 2, 3, 5, 8, 16, 40, 80, 100]
    for (d, s, p) in modes:
        for n in (plens if (d, s) == (2, 2) or thorough else rng.sample(plens, 3)):
            h = hdr(1, d, s, p, ackreq=rng.randrange(2))
            if len(h) + n > 125:
                continue
            out.append(("data-d%d-s%d-p%d-len%d" % (d, s, p, n), h + rbytes(rng, n)))
    for (d, s, p) in modes:
        if s:
            out.append(("beacon-s%d" % s, hdr(0, 0, s, 0) + bytes([0xFF, 0xCF, 0x00, 0x00]) + rbytes(rng, rng.randrange(0, 12))))
        for cmd in (1, 2, 3, 4, 5, 6, 7, 8, 9) if ((d, s, p) == (2, 2, 1) or thorough) else (rng.randrange(1, 10),):
            extra = {1: 1, 2: 3, 3: 1, 8: 7}.get(cmd, 0)
            out.append(("cmd%d-d%d-s%d-p%d" % (cmd, d, s, p), hdr(3, d, s, p) + bytes([cmd]) + rbytes(rng, extra)))
    for _ in range(3):
        out.append(("ack", struct.pack("<H", 2 | rng.randrange(2) << 4) + bytes([rng.randrange(256)])))
    for ftype in (4, 5, 6, 7):
        out.append(("reserved-type%d" % ftype, hdr(ftype, 2, 2, 1) + rbytes(rng, 4)))
    out.append(("data-max", hdr(1, 2, 2, 1) + rbytes(rng, 116)))
    return out


def d15_malformed(rng):
    return [("empty", b""), ("one", b"\x01"), ("two", b"\x41\x88"), ("trunc-addr", bytes.fromhex("4188011234ff")),
            ("trunc-ext", bytes.fromhex("41cc01123401020304"))] + [("rand%d" % n, rbytes(rng, n)) for n in (3, 4, 6)]


# ----------------------------------------------------------------------------------------
# ESB / Unifying
# ----------------------------------------------------------------------------------------
def esb_crc_update(crc, value, bits):
    crc = crc ^ (value << 8)
    while bits > 0:
        bits -= 1
        crc = ((crc << 1) ^ 0x1021) if (crc & 0x8000) else (crc << 1)
    return crc & 0xFFFF


def esb_crc(frame):
    crc = 0xFFFF
    for x in frame[:-1]:
        crc = esb_crc_update(crc, x, 8)
    crc = esb_crc_update(crc, frame[-1], 1)
    return struct.pack(">H", crc)


def esb_frame(address, payload, pid=0, no_ack=0, preamble=None, good_crc=True):
    """On-air Enhanced ShockBurst frame: preamble, address, 9-bit PCF, payload, CRC16 (bit-shifted)."""
    if preamble is None:
        preamble = 0xAA if address[0] >= 0x80 else 0x55
    pcf = (len(payload) & 0x3F) << 3 | (pid & 3) << 1 | (no_ack & 1)
    carry, out = pcf & 1, []
    for x in payload:
        out.append((x >> 1) | (carry << 7))
        carry = x & 1
    out.append(carry << 7)
    frame = bytes(address) + bytes([pcf >> 1]) + bytes(out)
    crc = esb_crc(frame)
    if not good_crc:
        crc = bytes([crc[0] ^ 0x5A, crc[1] ^ 0x01])
    out[-1] |= crc[0] >> 1
    out.append((crc[1] >> 1) | (crc[0] & 1) << 7)
    out.append((crc[1] & 1) << 7)
    return bytes([preamble]) + bytes(address) + bytes([pcf >> 1]) + bytes(out)


def uni_payload(rng, ftype, n):
    """Logitech Unifying payload: dev_index, frame_type, body, checksum."""
    body = bytes([rng.choice([0x00, 0x01, 0x07]), ftype]) + rbytes(rng, n - 3)
    ck = 0xFF
    for b in body:
        ck = (ck - b) & 0xFF
    return body + bytes([(ck + 1) & 0xFF])


UNI_TYPES = [(0x51, 5), (0x51, 10), (0xC2, 10), (0x40, 5), (0x4F, 10), (0xD3, 22), (0xC1, 10), (0xC3, 10),
             (0x5F, 22), (0x1F, 22), (0x0F, 10), (0x0E, 10), (0x10, 10)]


def esb_payloads(rng, unifying, thorough):
    """ESB payloads (what ESB_Payload_Hdr carries). -> [(tag, bytes)]"""
    out = [("ack-empty", b""), ("ping", b"\x0f\x0f\x0f\x0f")]
    for n in (range(1, 33) if thorough else [1, 2, 3, 5, 8, 10, 16, 22, 31, 32]):
        b = rbytes(rng, n)
        if n >= 2:
            b = b[:1] + bytes([rng.choice([0x00, 0x22, 0x33, 0x77, 0x99])]) + b[2:]     # never a Unifying frame type
        out.append(("esb-len%d" % n, b))
    if unifying:
        for ft, n in UNI_TYPES:
            out.append(("uni-type%02x-len%d" % (ft, n), uni_payload(rng, ft, n)))
        out.append(("uni-badck", uni_payload(rng, 0xC2, 10)[:-1] + b"\x00"))
    return out


def esb_frames(rng, unifying, thorough):
    """Full ESB frames (ESB_Hdr level). -> [(tag, bytes)]"""
    out = []
    pays = esb_payloads(rng, unifying, thorough)
    for tag, pay in pays:
        if len(pay) > 32:
            continue
        addr = bytes([rng.choice([0x11, 0x7F, 0x80, 0xE7, 0xCA])]) + rbytes(rng, 4)
        out.append(("frame-" + tag, esb_frame(addr, pay, pid=rng.randrange(4), no_ack=rng.randrange(2))))
    out.append(("frame-aa-pre", esb_frame(bytes([0x11, 2, 3, 4, 5]), b"\x01\x02", preamble=0xAA)))
    out.append(("frame-55-pre", esb_frame(bytes([0x91, 2, 3, 4, 5]), b"\x01\x02", preamble=0x55)))
    out.append(("frame-badcrc", esb_frame(bytes([0x91, 2, 3, 4, 5]), b"\x01\x02\x03", good_crc=False)))
    return out


# ----------------------------------------------------------------------------------------
# metadata valuations
# ----------------------------------------------------------------------------------------
RSSI = [-128, -100, -40, -1, 0, 1, 127, -2 ** 31, 2 ** 31 - 1]
TS = [0, 1, 1234, 2 ** 32 - 1, 2 ** 32, 2 ** 63, 2 ** 64 - 1]


def subsets(names):
    for mask in range(1 << len(names)):
        yield [n for i, n in enumerate(names) if mask >> i & 1]


# ----------------------------------------------------------------------------------------
# class tables
# ----------------------------------------------------------------------------------------
# class key -> (Coq class tag, Coq body constructor, domain)
CLS = {
    "ble.send_raw_pdu": ("CBleSendRaw", "BBleSendRaw", "ble"), "ble.send_pdu": ("CBleSend", "BBleSend", "ble"),
    "ble.adv_pdu": ("CBleAdv", "BBleAdv", "ble"), "ble.pdu": ("CBlePdu", "BBlePdu", "ble"),
    "ble.raw_pdu": ("CBleRaw", "BBleRaw", "ble"),
    "dot15d4.send": ("CD15Send", "BD15Send", "dot15d4"), "dot15d4.send_raw": ("CD15SendRaw", "BD15SendRaw", "dot15d4"),
    "dot15d4.pdu": ("CD15Pdu", "BD15Pdu", "dot15d4"), "dot15d4.raw_pdu": ("CD15Raw", "BD15Raw", "dot15d4"),
    "esb.send": ("CEsbSend", "BEsbTx", "esb"), "esb.send_raw": ("CEsbSendRaw", "BEsbTx", "esb"),
    "esb.pdu": ("CEsbPdu", "BEsbRx", "esb"), "esb.raw_pdu": ("CEsbRaw", "BEsbRx", "esb"),
    "unifying.send": ("CUniSend", "BEsbTx", "unifying"), "unifying.send_raw": ("CUniSendRaw", "BEsbTx", "unifying"),
    "unifying.pdu": ("CUniPdu", "BEsbRx", "unifying"), "unifying.raw_pdu": ("CUniRaw", "BEsbRx", "unifying"),
    "phy.send": ("CPhySend", "BPhySend", "phy"), "phy.send_raw": ("CPhySendRaw", "BPhySendRaw", "phy"),
    "phy.packet": ("CPhyPkt1", "BPhyRx", "phy"), "phy.packet@2": ("CPhyPkt2", "BPhyRx", "phy"),
    "phy.raw_packet": ("CPhyRaw1", "BPhyRx", "phy"), "phy.raw_packet@2": ("CPhyRaw2", "BPhyRx", "phy"),
}
RX_CLASSES = ["ble.adv_pdu", "ble.pdu", "ble.raw_pdu", "dot15d4.pdu", "dot15d4.raw_pdu", "esb.pdu", "esb.raw_pdu",
              "unifying.pdu", "unifying.raw_pdu", "phy.packet", "phy.packet@2", "phy.raw_packet", "phy.raw_packet@2"]

# message field -> metadata item, per received class (what to_packet must carry into the packet)
MD_MAP = {
    "ble.adv_pdu": {"rssi": "rssi"},
    "ble.pdu": {"direction": "direction", "conn_handle": "connection_handle", "processed": "processed",
                "decrypted": "decrypted"},
    "ble.raw_pdu": {"direction": "direction", "channel": "channel", "rssi": "rssi", "timestamp": "timestamp",
                    "relative_timestamp": "relative_timestamp", "crc_validity": "is_crc_valid",
                    "conn_handle": "connection_handle", "processed": "processed", "decrypted": "decrypted"},
    "dot15d4.pdu": {"channel": "channel", "rssi": "rssi", "timestamp": "timestamp", "fcs_validity": "is_fcs_valid",
                    "lqi": "lqi"},
    "esb.pdu": {"channel": "channel", "rssi": "rssi", "timestamp": "timestamp", "crc_validity": "is_crc_valid",
                "address": "address"},
    "phy.packet": {"frequency": "frequency", "rssi": "rssi", "timestamp": "timestamp"},
    "phy.packet@2": {"frequency": "frequency", "rssi": "rssi", "timestamp": "timestamp", "deviation": "deviation",
                     "datarate": "datarate", "endian": "endianness", "modulation": "modulation", "syncword": "syncword"},
}
MD_MAP["dot15d4.raw_pdu"] = MD_MAP["dot15d4.pdu"]
for _k in ("esb.raw_pdu", "unifying.pdu", "unifying.raw_pdu"):
    MD_MAP[_k] = MD_MAP["esb.pdu"]
MD_MAP["phy.raw_packet"] = MD_MAP["phy.packet"]
MD_MAP["phy.raw_packet@2"] = MD_MAP["phy.packet@2"]
# sending options: send message field -> metadata item
OPT_MAP = {
    "ble.send_pdu": {"direction": "direction", "conn_handle": "connection_handle", "encrypt": "encrypt"},
    "ble.send_raw_pdu": {"direction": "direction", "conn_handle": "connection_handle", "encrypt": "encrypt"},
    "dot15d4.send": {"channel": "channel"}, "dot15d4.send_raw": {"channel": "channel"},
    "esb.send": {"channel": "channel", "retransmission_count": "retransmission_count"},
    "esb.send_raw": {"channel": "channel", "retransmission_count": "retransmission_count"},
    "unifying.send": {"channel": "channel", "retransmission_count": "retransmission_count"},
    "unifying.send_raw": {"channel": "channel", "retransmission_count": "retransmission_count"},
    "phy.send": {}, "phy.send_raw": {},
}
MDCLS = {"BLEMetadata": ("MdBle", "ble"), "Dot15d4Metadata": ("MdD15", "dot15d4"), "ESBMetadata": ("MdEsb", "esb"),
         "UnifyingMetadata": ("MdUni", "unifying"), "PhyMetadata": ("MdPhy", "phy"), "Metadata": ("MdOther", None)}
EXN = {"TypeError": "TypeError", "AttributeError": "AttributeError", "ValueError": "ValueError", "error": "StructError",
       "IndexError": "IndexError", "NameError": "NameError"}


def cls_of_msg(k, ver):
    """class key of an observed message kind `k` under protocol version `ver`."""
    if k in ("phy.packet", "phy.raw_packet") and ver == 2:
        return k + "@2"
    return k if k in CLS else None


# ----------------------------------------------------------------------------------------
# Coq printers (N_scope is NOT open in the cases files: bytes are printed with %N)
# ----------------------------------------------------------------------------------------
def zlit(n):
    return "(%d)" % n


def blit(b):
    return "[" + ";".join("%d%%N" % x for x in b) + "]"


def hexval(v):
    """'hex:..' -> bytes"""
    assert isinstance(v, str) and v.startswith("hex:"), v
    return bytes.fromhex(v[4:])


def oz(v):
    return "None" if v is None else "(Some %s)" % zlit(int(v))


def ob(v):
    return "None" if v is None else "(Some %s)" % ("true" if v else "false")


def oby(v):
    return "None" if v is None else "(Some %s)" % blit(v)


def cbool(v):
    return "true" if v else "false"


class Unmodellable(Exception):
    pass


def body_term(clskey, f):
    """Coq [body] term of a message dump `f` (proto field name -> canonical value)."""
    ctor = CLS[clskey][1]
    g = f.get
    if ctor == "BBleSendRaw":
        r = "{| bsr_direction := %s; bsr_conn := %s; bsr_aa := %s; bsr_pdu := %s; bsr_crc := %s; bsr_encrypt := %s |}" % (
            zlit(g("direction")), zlit(g("conn_handle")), zlit(g("access_address")), blit(hexval(g("pdu"))),
            zlit(g("crc")), cbool(g("encrypt")))
    elif ctor == "BBleSend":
        r = "{| bs_direction := %s; bs_conn := %s; bs_pdu := %s; bs_encrypt := %s |}" % (
            zlit(g("direction")), zlit(g("conn_handle")), blit(hexval(g("pdu"))), cbool(g("encrypt")))
    elif ctor == "BBleAdv":
        r = "{| ba_type := %s; ba_rssi := %s; ba_addr := %s; ba_data := %s; ba_addr_type := %s |}" % (
            zlit(g("adv_type")), zlit(g("rssi")), blit(hexval(g("bd_address"))), blit(hexval(g("adv_data"))),
            zlit(g("addr_type")))
    elif ctor == "BBlePdu":
        r = "{| bp_direction := %s; bp_pdu := %s; bp_conn := %s; bp_processed := %s; bp_decrypted := %s |}" % (
            zlit(g("direction")), blit(hexval(g("pdu"))), zlit(g("conn_handle")), cbool(g("processed")),
            cbool(g("decrypted")))
    elif ctor == "BBleRaw":
        r = ("{| br_direction := %s; br_channel := %s; br_rssi := %s; br_timestamp := %s; br_rel_ts := %s; br_valid := %s; "
             "br_aa := %s; br_pdu := %s; br_crc := %s; br_conn := %s; br_processed := %s; br_decrypted := %s |}") % (
            zlit(g("direction")), zlit(g("channel")), oz(g("rssi")), oz(g("timestamp")), oz(g("relative_timestamp")),
            ob(g("crc_validity")), zlit(g("access_address")), blit(hexval(g("pdu"))), zlit(g("crc")),
            zlit(g("conn_handle")), cbool(g("processed")), cbool(g("decrypted")))
    elif ctor == "BD15Send":
        r = "{| ds_channel := %s; ds_pdu := %s |}" % (zlit(g("channel")), blit(hexval(g("pdu"))))
    elif ctor == "BD15SendRaw":
        r = "{| dsr_channel := %s; dsr_pdu := %s; dsr_fcs := %s |}" % (zlit(g("channel")), blit(hexval(g("pdu"))), zlit(g("fcs")))
    elif ctor == "BD15Pdu":
        r = "{| dp_channel := %s; dp_pdu := %s; dp_rssi := %s; dp_timestamp := %s; dp_valid := %s; dp_lqi := %s |}" % (
            zlit(g("channel")), blit(hexval(g("pdu"))), oz(g("rssi")), oz(g("timestamp")), ob(g("fcs_validity")), oz(g("lqi")))
    elif ctor == "BD15Raw":
        r = ("{| dr_channel := %s; dr_pdu := %s; dr_fcs := %s; dr_rssi := %s; dr_timestamp := %s; dr_valid := %s; "
             "dr_lqi := %s |}") % (zlit(g("channel")), blit(hexval(g("pdu"))), zlit(g("fcs")), oz(g("rssi")),
                                   oz(g("timestamp")), ob(g("fcs_validity")), oz(g("lqi")))
    elif ctor == "BEsbTx":
        r = "{| et_channel := %s; et_pdu := %s; et_retr := %s |}" % (
            zlit(g("channel")), blit(hexval(g("pdu"))), zlit(g("retransmission_count")))
    elif ctor == "BEsbRx":
        a = g("address")
        r = "{| er_channel := %s; er_pdu := %s; er_rssi := %s; er_timestamp := %s; er_valid := %s; er_address := %s |}" % (
            zlit(g("channel")), blit(hexval(g("pdu"))), oz(g("rssi")), oz(g("timestamp")), ob(g("crc_validity")),
            oby(None if a is None else hexval(a)))
    elif ctor == "BPhySend":
        r = "{| ps_packet := %s |}" % blit(hexval(g("packet")))
    elif ctor == "BPhySendRaw":
        r = "{| psr_iq := [%s] |}" % ";".join(zlit(x) for x in g("iq"))
    elif ctor == "BPhyRx":
        r = ("{| pr_frequency := %s; pr_packet := %s; pr_rssi := %s; pr_timestamp := %s; pr_iq := [%s]; pr_deviation := %s; "
             "pr_datarate := %s; pr_endian := %s; pr_modulation := %s; pr_syncword := %s |}") % (
            zlit(g("frequency")), blit(hexval(g("packet"))), oz(g("rssi")), oz(g("timestamp")),
            ";".join(zlit(x) for x in (g("iq") or [])), zlit(g("deviation")), zlit(g("datarate")), zlit(g("endian")),
            zlit(g("modulation")), blit(hexval(g("syncword"))))
    else:
        raise Unmodellable(ctor)
    return "(%s %s)" % (ctor, r)


LAYER = {"BTLE": "LBtle", "BTLE_DATA": "LBtleData", "BTLE_CTRL": "LBtleCtrl", "BTLE_ADV": "LBtleAdv",
         "BTLE_ADV_IND": "LAdvInd", "BTLE_ADV_DIRECT_IND": "LAdvDirect", "BTLE_ADV_NONCONN_IND": "LAdvNonconn",
         "BTLE_ADV_SCAN_IND": "LAdvScanInd", "BTLE_SCAN_RSP": "LScanRsp", "Dot15d4": "LDot15d4",
         "Dot15d4FCS": "LDot15d4FCS", "Dot15d4Raw": "LDot15d4Raw", "Phy_Packet": "LPhy", "Raw": "LRaw"}


def layer_term(name, dom):
    if name == "ESB_Hdr":
        return "LUniHdr" if dom == "unifying" else "LEsbHdr"
    if name == "ESB_Payload_Hdr":
        return "LUniPayload" if dom == "unifying" else "LEsbPayload"
    return LAYER.get(name, "LRaw")


def md_term(md):
    if md is None:
        return "None"
    if md["cls"] not in MDCLS:
        raise Unmodellable("metadata class " + md["cls"])
    for k, v in md.items():
        if isinstance(v, str) and v.startswith("other:"):
            raise Unmodellable("metadata item %s=%s" % (k, v))
    if md.get("iq"):
        raise Unmodellable("iq")
    g = md.get
    addr = g("address")
    if addr is not None:
        if not addr.startswith("str:"):
            raise Unmodellable("address " + addr)
        try:
            addr = bytes.fromhex(addr[4:].replace(":", ""))
        except ValueError:
            raise Unmodellable("address " + addr)
    sw = g("syncword")
    valid = g("is_crc_valid") if "is_crc_valid" in md else g("is_fcs_valid")
    proc = "None" if "processed" not in md else "(Some %s)" % ob(md["processed"])
    retr = "None" if "retransmission_count" not in md else "(Some %s)" % oz(md["retransmission_count"])
    return ("(Some {| md_cls := %s; md_raw := %s; md_decrypted := %s; md_timestamp := %s; md_channel := %s; md_rssi := %s; "
            "md_direction := %s; md_conn := %s; md_valid := %s; md_rel_ts := %s; md_encrypt := %s; md_processed := %s; "
            "md_lqi := %s; md_address := %s; md_retr := %s; md_frequency := %s; md_endianness := %s; md_deviation := %s; "
            "md_datarate := %s; md_modulation := %s; md_syncword := %s |})") % (
        MDCLS[md["cls"]][0], ob(g("raw")), ob(g("decrypted")), oz(g("timestamp")), oz(g("channel")), oz(g("rssi")),
        oz(g("direction")), oz(g("connection_handle")), ob(valid), oz(g("relative_timestamp")), ob(g("encrypt")), proc,
        oz(g("lqi")), oby(addr), retr, oz(g("frequency")), oz(g("endianness")), oz(g("deviation")), oz(g("datarate")),
        oz(g("modulation")), oby(None if sw is None else hexval(sw)))


def sub_of(layers):
    if layers and layers[0] == "BTLE" and len(layers) > 1 and layers[1] in ("BTLE_DATA", "BTLE_ADV"):
        return LAYER[layers[1]]
    return "LRaw"


def pkt_term(d, dom):
    return "{| p_top := %s; p_sub := %s; p_bytes := %s; p_md := %s |}" % (
        layer_term(d["layers"][0], dom), sub_of(d["layers"]), blit(bytes.fromhex(d["bytes"])), md_term(d["md"]))


def obs_term(stage, printer):
    """stage dump {"ok"|"none"|"exc"} (or None when the stage was not reached) -> Coq [obs] term."""
    if stage is None:
        return "OSkip"
    if "ok" in stage:
        return "(OOk %s)" % printer(stage["ok"])
    if "none" in stage:
        return "ONone"
    if "exc" in stage:
        return "(OExc %s)" % EXN.get(stage["exc"], "OtherError")
    raise Unmodellable("stage %r" % (stage,))


def cres_term(r, layerkey):
    if "ok" in r:
        name = layerkey.partition("@")[0]
        return "(COk %s %s)" % (blit(bytes.fromhex(r["ok"])), sub_of(r["layers"]) if name == "BTLE" else "LRaw")
    if "struct" in r:
        return "CStruct"
    return "(CExc %s)" % EXN.get(r["exc"], "OtherError")


# ----------------------------------------------------------------------------------------
# codec queries the model makes (layer key understood by the driver, input bytes)
# ----------------------------------------------------------------------------------------
ADV_LAYER_OF_TYPE = {1: "BTLE_ADV_IND", 2: "BTLE_ADV_DIRECT_IND", 3: "BTLE_ADV_NONCONN_IND", 4: "BTLE_ADV_SCAN_IND",
                     5: "BTLE_SCAN_RSP"}
ADV_LAYER_OF_PDU = {0: "BTLE_ADV_IND", 1: "BTLE_ADV_DIRECT_IND", 2: "BTLE_ADV_NONCONN_IND", 6: "BTLE_ADV_SCAN_IND",
                    4: "BTLE_SCAN_RSP"}


def tp_queries(clskey, f, proto=None):
    """codec calls of the model's to_packet for message dump `f` of class `clskey`."""
    base = clskey.partition("@")[0]
    dom, name = base.split(".", 1)
    sfx = ("@" + proto) if proto else ""
    if base in ("ble.send_pdu", "ble.pdu"):
        return [("BTLE_DATA", hexval(f["pdu"]))]
    if base == "ble.adv_pdu":
        lay = ADV_LAYER_OF_TYPE.get(f["adv_type"])
        return [(lay, hexval(f["bd_address"]) + hexval(f["adv_data"]))] if lay and len(hexval(f["bd_address"])) == 6 else []
    if base == "ble.raw_pdu":
        aa, crc = f["access_address"], f["crc"]
        if not (0 <= aa < 2 ** 32 and 0 <= crc < 2 ** 32):
            return []
        return [("BTLE", struct.pack("<I", aa) + hexval(f["pdu"]) + struct.pack(">I", crc)[1:])]
    if base in ("dot15d4.send", "dot15d4.pdu"):
        return [("Dot15d4" + sfx, hexval(f["pdu"]))]
    if base in ("dot15d4.send_raw", "dot15d4.raw_pdu"):
        if not 0 <= f["fcs"] < 65536:
            return []
        return [("Dot15d4FCS" + sfx, hexval(f["pdu"]) + struct.pack("<H", f["fcs"]))]
    if dom in ("esb", "unifying"):
        lay = "ESB_Hdr" if name in ("send_raw", "raw_pdu") else "ESB_Payload_Hdr"
        return [("%s@%s" % (lay, dom), hexval(f["pdu"]))]
    return []


def adv_from_queries(d):
    """codec call of the model's BleAdvPduReceived.from_packet on packet dump `d`."""
    lay, b = d["layers"], bytes.fromhex(d["bytes"])
    if lay[0] == "BTLE" and len(lay) > 1 and lay[1] == "BTLE_ADV":
        b = b[4:len(b) - 3] if len(b) >= 3 else b""
    elif lay[0] != "BTLE_ADV":
        return []
    if len(b) < 2:
        return []
    cls = ADV_LAYER_OF_PDU.get(b[0] & 0xF)
    return [(cls, b[2:])] if cls else []
