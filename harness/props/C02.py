"""C02 -- Protocol hub: create -> serialize -> parse.  See DESIGN.md section 2 C02 and design/C02.md.

Pipeline: (0) translator regenerates C02Schema.v from the tree under verification;
(1) proofs of theories/C02 + the generated obligation `wf_schema schema = true` and the
instantiation of the theorems at the regenerated schema; (2) generate wrapper / factory /
malformed-stream cases; (3) run the real hub (harness/impl/C02.py); (4) oracle = the property
on the real hub's outputs; (5) correspondence model vs implementation inside Coq; (6) verdict.
"""
import hashlib, json, os, subprocess
from harness import common as C
from harness.common import cbool, clist, cnat, cpair

PID = "C02"
TRANSLATOR = os.path.join(C.VERIF, "harness", "translators", "C02_schema.py")

# ---------------------------------------------------------------------------------------------
# translator
# ---------------------------------------------------------------------------------------------

def run_translator(out_v):
    p = subprocess.run([C.PY, "-B", TRANSLATOR], input=json.dumps({"out_v": out_v}).encode(),
                       stdout=subprocess.PIPE, stderr=subprocess.PIPE, env=C.impl_env(), cwd="/var/tmp", timeout=300)
    out = p.stdout.decode("utf-8", "replace")
    for line in reversed(out.splitlines()):
        if line.startswith("RESULT "):
            return json.loads(line[7:]), None
    return None, "translator produced no RESULT (rc=%s)\nstdout: %s\nstderr: %s" % (
        p.returncode, out[-1500:], p.stderr.decode("utf-8", "replace")[-3000:])


# ---------------------------------------------------------------------------------------------
# Coq literals
# ---------------------------------------------------------------------------------------------

_INTERN = {}


def cstr(s):
    """string literal, interned: the cases refer to `sN` constants defined once in the preamble"""
    if s not in _INTERN:
        _INTERN[s] = "s%d" % len(_INTERN)
    return _INTERN[s]


def intern_defs():
    return "\n".join('Definition %s := %s.' % (n, C.cstr(s)) for s, n in sorted(_INTERN.items(), key=lambda kv: int(kv[1][1:])))


def cpath(p):
    return clist([cstr(x) for x in p])


def csval(s):
    if "b" in s:
        return "(SBool %s)" % cbool(s["b"])
    if "x" in s:
        return "(SBytes [%s])" % ";".join("%d" % b for b in bytes.fromhex(s["x"]))
    return "(SInt (%d)%%Z)" % s["i"]


def cvalue(v):
    if "s" in v:
        return "(VS %s)" % csval(v["s"])
    if "list" in v:
        return "(VL %s)" % clist([csval(e) for e in v["list"]])
    if "recs" in v:
        return "(VR %s)" % clist([clist([cpair(cstr(n), csval(s)) for n, s in r]) for r in v["recs"]])
    raise C.CheckBroken("value outside the model's value type: %r" % (v,))


def cpb(dec):
    vals, pres = dec
    return "(mkPb %s %s)" % (clist([cpair(cpath(p), cvalue(v)) for p, v in vals]), clist([cpath(p) for p in pres]))


def cgres(j):
    if j is None:
        return "GNone"
    if "exc" in j:
        return "(GRaise %s)" % cstr(j["exc"])
    if "unknown" in j:
        return "GWrapped"
    return "(GVal %s)" % cvalue(j)


def cobs(o):
    if "exc" in o:
        return "(ObsRaise %s)" % cstr(o["exc"])
    if "none" in o:
        return "ObsNone"
    return "(ObsMsg %s %s)" % (cstr(o["cls"]), clist([cpair(cstr(a), cgres(o["fields"][a])) for a in sorted(o["fields"])]))


def ccobs(r):
    if "exc" in r:
        return "(CRaise %s)" % cstr(r["exc"])
    if r.get("decoded") is None:
        return "(CRaise %s)" % cstr("DecodeErrorOnOwnSerialisation")
    return "(CObs %s %s)" % (cpb(r["decoded"]), cobs(r["obs"]))


def ckw(kw):
    return clist([cpair(cstr(a), cvalue(v)) for a, v in kw])


def cargs(params, argspecs, keys):
    """arguments as the model sees them: raw data + plain projections, all computed by the harness"""
    items = []
    for p in params:
        if argspecs.get(p) is None:
            items.append(cpair(cstr(p), "None"))
        else:
            pr = ref_entries(argspecs[p], keys.get(p, ()))
            items.append(cpair(cstr(p), "(Some %s)" % clist([cpair(cstr(k), cvalue(v)) for k, v in sorted(pr.items())])))
    return clist(items)


# ---------------------------------------------------------------------------------------------
# schema helpers (python side, from the translator's JSON)
# ---------------------------------------------------------------------------------------------

class Schema:
    def __init__(self, js):
        self.js = js
        self.messages = js["messages"]
        self.root = js["root"]
        self.classes = js["classes"]
        self.regs = js["regs"]
        self.last = js["last_version"]
        # versions swept: 1 .. max(last registered version, ProtocolHub.LAST_VERSION)
        self.maxv = max([1, int(self.last)] + [r["ver"] for r in self.regs])

    def resolve(self, path):
        mn, fd = self.root, None
        for node in path:
            if mn is None:
                return None
            fd = next((f for f in self.messages[mn] if f["name"] == node), None)
            if fd is None:
                return None
            mn = fd["ty"].get("msg") if not fd["rep"] else None
        return fd

    def bound(self, reg, name, v):
        while True:
            for r in self.regs:
                if r["reg"] == reg and r["name"] == name and r["ver"] == v:
                    return r["cls"]
            if v > 1:
                v -= 1
                continue
            return None

    def scalar_fields(self, mn):
        return [(f["name"], f["ty"]["scalar"]) for f in self.messages[mn] if "scalar" in f["ty"] and not f["rep"]]


RANGES = {"KU32": (0, 2 ** 32 - 1), "KU64": (0, 2 ** 64 - 1), "KS32": (-2 ** 31, 2 ** 31 - 1),
          "KS64": (-2 ** 63, 2 ** 63 - 1), "KEnum": (-2 ** 31, 2 ** 31 - 1)}


def int_points(kind):
    lo, hi = RANGES[kind]
    pts = [0, 1, 2, 2 ** 31 - 1, 2 ** 31, 2 ** 32 - 1, 2 ** 32, 2 ** 63 - 1, 2 ** 63, 2 ** 64 - 1, -1, -2 ** 31, -2 ** 63, 127, 128, 255, 256, 65535]
    return sorted({p for p in pts if lo <= p <= hi})


def gen_sval(rng, kind, mode):
    """mode: 'zero' | 'lo' | 'hi' | 'rand' | 'edge'"""
    if kind == "KBool":
        return {"b": {"zero": False, "lo": False, "hi": True}.get(mode, rng.random() < 0.5)}
    if kind == "KBytes":
        if mode in ("zero", "lo"):
            return {"x": ""}
        if mode == "hi":
            return {"x": bytes(rng.randrange(256) for _ in range(300 if rng.random() < 0.08 else 40)).hex()}
        n = rng.choice([0, 1, 1, 2, 5, 6, 16, 31])
        return {"x": bytes(rng.choice([0, 0xff, rng.randrange(256)]) for _ in range(n)).hex()}
    lo, hi = RANGES[kind]
    if mode == "zero":
        return {"i": 0}
    if mode == "lo":
        return {"i": lo}
    if mode == "hi":
        return {"i": hi}
    if mode == "edge":
        return {"i": rng.choice(int_points(kind))}
    return {"i": rng.choice([rng.randrange(lo, hi + 1), rng.randrange(0, 256), rng.choice(int_points(kind))])}


def gen_value(rng, S, fd, mode):
    if fd["rep"]:
        n = {"zero": 0, "lo": 0, "hi": 24}.get(mode, rng.choice([0, 1, 1, 2, 3, 9]))
        if "msg" in fd["ty"]:
            sf = S.scalar_fields(fd["ty"]["msg"])
            return {"recs": [[[nm, gen_sval(rng, k, "rand" if mode in ("rand", "edge") else mode)] for nm, k in sf] for _ in range(n)]}
        return {"list": [gen_sval(rng, fd["ty"]["scalar"], "edge" if mode == "hi" else "rand") for _ in range(n)]}
    return {"s": gen_sval(rng, fd["ty"]["scalar"], mode)}


def bad_sval(rng, kind):
    """a value just outside the field's range / of the wrong shape"""
    if kind in RANGES:
        lo, hi = RANGES[kind]
        return {"i": rng.choice([hi + 1, lo - 1])}
    if kind == "KBytes":
        return {"i": 5}
    return {"x": "00"}


def default_jval(fd):
    if fd["rep"]:
        return {"recs": []} if "msg" in fd["ty"] else {"list": []}
    k = fd["ty"]["scalar"]
    return {"s": {"b": False} if k == "KBool" else {"x": ""} if k == "KBytes" else {"i": 0}}


# ---------------------------------------------------------------------------------------------
# case generation
# ---------------------------------------------------------------------------------------------

def gen_wrapper_cases(ctx, S):
    rng, cases = ctx.rng, []
    versions = list(range(1, S.maxv + 1))
    seen = set()
    for r in S.regs:
        c = S.classes[r["cls"]]
        if c["kind"] not in ("CWrap", "CFixed"):
            continue
        for v in versions + ([S.maxv + 1] if ctx.thorough else []):
            cid = S.bound(r["reg"], r["name"], v)
            if cid is None or (r["reg"], r["name"], v) in seen:
                continue
            seen.add((r["reg"], r["name"], v))
            cl = S.classes[cid]
            if cl["kind"] == "CFixed":
                cases.append((v, r["reg"], r["name"], [], "fixed"))
                continue
            if cl["kind"] != "CWrap":
                continue
            attrs = [(a, S.resolve(a["path"])) for a in cl["attrs"]]
            attrs = [(a, fd) for a, fd in attrs if fd is not None and ("scalar" in fd["ty"] or fd["rep"])]
            primary = ctx.thorough or (v == S.maxv) or cid != S.bound(r["reg"], r["name"], S.maxv)
            def add(kw, kind):
                cases.append((v, r["reg"], r["name"], kw, kind))
            add([], "none-set")
            add([(a["name"], gen_value(rng, S, fd, "rand")) for a, fd in attrs], "all-set")
            add([(a["name"], gen_value(rng, S, fd, "zero")) for a, fd in attrs], "all-default")
            if not primary:
                continue
            if ctx.thorough:
                add([(a["name"], gen_value(rng, S, fd, "lo")) for a, fd in attrs], "all-low")
            add([(a["name"], gen_value(rng, S, fd, "hi")) for a, fd in attrs], "all-high")
            for a, fd in attrs:
                modes = ["lo", "hi", "edge", "zero"] if ctx.thorough else [rng.choice(["lo", "hi", "edge"])]
                for m in modes:
                    add([(a["name"], gen_value(rng, S, fd, m))], "single")
            for _ in range(30 if ctx.thorough else 2):
                sub = [x for x in attrs if rng.random() < 0.5]
                rng.shuffle(sub)
                add([(a["name"], gen_value(rng, S, fd, rng.choice(["rand", "edge", "zero"]))) for a, fd in sub], "subset")
            # undeclared keyword: silently ignored by the wrapper
            if attrs:   # (field-less classes define __init__(self, message=None): any keyword is a TypeError)
                add([("no_such_field_", {"s": {"i": 1}})] + [(a["name"], gen_value(rng, S, fd, "rand")) for a, fd in attrs[:2]], "undeclared-kw")
            # out-of-range / wrong shape: must raise, never wrap around
            for a, fd in attrs[: (len(attrs) if ctx.thorough else 2)]:
                if fd["rep"]:
                    continue
                add([(a["name"], {"s": bad_sval(rng, fd["ty"]["scalar"])})], "inadmissible")
    return cases


def annotation_kind(ann):
    a = (ann or "").replace(" ", "")
    for k in ("BDAddress", "ChannelMap", "EsbNodeAddress", "NodeAddress", "Endianness", "Modulation"):
        if a == k:
            return k
    if a in ("List[int]", "list"):
        return "intlist"
    if a == "List[bytes]":
        return "byteslist"
    if a == "List[tuple]":
        return "tuplelist"
    if a == "bytes":
        return "bytes"
    if a == "bool":
        return "bool"
    return "int"     # int, AdvType, Modulation, Endianness ... : integers


def gen_arg(rng, S, f, p, mode):
    """argument spec for parameter p of factory f (dict from the translator)"""
    kind = annotation_kind(p.get("ann"))
    ops = [o for o in f["ops"] if (expr_ref(o["e"]) or [None])[0] == p["name"]]
    keys = {expr_ref(o["e"])[1] for o in ops}
    # the protobuf field the parameter lands in (latest version)
    fd = None
    cid = S.bound(f["reg"], f["target"], S.maxv)
    for o in ops:
        if "cond" in o["e"]:
            continue
        at = next((a for a in S.classes.get(cid, {}).get("attrs", []) if a["name"] == o["attr"]), None)
        if at is not None:
            fd = S.resolve(at["path"])
            break
    if kind == "BDAddress":
        raw = bytes(rng.choice([rng.randrange(256), 0, 0xff]) for _ in range(6))
        if rng.random() < 0.6:      # textual form AA:BB:CC:DD:EE:FF, stored reversed
            a0 = {"t": "str", "v": ":".join("%02x" % b for b in raw)}
        else:                       # 6 raw bytes, stored as they are
            a0 = {"t": "bytes", "v": raw.hex()}
        return {"t": "obj", "module": "whad.hub.ble", "cls": "BDAddress", "args": [a0],
                "kwargs": {"random": {"t": "bool", "v": rng.random() < 0.5}}}
    if kind == "ChannelMap":
        return {"t": "obj", "module": "whad.hub.ble", "cls": "ChannelMap", "args": [{"t": "intlist", "v": gen_channels(rng, mode)}]}
    if kind in ("Endianness", "Modulation"):      # IntEnum members of whad.hub.phy
        return {"t": "obj", "module": "whad.hub.phy", "cls": kind, "args": [{"t": "int", "v": rng.randrange(2 if kind == "Endianness" else 8)}]}
    if kind == "EsbNodeAddress":
        n = {"lo": 1, "zero": 1, "hi": 5}.get(mode, rng.randrange(1, 6))
        return {"t": "obj", "module": "whad.hub.esb", "cls": "EsbNodeAddress",
                "args": [{"t": "bytes", "v": bytes(rng.randrange(256) for _ in range(n)).hex()}]}
    if kind == "NodeAddress":
        val = gen_sval(rng, "KU64", mode)["i"]
        return {"t": "obj", "module": "whad.hub.dot15d4", "cls": "NodeAddress",
                "args": [{"t": "int", "v": val}, {"t": "int", "v": rng.choice([0, 1])}]}
    if kind == "intlist":
        n = {"zero": 0, "lo": 0, "hi": 40}.get(mode, rng.choice([0, 1, 2, 3, 9]))
        if any(o["e"].get("conv", [None])[0] == "chanmap_bytes" for o in ops):
            return {"t": "intlist", "v": gen_channels(rng, mode)}
        if "bytes()" in keys or any(o["e"].get("conv", [None])[0] == "bytes_of_ints" for o in ops):
            return {"t": "intlist", "v": [rng.randrange(256) for _ in range(n)]}
        k = fd["ty"]["scalar"] if fd and "scalar" in fd["ty"] else "KU32"
        return {"t": "intlist", "v": [gen_sval(rng, k, "edge" if mode == "hi" else "rand")["i"] for _ in range(n)]}
    if kind == "byteslist":
        n = {"zero": 0, "lo": 0, "hi": 20}.get(mode, rng.choice([0, 1, 2, 5]))
        return {"t": "byteslist", "v": [gen_sval(rng, "KBytes", "rand")["x"] for _ in range(n)]}
    if kind == "tuplelist":
        n = {"zero": 0, "lo": 0, "hi": 20}.get(mode, rng.choice([0, 1, 2, 5]))
        return {"t": "tuplelist", "v": [[gen_sval(rng, "KU32", "edge")["i"], gen_sval(rng, "KU32", "edge")["i"]] for _ in range(n)]}
    # the CLASS of value follows the signature (int / bytes / bool); the protobuf field only gives the
    # range, and only when it is of that class (otherwise the binding itself is what the oracle reports)
    if kind == "bytes":
        return {"t": "bytes", "v": gen_sval(rng, "KBytes", mode)["x"]}
    if kind == "bool":
        return {"t": "bool", "v": gen_sval(rng, "KBool", mode)["b"]}
    k = fd["ty"]["scalar"] if fd and "scalar" in fd["ty"] else "KU32"
    if p.get("ann") is None and k == "KBool":
        return {"t": "bool", "v": gen_sval(rng, "KBool", mode)["b"]}
    if p.get("ann") is None and k == "KBytes":
        return {"t": "bytes", "v": gen_sval(rng, "KBytes", mode)["x"]}
    if k not in RANGES:
        k = "KU32"
    if mode == "over":      # just outside the range of the field: the factory must raise, not wrap around
        return {"t": "int", "v": rng.choice([RANGES[k][1] + 1, RANGES[k][0] - 1])}
    return {"t": "int", "v": gen_sval(rng, k, mode)["i"]}


def expr_ref(e):
    """(parameter, key) an op's expression reads, or None for a constant"""
    for k in ("proj", "projdef", "cond"):
        if k in e:
            return e[k][0], e[k][1]
    if "conv" in e:
        return e["conv"][1], e["conv"][4]     # the projection the CODE reads through its helper class
    return None


def proj_keys(f):
    """projections to MEASURE on the live argument objects (differential check of the helpers only:
    expected values never come from them)"""
    keys = {}
    for o in f["ops"]:
        r = expr_ref(o["e"])
        if r and not r[1].startswith("records("):
            keys.setdefault(r[0], set()).add(r[1])
    return {p: sorted(k) for p, k in keys.items()}


def gen_channels(rng, mode):
    """BLE channel lists, the boundary channels 0, 31/32 (byte and word edges), 36, 37 over-represented"""
    if mode in ("lo", "zero"):
        return []
    if mode == "hi":
        return list(range(38))
    r = rng.random()
    if r < 0.35:
        return [rng.choice([37, 37, 36, 0, 31, 32, 7, 8, 39 - 2])]
    if r < 0.55:
        return sorted(set(rng.choice([[0, 37], [36, 37], [31, 32, 37], [32, 33, 34, 35, 36, 37], [37, 5]])))
    return sorted(rng.sample(range(38), rng.randrange(0, 39)))


# -- reference semantics of the helper conversions, independent of the code under verification -------------

def ref_chanmap(channels):
    m = 0
    for c in channels:
        if not 0 <= c < 38:
            return None
        m |= 1 << c
    return {"s": {"x": bytes((m >> (8 * i)) & 0xff for i in range(5)).hex()}}


def py_conv(op, raw):
    if raw is None:
        return None
    if op == "chanmap_bytes":
        return ref_chanmap([s_["i"] for s_ in raw["list"]]) if "list" in raw else None
    if op == "bdaddr_bytes":
        b = bytes.fromhex(raw["s"]["x"])
        return {"s": {"x": b[::-1].hex()}} if len(b) == 6 else None
    if op == "bytes_of_ints":
        v = [s_["i"] for s_ in raw["list"]]
        return {"s": {"x": bytes(v).hex()}} if all(0 <= x < 256 for x in v) else None
    return None


def jv(x):
    if isinstance(x, bool):
        return {"s": {"b": x}}
    if isinstance(x, int):
        return {"s": {"i": x}}
    if isinstance(x, (bytes, bytearray)):
        return {"s": {"x": bytes(x).hex()}}
    return {"list": [{"i": int(e)} for e in x]}


def ref_entries(spec, keys=()):
    """what an argument IS, computed from the raw data the harness built it from (never from the code's helper
    classes): raw entries for the conversion operators + the plain projections the factories read"""
    t = spec["t"]
    out = {}
    if t in ("int", "bool"):
        out[""] = jv(spec["v"])
        out["bool()"] = jv(bool(spec["v"]))
    elif t == "bytes":
        out[""] = jv(bytes.fromhex(spec["v"]))
        out["bool()"] = jv(bool(spec["v"]))
    elif t == "intlist":
        out[""] = jv(list(spec["v"]))
    elif t == "byteslist":
        pass
    elif t == "obj":
        cls, a = spec["cls"], spec.get("args", [])
        if cls == "BDAddress":
            disp = bytes.fromhex(a[0]["v"].replace(":", "")) if a[0]["t"] == "str" else bytes.fromhex(a[0]["v"])[::-1]
            out["display"] = jv(disp)                    # AA:BB:CC:DD:EE:FF order
            out[".value"] = jv(disp[::-1])
            out[".is_public()"] = jv(not spec.get("kwargs", {}).get("random", {}).get("v", False))
        elif cls == "ChannelMap":
            out["channels"] = jv(list(a[0]["v"]))
            r = ref_chanmap(a[0]["v"])
            if r:
                out[".value"] = r
        elif cls == "EsbNodeAddress":
            out[".value"] = jv(bytes.fromhex(a[0]["v"]))
        elif cls == "NodeAddress":
            out[".address"], out[".address_type"] = jv(a[0]["v"]), jv(a[1]["v"])
        elif cls in ("Endianness", "Modulation"):
            out[""] = jv(a[0]["v"])
    for k in keys:
        if k.startswith("records(") and t in ("byteslist", "tuplelist"):
            fields = [x.split("=") for x in k[len("records("):-1].split(",")]
            recs = []
            for e in spec["v"]:
                recs.append([[fn, ({"x": e} if t == "byteslist" else {"i": e[int(ix)]})] for fn, ix in fields])
            out[k] = {"recs": recs}
    return out


def all_keys(f):
    keys = {}
    for o in f["ops"]:
        r = expr_ref(o["e"])
        if r:
            keys.setdefault(r[0], set()).add(r[1])
            if "conv" in o["e"]:
                keys[r[0]].add(o["e"]["conv"][2])
    return keys


def gen_factory_cases(ctx, S):
    rng, cases = ctx.rng, []
    versions = list(range(1, S.maxv + 1)) + ([S.maxv + 1] if ctx.thorough else [])
    for f in S.js["factories"]:
        params = f["params"]
        opt = [p for p in params if p["default_none"]]
        for v in versions:
            def add(argspec, kind):
                cases.append((v, f["dom"], f["name"], argspec, kind))
            def full(mode, present=None):
                d = {}
                for p in params:
                    if p["default_none"] and present is not None and p["name"] not in present:
                        d[p["name"]] = None
                    else:
                        d[p["name"]] = gen_arg(rng, S, f, p, mode)
                return d
            add(full("rand"), "all-args")
            add(full("zero"), "all-default-values")
            if opt:
                add(full("rand", present=set()), "optionals-absent")
            other_class = S.bound(f["reg"], f["target"], v) != S.bound(f["reg"], f["target"], S.maxv)
            if not (ctx.thorough or v == S.maxv or other_class):
                continue          # quick tier: the full sweep at the last version and wherever another class is bound
            add(full("lo"), "all-low")
            add(full("hi"), "all-high")
            if opt:
                for p in opt:
                    add(full("edge", present={p["name"]}), "one-optional")
                    add(full("zero", present={p["name"]}), "one-optional-falsy")   # 0 / False / b'' / [] given is not "not given"
                for _ in range(12 if ctx.thorough else 2):
                    add(full("edge", present={p["name"] for p in opt if rng.random() < 0.5}), "optional-subset")
            for _ in range(25 if ctx.thorough else 2):
                add(full("edge"), "edge-mix")
            # one integer argument just outside its field's range
            ints = [p for p in params if annotation_kind(p.get("ann")) == "int"]
            for p in ints[: (len(ints) if ctx.thorough else 1)]:
                d = full("rand")
                d[p["name"]] = gen_arg(rng, S, f, p, "over")
                add(d, "out-of-range")
    for f in S.js["opaque_factories"]:
        if (f["dom"], f["name"]) in PINNED_OPAQUE and f.get("params") == ["result_code"]:
            for v in versions:
                for code in range(0, 9):
                    cases.append((v, f["dom"], f["name"], {"result_code": {"t": "int", "v": code}}, "opaque"))
        elif f.get("param_info") is not None:
            # a factory the translator does not understand: pairwise-distinct sentinel arguments
            pi = f["param_info"]
            opt = [p["name"] for p in pi if p["default_none"]]
            subsets = [set(opt), set()] + [{o} for o in opt]
            for v in versions:
                for present in subsets:
                    d = {}
                    for i, p in enumerate(pi):
                        d[p["name"]] = None if (p["default_none"] and p["name"] not in present) else sentinel_arg(p, i)
                    cases.append((v, f["dom"], f["name"], d, "opaque-sentinel"))
                # the same with long byte strings (a helper may clamp / pad what it is given)
                cases.append((v, f["dom"], f["name"], {p["name"]: sentinel_arg(p, i, long=True) for i, p in enumerate(pi)}, "opaque-sentinel"))
                for i, p in enumerate(pi):
                    fz = falsy_arg(p)
                    if p["default_none"] and fz is not None:
                        d = {q["name"]: (None if q["default_none"] else sentinel_arg(q, j)) for j, q in enumerate(pi)}
                        d[p["name"]] = fz
                        cases.append((v, f["dom"], f["name"], d, "opaque-falsy:" + p["name"]))
    return cases


def falsy_arg(p):
    kind = annotation_kind(p.get("ann"))
    return {"int": {"t": "int", "v": 0}, "bool": {"t": "bool", "v": False}, "bytes": {"t": "bytes", "v": ""},
            "intlist": {"t": "intlist", "v": []}, "byteslist": {"t": "byteslist", "v": []}, "tuplelist": {"t": "tuplelist", "v": []}}.get(kind)


def falsy_oracle(f, pname, res_absent, res_sentinel, res_falsy):
    """factory outside the grammar: the field(s) that optional parameter `pname` lands in are those that differ between
    the call without any optional argument and the call with only `pname` (sentinel); given as 0 / False / b'' / []
    the same field(s) must read back as that value, not as unset"""
    for r in (res_absent, res_sentinel):
        if "exc" in r or "cls" not in r.get("obs", {}):
            return []
    fa, fs = res_absent["obs"]["fields"], res_sentinel["obs"]["fields"]
    targets = [a for a in fs if not same_value(fs.get(a), fa.get(a))]
    if "exc" in res_falsy:
        return [("factory raised %s when optional argument '%s' is given its zero value" % (res_falsy["exc"], pname), "a message", res_falsy["exc"])]
    o = res_falsy.get("obs", {})
    if "cls" not in o:
        return [("message with '%s' at its zero value does not parse back" % pname, res_falsy.get("created"), o)]
    for a in targets:
        got = o["fields"].get(a)
        if got is None or "exc" in got:
            return [("optional argument '%s' given as its zero value is reported unset (field '%s')" % (pname, a), "0 / False / b'' / []", got)]
        s_ = got.get("s")
        zero = (s_ is not None and (s_.get("i") == 0 or s_.get("b") is False or s_.get("x") == "")) or got.get("list") == [] or got.get("recs") == []
        if not zero:
            return [("field '%s' does not carry the zero value given for '%s'" % (a, pname), "0 / False / b'' / []", got)]
    return []


PINNED_OPAQUE = {("generic", "create_command_result")}   # dictionary dispatch on the result code


def sentinel_arg(p, i, long=False):
    kind = annotation_kind(p.get("ann"))
    b = lambda n: bytes([0xA0 + i] * n).hex()
    if long and kind == "bytes":
        return {"t": "bytes", "v": bytes((0x11 * (i + 1) + k) & 0xff for k in range(200)).hex()}
    if long and kind == "byteslist":
        return {"t": "byteslist", "v": [bytes((0x21 * (i + 1) + k) & 0xff for k in range(120)).hex(), b(2)]}
    if kind == "BDAddress":
        return {"t": "obj", "module": "whad.hub.ble", "cls": "BDAddress", "args": [{"t": "bytes", "v": b(6)}]}
    if kind == "ChannelMap":
        return {"t": "obj", "module": "whad.hub.ble", "cls": "ChannelMap", "args": [{"t": "intlist", "v": [i, i + 9]}]}
    if kind == "EsbNodeAddress":
        return {"t": "obj", "module": "whad.hub.esb", "cls": "EsbNodeAddress", "args": [{"t": "bytes", "v": b(4)}]}
    if kind == "NodeAddress":
        return {"t": "obj", "module": "whad.hub.dot15d4", "cls": "NodeAddress", "args": [{"t": "int", "v": 70 + i}, {"t": "int", "v": 1}]}
    if kind == "intlist":
        return {"t": "intlist", "v": [20 + i, 40 + i]}
    if kind == "byteslist":
        return {"t": "byteslist", "v": [b(2), b(5)]}
    if kind == "tuplelist":
        return {"t": "tuplelist", "v": [[50 + i, 60 + i]]}
    if kind == "bytes":
        return {"t": "bytes", "v": b(3)}
    if kind == "bool":
        return {"t": "bool", "v": True}
    return {"t": "int", "v": 10 + i}


SENTINEL_PROJ = {"BDAddress": [".value"], "ChannelMap": [".value"], "EsbNodeAddress": [".value"], "NodeAddress": [".address"]}


def flat_values(o):
    out = set()
    for j in o.get("fields", {}).values():
        if not j:
            continue
        for s_ in ([j["s"]] if "s" in j else j.get("list", []) + [s2 for r in j.get("recs", []) for _n, s2 in r]):
            out.add(json.dumps(s_, sort_keys=True))
    return out


def sentinel_oracle(f, argspecs, res):
    """generic form of the property for a factory outside the grammar: no exception, same kind,
    every given (non-bool) argument value found among the parsed field values"""
    if "exc" in res:
        return [("factory raised %s at %s on sentinel arguments" % (res["exc"], res.get("stage")), "a message", res["exc"])]
    o = res["obs"]
    if "cls" not in o or o["cls"] != res.get("created"):
        return [("serialised message does not parse back to a message of the created kind", res.get("created"), o)]
    have = flat_values(o)
    for p in f["param_info"]:
        spec = argspecs.get(p["name"])
        if spec is None or spec["t"] == "bool":
            continue
        want = []
        if spec["t"] == "obj":
            for k, jv_ in ref_entries(spec).items():
                if k.startswith(".") and "s" in jv_ and "b" not in jv_["s"]:
                    want.append(jv_["s"])
        elif spec["t"] == "int":
            want.append({"i": spec["v"]})
        elif spec["t"] == "bytes":
            want.append({"x": spec["v"]})
        elif spec["t"] == "intlist":
            alt = json.dumps({"x": bytes(spec["v"]).hex()}, sort_keys=True)
            if alt in have:
                continue
            want += [{"i": x} for x in spec["v"]]
        elif spec["t"] == "byteslist":
            want += [{"x": x} for x in spec["v"]]
        elif spec["t"] == "tuplelist":
            want += [{"i": y} for x in spec["v"] for y in x]
        missing = [w for w in want if json.dumps(w, sort_keys=True) not in have]
        if missing:
            return [("argument '%s' is not carried by the message" % p["name"], missing, sorted(have)[:12])]
    return []


# -- raw protobuf wire encoding (for the malformed stream; stdlib only) --------------------------

def varint(n):
    out = bytearray()
    n &= (1 << 64) - 1
    while True:
        b = n & 0x7f
        n >>= 7
        out.append(b | (0x80 if n else 0))
        if not n:
            return bytes(out)


def ld(num, payload):
    return varint((num << 3) | 2) + varint(len(payload)) + payload


def vi(num, n):
    return varint(num << 3) + varint(n)


def gen_parse_cases(ctx, S, valid_wires):
    rng, cases = ctx.rng, []
    versions = list(range(1, S.maxv + 1))
    def add(b, kind):
        cases.append((rng.choice(versions), bytes(b).hex(), kind))
    add(b"", "empty")
    rootf = S.messages[S.root]
    for f in rootf:
        add(ld(f["num"], b""), "domain-only")                         # inner oneof stripped
        add(ld(f["num"], vi(1000, 1)), "domain-unknown-field")
        add(ld(f["num"], ld(500, b"\x01\x02")), "domain-unknown-member")
        if "msg" in f["ty"]:
            for sf in S.messages[f["ty"]["msg"]]:
                if "msg" in sf["ty"]:
                    add(ld(f["num"], ld(sf["num"], b"")), "member-empty")
                    add(ld(f["num"], ld(sf["num"], vi(900, 7))), "member-unknown-field")
                else:
                    add(ld(f["num"], vi(sf["num"], rng.choice([0, 1, 3]))), "scalar-member")
    add(ld(15, b"abc"), "unknown-top-level")
    add(vi(1, 1), "wrong-wire-type")
    add(vi(3, 5) + vi(99, 2), "wrong-wire-type")
    # cmd_result with every small result code, prepare without / with unknown trigger
    g = next((f for f in rootf if f["name"] == "generic"), None)
    if g:
        for code in list(range(0, 9)) + [99, 2 ** 31 - 1]:
            add(ld(g["num"], ld(2, vi(1, code))), "cmd-result-code")
    b = next((f for f in rootf if f["name"] == "ble"), None)
    if b:
        add(ld(b["num"], ld(35, vi(2, 7))), "prepare-no-trigger")
        add(ld(b["num"], ld(35, ld(1, b"") + vi(2, 7))), "prepare-empty-trigger")
        add(ld(b["num"], ld(35, ld(1, ld(9, b"")) + vi(2, 7))), "prepare-unknown-trigger")
    wires = [w for w in valid_wires if w]
    n = 2500 if ctx.thorough else 120
    for _ in range(n):
        w = bytes.fromhex(rng.choice(wires)) if wires else b"\x1a\x00"
        k = rng.randrange(7)
        if k == 0:
            add(w[:rng.randrange(0, len(w))], "truncated")
        elif k == 1:
            i = rng.randrange(len(w))
            add(w[:i] + bytes([w[i] ^ (1 << rng.randrange(8))]) + w[i + 1:], "bit-flip")
        elif k == 2:
            add(w + vi(rng.choice([8, 9, 100, 2000]), rng.randrange(100)), "unknown-field-appended")
        elif k == 3:
            w2 = bytes.fromhex(rng.choice(wires))
            add(w + w2, "two-messages-merged")
        elif k == 4:
            add(bytes(rng.randrange(256) for _ in range(rng.randrange(1, 40))), "random")
        elif k == 5:
            add(bytes(rng.choice([0x0a, 0x12, 0x1a, 0x22, 0x2a, 0x32, 0x3a, 0x00, 0x01, 0x02, 0x08, 0xff, 0x80]) for _ in range(rng.randrange(1, 12))), "random-taggy")
        else:
            add(w, "valid")
    return cases


def helper_cases():
    """boundary inputs of the conversion operators: (operator, raw value, module, class, constructor args, projection)"""
    out = []
    lists = [[i] for i in range(40)] + [[], list(range(38)), list(range(37)), [0, 37], [31, 32], [36, 37], [7, 8, 15, 16, 23, 24]]
    for l in lists:
        out.append(("chanmap_bytes", jv(l), "whad.hub.ble", "ChannelMap", [{"t": "intlist", "v": l}], ".value"))
    for s_ in ("00:11:22:33:44:55", "ff:ff:ff:ff:ff:ff", "01:00:00:00:00:00", "00:00:00:00:00:80", "AA:bb:CC:dd:EE:0f"):
        out.append(("bdaddr_bytes", jv(bytes.fromhex(s_.replace(":", ""))), "whad.hub.ble", "BDAddress", [{"t": "str", "v": s_}], ".value"))
    for b in ("001122334455", "ffffffffff00"):
        out.append(("bdaddr_bytes", jv(bytes.fromhex(b)[::-1]), "whad.hub.ble", "BDAddress", [{"t": "bytes", "v": b}], ".value"))
    return out


def gen_sequences(ctx, S, wires, fcases):
    """several parse / create calls on ONE hub instance (messages returned by different calls are independent)"""
    rng, out = ctx.rng, []
    wires = [w for w in wires if w]
    if not wires:
        return out
    versions = list(range(1, S.maxv + 1))
    junk = ["", "ff", "0a", "1a00", "0801", "1a029a02"]
    for k in range(300 if ctx.thorough else 60):
        v = rng.choice(versions)
        steps = []
        for _ in range(rng.randrange(2, 7)):
            r = rng.random()
            if r < 0.6:
                steps.append({"op": "parse", "data": rng.choice(wires)})
            elif r < 0.75:
                steps.append({"op": "parse", "data": rng.choice(junk)})
            elif fcases:
                c = rng.choice(fcases)
                steps.append({"op": "factory", "dom": c[1], "factory": c[2], "args": c[3]})
        if k % 3 == 0:      # the same message parsed twice: two independent results
            steps.append(dict(steps[0]))
        out.append((v, steps))
    return out


# ---------------------------------------------------------------------------------------------
# oracle (python side): the property on the implementation's outputs
# ---------------------------------------------------------------------------------------------

def norm_jval(j):
    return json.dumps(j, sort_keys=True)


def same_value(obs_j, exp_j):
    if obs_j is None or exp_j is None:
        return obs_j is None and exp_j is None
    return norm_jval(obs_j) == norm_jval(exp_j)


def eval_expr(e, argspecs, proj):
    """value an op must carry, computed from the RAW argument data by the harness's own reference semantics
    (`proj` = ref_entries per parameter; nothing here comes from the code's helper classes)"""
    if "const" in e:
        return e["const"]
    if "conv" in e:
        op, p, rk, d = e["conv"][:4]
        if argspecs.get(p) is None:
            return d
        return py_conv(op, proj.get(p, {}).get(rk))
    key = "proj" if "proj" in e else "projdef" if "projdef" in e else "cond"
    p, k = e[key][0], e[key][1]
    if argspecs.get(p) is None:
        return e["projdef"][2] if key == "projdef" else None
    pv = proj.get(p, {}).get(k)
    if pv is None or "exc" in pv or "unknown" in pv:
        return None
    if key == "cond":
        return e["cond"][2] if pv.get("s", {}).get("b") else e["cond"][3]
    return pv


def sval_class(s):
    return "b" if "b" in s else "x" if "x" in s else "i"


def kind_class(kind):
    return "b" if kind == "KBool" else "x" if kind == "KBytes" else "i"


def admissible_value(S, fd, j, lenient=False):
    """value within the range of the field.  lenient (factory arguments, whose class of value follows the
    signature): a value of another class than the field's is not the caller's fault -> admissible."""
    if j is None:
        return False
    def ok(kind, s):
        if lenient and sval_class(s) != kind_class(kind) and not (kind == "KBool" and "i" in s):
            return True
        if kind == "KBool":
            return "b" in s
        if kind == "KBytes":
            return "x" in s
        return "i" in s and kind in RANGES and RANGES[kind][0] <= s["i"] <= RANGES[kind][1]
    if fd["rep"]:
        if "msg" in fd["ty"]:
            sf = dict(S.scalar_fields(fd["ty"]["msg"]))
            return "recs" in j and all(n in sf and ok(sf[n], s) for r in j["recs"] for n, s in r)
        return "list" in j and all(ok(fd["ty"]["scalar"], s) for s in j["list"])
    return "s" in j and "scalar" in fd["ty"] and ok(fd["ty"]["scalar"], j["s"])


def norm_recs(S, fd, j):
    if j is not None and "recs" in j and "msg" in fd["ty"]:
        sf = S.scalar_fields(fd["ty"]["msg"])
        out = []
        for r in j["recs"]:
            d = dict((n, s) for n, s in r)
            out.append([[n, d.get(n, default_jval({"rep": False, "ty": {"scalar": k}})["s"])] for n, k in sf])
        return {"recs": out}
    return j


def factory_oracle(S, f, v, argspecs, res):
    """-> list of (what, expected, observed) failures of the property for one factory call"""
    fails = []
    cid = S.bound(f["reg"], f["target"], v)
    cl = S.classes.get(cid, {})
    attrs = {a["name"]: a for a in cl.get("attrs", [])}
    ak = all_keys(f)
    proj = {p: ref_entries(sp, ak.get(p, ())) for p, sp in argspecs.items() if sp is not None}
    eff = [o for o in f["ops"] if o["guard"] is None or argspecs.get(o["guard"]) is not None]
    # admissibility of the call: every carried value fits the protobuf field it is bound to
    carried = {}
    adm = True
    for o in eff:
        val = eval_expr(o["e"], argspecs, proj)
        carried[o["attr"]] = val
        at = attrs.get(o["attr"])
        if at is not None:
            fd = S.resolve(at["path"])
            if fd is None or not admissible_value(S, fd, val, lenient=True):
                adm = False
    if "exc" in res:
        if adm:
            fails.append(("factory raised %s at %s on admissible arguments" % (res["exc"], res.get("stage")), "a message", res["exc"]))
        return fails, adm
    if not adm:
        fails.append(("factory accepted an argument outside the range of the field it is bound to", "an exception", "message built"))
        return fails, adm
    o = res["obs"]
    if "exc" in o:
        fails.append(("hub.parse raised " + o["exc"], "a message", o["exc"]))
        return fails, adm
    if "none" in o:
        fails.append(("serialised message parses back to None (no message)", res.get("created"), None))
        return fails, adm
    if o["cls"] != res.get("created"):
        fails.append(("parsed message is not of the created kind", res.get("created"), o["cls"]))
        return fails, adm
    later = set()
    for v2 in range(v + 1, S.maxv + 2):
        c2 = S.classes.get(S.bound(f["reg"], f["target"], v2), {})
        later |= {a["name"] for a in c2.get("attrs", [])}
    for op in eff:
        a = op["attr"]
        if a not in o["fields"]:
            if a not in later:
                fails.append(("argument bound to '%s' is dropped: the message declares no such field" % a, carried.get(a), None))
            continue
        fd = S.resolve(attrs[a]["path"]) if a in attrs else None
        exp = norm_recs(S, fd, carried.get(a)) if fd else carried.get(a)
        if not same_value(o["fields"][a], exp):
            fails.append(("field '%s' does not carry the argument value" % a, exp, o["fields"][a]))
    targeted = {op["attr"] for op in eff}
    for a, at in attrs.items():
        if a in targeted:
            continue
        fd = S.resolve(at["path"])
        if fd is None:
            continue
        exp = None if (fd["pres"] and not fd["rep"]) else default_jval(fd)
        if not same_value(o["fields"].get(a), exp):
            fails.append(("unset field '%s' is not reported as unset" % a, exp, o["fields"].get(a)))
    for p in f["params"]:
        if argspecs.get(p["name"]) is None:
            continue
        carriers = [op for op in eff if (expr_ref(op["e"]) or [None])[0] == p["name"]]
        if not carriers:
            fails.append(("parameter '%s' flows to no field" % p["name"], "carried", None))
    return fails, adm


def wrapper_oracle(S, v, reg, name, kw, res):
    """class-level form of the property, used by the search when an obligation broke"""
    fails = []
    cid = S.bound(reg, name, v)
    cl = S.classes.get(cid, {})
    if cl.get("kind") != "CWrap":
        return fails
    attrs = {a["name"]: a for a in cl["attrs"]}
    adm = all(a not in attrs or (S.resolve(attrs[a]["path"]) is not None and admissible_value(S, S.resolve(attrs[a]["path"]), j)) for a, j in kw)
    if "exc" in res:
        if adm:
            fails.append(("constructor raised %s on admissible field values" % res["exc"], "a message", res["exc"]))
        return fails
    if not adm:
        fails.append(("constructor accepted a value outside the field's range", "an exception", "message built"))
        return fails
    o = res["obs"]
    if "exc" in o or "none" in o:
        fails.append(("created message does not parse back to a message", cid, o))
        return fails
    if o["cls"] != res.get("created"):
        fails.append(("parsed message is not of the created kind", res.get("created"), o["cls"]))
        return fails
    given = dict(kw)
    for a, at in attrs.items():
        fd = S.resolve(at["path"])
        if fd is None:
            continue
        if a in given:
            exp = norm_recs(S, fd, given[a])
        else:
            exp = None if (fd["pres"] and not fd["rep"]) else default_jval(fd)
        if not same_value(o["fields"].get(a), exp):
            fails.append(("field '%s' does not read back" % a, exp, o["fields"].get(a)))
    return fails


# ---------------------------------------------------------------------------------------------
# run
# ---------------------------------------------------------------------------------------------

PRE0 = ("From Whad Require Import C02.Model.\nRequire Import C02Schema.\nOpen Scope string_scope.\nOpen Scope list_scope.\n"
        "Definition chk_w := check_wrapper schema.\nDefinition chk_f := check_factory schema.\nDefinition chk_p := check_parse schema.\n")


def generated_obligations(ctx, d, proofs_ok):
    """wf_schema on the regenerated schema + instantiation of the theorems at it."""
    body = ["From Coq Require Import List NArith ZArith Bool String.", "From Whad Require Import C02.Model."]
    if proofs_ok:
        body.append("From Whad Require Import C02.Property.")
    body += ["Require Import C02Schema.",
             "Theorem C02_schema_wf : wf_schema schema = true.", "Proof. vm_compute. reflexivity. Qed."]
    names = ["C02_schema_wf"]
    if proofs_ok:
        import re as _re
        src = open(os.path.join(C.COQ, "theories", PID, "Property.v")).read()
        for t in _re.findall(r"Theorem\s+(\w+)\s*:\s*forall S, wf_schema S = true ->", src):
            body.append("Definition inst_%s := %s schema C02_schema_wf." % (t, t))
            names.append("inst_" + t)
    for n in names:
        body.append('Goal True. idtac "BEGIN %s". Abort.' % n)
        body.append("Print Assumptions %s." % n)
        body.append('Goal True. idtac "END %s". Abort.' % n)
    fn = os.path.join(d, "C02Obligations.v")
    with open(fn, "w") as f:
        f.write("\n".join(body) + "\n")
    rc, out = C.coqc_file(fn, timeout=600)
    ctx.cov["obligations"] += len(names)
    if rc != 0:
        return False, out
    import re
    closed = 0
    for n in names:
        m = re.search(r"BEGIN %s\n(.*?)END %s" % (n, n), out, re.S)
        if m and m.group(1).strip().startswith("Closed under the global context"):
            closed += 1
    ctx.cov["discharged"] += closed
    ctx.cov.setdefault("theorems", {}).update({n: "closed" for n in names})
    if closed != len(names):
        return False, "generated obligations with assumptions:\n" + out[-2000:]
    return True, "%d generated obligations closed" % len(names)


def run(ctx):
    d = C.build_dir(PID, clean=True)
    ctx.cov["trusted_base"] = [
        "Coq 8.16.1 kernel + vm_compute (no native_compute); every theorem closed under the global context (Print Assumptions checked each run)",
        "translator harness/translators/C02_schema.py (import-time introspection + ast; fail-closed) and the reading of its grammar in C02/Model.v; validated each run by the correspondence (model built from the regenerated schema vs the real hub on the same inputs)",
        "hand-written semantics C02/Model.v (proto3 presence, oneof exclusion, set/get through PbField paths, Registry.bound, parse dispatch) tied to whad/hub/message.py, registry.py, __init__.py by the correspondence of this run",
        "google.protobuf wire codec: Section hypothesis parse_bytes (serialize m) = Decoded (canon m); exercised on every case (the real serialisation is decoded and compared with canon of the model's message inside Coq)",
        "helper argument classes (BDAddress, ChannelMap, NodeAddress, EsbNodeAddress) enter only through the projections the factories read (.value, .is_public(), ...), measured on the real objects",
    ]
    ctx.assumptions = ["protocol version >= 1", "keyword values / arguments within the range of the protobuf field they are bound to (otherwise the constructor raises; checked)",
                       "parse_bytes (serialize m) = Decoded (canon m) and parse_bytes total (google.protobuf)"]
    # ---- 0. translator --------------------------------------------------------------------
    js, err = run_translator(os.path.join(d, "C02Schema.v"))
    ctx.cov["obligations"] += 1
    if js is None:
        ctx.broken_obligation("translator C02_schema.py failed", err)
        return
    S = Schema(js)
    ctx.cov["discharged"] += 0 if js["errors"] else 1
    ctx.cov["source_ties"] = [{k: t[k] for k in t if k != "what"} | {"what": t["what"]} for t in js["ties"]][:400]
    ctx.cov["translator"] = {"classes": len(js["classes"]), "kinds": {k: sum(1 for c in js["classes"].values() if c["kind"] == k) for k in sorted({c["kind"] for c in js["classes"].values()})},
                             "registrations": len(js["regs"]), "factories": len(js["factories"]),
                             "opaque_factories": [[f["dom"], f["name"], f["why"]] for f in js["opaque_factories"]],
                             "flags": js["flags"], "errors": js["errors"], "schema_sha256": js["coq_sha256"]}
    ctx.log("translator: %d classes, %d registrations, %d factories (+%d opaque), errors=%d" % (
        len(js["classes"]), len(js["regs"]), len(js["factories"]), len(js["opaque_factories"]), len(js["errors"])))

    # ---- 1. proofs ------------------------------------------------------------------------------
    proofs_ok, detail = ctx.check_proofs()
    ctx.log("proofs:", proofs_ok, detail.splitlines()[0][:200])
    rc, out = C.coqc_file(os.path.join(d, "C02Schema.v"), timeout=300)
    schema_ok = (rc == 0)
    wf_ok, wf_detail, report = False, "", None
    if schema_ok:
        wf_ok, wf_detail = generated_obligations(ctx, d, proofs_ok)
        ctx.log("generated obligations:", wf_ok, wf_detail.splitlines()[0][:160])
        if not wf_ok:
            try:
                report = C.coq_eval(PID, "wf_report", "From Whad Require Import C02.Model.\nRequire Import C02Schema.", ["wf_report schema"])[0]
            except C.CheckBroken as e:
                report = "wf_report failed: %s" % e
            ctx.log("wf_report:", report[:1500])
        try:
            ctx.cov["kind_mismatches_harmless"] = C.coq_eval(PID, "kinds", "From Whad Require Import C02.Model.\nRequire Import C02Schema.", ["kind_mismatches schema"])[0]
        except C.CheckBroken:
            pass
    else:
        wf_detail = "generated C02Schema.v does not compile:\n" + out[-2000:]
        ctx.log(wf_detail[:600])

    # ---- 2./3. generation + implementation ----------------------------------------------------
    wcases = gen_wrapper_cases(ctx, S)
    fcases = gen_factory_cases(ctx, S)
    fspec = {(f["dom"], f["name"]): f for f in js["factories"]}
    ospec = {(f["dom"], f["name"]): f for f in js["opaque_factories"]}
    unexpected_opaque = sorted(set(ospec) - PINNED_OPAQUE)
    cdir = os.path.join(C.VERIF, "corpus", PID)
    corpus_parse = []
    for fn in sorted(os.listdir(cdir)) if os.path.isdir(cdir) else []:
        if fn.endswith(".json"):
            w = json.load(open(os.path.join(cdir, fn)))
            for item in w.get("parse", []):
                corpus_parse.append((item[0], item[1], "corpus:" + fn))
            for item in w.get("factory", []):
                sig = fspec.get((item[1], item[2])) or {"params": ospec.get((item[1], item[2]), {}).get("param_info")}
                names = {p["name"] for p in (sig.get("params") or [])}
                need = {p["name"] for p in (sig.get("params") or []) if not p["has_default"]}
                if sig.get("params") is None or not (need <= set(item[3]) <= names):
                    ctx.cov.setdefault("stale_corpus_cases", []).append([fn, item[1], item[2]])   # signature changed since
                    continue
                fcases.insert(0, (item[0], item[1], item[2], item[3], "corpus:" + fn))
    req = {"wrapper": [[v, reg, name, dict(kw)] for v, reg, name, kw, _k in wcases],
           "factory": [[v, dom, fname, argspec, proj_keys(fspec[(dom, fname)]) if (dom, fname) in fspec else
                        {p["name"]: SENTINEL_PROJ.get(annotation_kind(p.get("ann")), []) for p in (ospec.get((dom, fname), {}).get("param_info") or [])}]
                       for v, dom, fname, argspec, _k in fcases], "parse": []}
    r1 = C.run_impl("C02.py", req)
    wires = [r["wire"] for r in r1["wrapper"] if "wire" in r] + [r["wire"] for r in r1["factory"] if "wire" in r]
    pcases = corpus_parse + gen_parse_cases(ctx, S, wires)
    hcases = helper_cases()
    scases = gen_sequences(ctx, S, wires, [c for c in fcases if c[4] in ("all-args", "one-optional", "optionals-absent")])
    r2 = C.run_impl("C02.py", {"parse": [[v, hx] for v, hx, _k in pcases], "sequence": [[v, steps] for v, steps in scases],
                                "helpers": [[m_, c_, a_, k_] for _op, _raw, m_, c_, a_, k_ in hcases]})
    rw, rf, rp, rs, rh = r1["wrapper"], r1["factory"], r2["parse"], r2["sequence"], r2["helpers"]
    # the code's helper classes against the harness's reference semantics (they never feed the expected values)
    helper_bad = []
    for (op, raw, m_, c_, a_, k_), r in zip(hcases, rh):
        exp = py_conv(op, raw)
        got = r.get("v")
        if not same_value(got, exp):
            helper_bad.append({"helper": "%s.%s%s" % (m_, c_, k_), "args": a_, "reference": exp, "live": r})
    for i, (v, dom, fname, argspec, kind) in enumerate(fcases):
        for p_, pr in rf[i].get("proj", {}).items():
            ref = ref_entries(argspec[p_]) if argspec.get(p_) else {}
            for k_, got in pr.items():
                if k_ in ref and "exc" not in got and not same_value(got, ref[k_]) and len(helper_bad) < 50:
                    helper_bad.append({"helper": "argument %s%s of %s.%s" % (p_, k_, dom, fname), "args": argspec[p_], "reference": ref[k_], "live": got})
    ctx.cov["helper_conversions_checked"] = len(hcases)
    ctx.cov["helper_conversion_mismatches"] = helper_bad[:10]
    if helper_bad:
        ctx.log("helper classes disagree with the reference semantics: %d, first %s" % (len(helper_bad), json.dumps(helper_bad[0])[:300]))
    ctx.log("implementation: %d wrapper, %d factory, %d parse cases" % (len(rw), len(rf), len(rp)))
    ctx.cov["evaluations"] = len(rw) + len(rf) + len(rp) + len(rs)
    ctx.cov["traces_validated_against_impl"] = len(rw) + len(rf) + len(rp) + len(rs)

    # ---- 4. oracle ------------------------------------------------------------------------------
    n_inadm, n_dup, seen_fail = 0, 0, set()
    for i, (v, dom, fname, argspec, kind) in enumerate(fcases):
        res = rf[i]
        case = {"op": "factory", "version": v, "domain": dom, "factory": fname, "args": argspec, "kind": kind}
        if (dom, fname) in fspec:
            fails, adm = factory_oracle(S, fspec[(dom, fname)], v, argspec, res)
            n_inadm += 0 if adm else 1
            for what, exp, obs in fails[:1]:
                if (dom, fname, what) in seen_fail:     # one replay per factory and failure, the first (smallest) case
                    n_dup += 1
                    continue
                seen_fail.add((dom, fname, what))
                ctx.violation("%s.%s (version %d): %s" % (dom, fname, v, what), case, expected=exp, observed=obs)
        elif kind.startswith("opaque-falsy:"):
            pname = kind.split(":", 1)[1]
            def find(k2, pred):
                for j, c2 in enumerate(fcases):
                    if c2[0] == v and c2[1] == dom and c2[2] == fname and c2[4] == k2 and pred(c2[3]):
                        return rf[j]
                return None
            opt_names = [q["name"] for q in ospec[(dom, fname)]["param_info"] if q["default_none"]]
            r_abs = find("opaque-sentinel", lambda a: all(a.get(o_) is None for o_ in opt_names))
            r_sen = find("opaque-sentinel", lambda a: a.get(pname) is not None and all(a.get(o_) is None for o_ in opt_names if o_ != pname))
            if r_abs is not None and r_sen is not None:
                for what, exp, obs in falsy_oracle(ospec[(dom, fname)], pname, r_abs, r_sen, res)[:1]:
                    if (dom, fname, what) in seen_fail:
                        n_dup += 1
                        continue
                    seen_fail.add((dom, fname, what))
                    ctx.violation("%s.%s (version %d, outside the translator grammar): %s" % (dom, fname, v, what), case, expected=exp, observed=obs)
        elif kind == "opaque-sentinel":
            for what, exp, obs in sentinel_oracle(ospec[(dom, fname)], argspec, res)[:1]:
                if (dom, fname, what) in seen_fail:
                    n_dup += 1
                    continue
                seen_fail.add((dom, fname, what))
                ctx.violation("%s.%s (version %d, outside the translator grammar): %s" % (dom, fname, v, what), case, expected=exp, observed=obs)
        else:   # pinned opaque factory: the outcome class and what the property names
            code = argspec.get("result_code", {}).get("v")
            if "exc" in res:
                if code is not None and 0 <= code <= 6:
                    ctx.violation("%s.%s (version %d) raised %s on an admissible argument" % (dom, fname, v, res["exc"]), case, observed=res)
            else:
                o = res["obs"]
                if "cls" not in o or o["cls"] != res.get("created") or o.get("result_code") != code or res.get("created_result_code") != code:
                    ctx.violation("%s.%s (version %d): result code / kind not preserved" % (dom, fname, v), case, expected=code, observed=o)
    for i, (v, hx, kind) in enumerate(pcases):
        o = rp[i]["obs"]
        if "exc" in o:
            if ("parse", o["exc"], kind) in seen_fail:
                n_dup += 1
                continue
            seen_fail.add(("parse", o["exc"], kind))
            ctx.violation("hub.parse raised %s on a byte string" % o["exc"], {"op": "parse", "version": v, "data": hx, "kind": kind},
                          expected="a message or None", observed=o["exc"])
    n_seq_steps = 0
    for i, (v, steps) in enumerate(scases):
        r = rs[i]
        for k, (a, b) in enumerate(zip(r["first"], r["last"])):
            n_seq_steps += 1
            if "exc" in a and "cls" not in a:
                if steps[k]["op"] == "parse" and ("seq", "exc", a["exc"]) not in seen_fail:
                    seen_fail.add(("seq", "exc", a["exc"]))
                    ctx.violation("hub.parse raised %s in a sequence of calls on one hub" % a["exc"],
                                  {"op": "sequence", "version": v, "steps": steps, "step": k}, expected="a message or None", observed=a["exc"])
                continue
            if json.dumps(a, sort_keys=True) != json.dumps(b, sort_keys=True):
                what = "message returned by %s no longer holds its values after later calls on the same hub" % (
                    "parse()" if steps[k]["op"] == "parse" else steps[k]["dom"] + "." + steps[k]["factory"])
                if ("seq", what) in seen_fail:
                    n_dup += 1
                    continue
                seen_fail.add(("seq", what))
                ctx.violation(what, {"op": "sequence", "version": v, "steps": steps, "step": k}, expected=a, observed=b)
    n_oracle = len(ctx.violations)
    ctx.log("oracle: %d distinct failures (+%d further failing inputs of the same factory and kind)" % (n_oracle, n_dup))
    ctx.cov["oracle_failing_inputs"] = n_oracle + n_dup

    # ---- 5. correspondence inside Coq --------------------------------------------------------
    bad_w = bad_f = bad_p = bad_h = []
    logs, seq_meta = [], []
    corr_err = None
    widx, fidx = [], []
    if schema_ok:
        try:
            wterms = []
            for i, (v, reg, name, kw, kind) in enumerate(wcases):
                wterms.append("(%s, %s, %s, %s, %s)" % (cnat(v), cstr(reg), cstr(name), ckw(kw), ccobs(rw[i])))
                widx.append(i)
            fterms = []
            for i, (v, dom, fname, argspec, kind) in enumerate(fcases):
                if (dom, fname) not in fspec:
                    continue
                params = [p["name"] for p in fspec[(dom, fname)]["params"]]
                fterms.append("(%s, %s, %s, %s, %s)" % (cnat(v), cstr(dom), cstr(fname), cargs(params, argspec, all_keys(fspec[(dom, fname)])), ccobs(rf[i])))
                fidx.append(i)
            pterms = []
            for i, (v, hx, kind) in enumerate(pcases):
                dec = rp[i]["decoded"]
                pterms.append("(%s, %s, %s)" % (cnat(v), "DecodeError" if dec is None else "(Decoded %s)" % cpb(dec), cobs(rp[i]["obs"])))
            seq_terms, seq_meta = [], []
            for i, (v, steps) in enumerate(scases):
                for k, st in enumerate(steps):
                    dec, last = rs[i]["decoded"][k], rs[i]["last"][k]
                    if st["op"] != "parse" or dec is None:
                        continue
                    o = last if ("cls" in last or "none" in last) else {"exc": last.get("exc", "?")}
                    seq_terms.append("(%s, %s, %s)" % (cnat(v), "DecodeError" if dec == "DecodeError" else "(Decoded %s)" % cpb(dec), cobs(o)))
                    seq_meta.append((i, k))
            hterms = []
            for (op, raw, m_, c_, a_, k_), r in zip(hcases, rh):
                got = r.get("v")
                hterms.append("(%s, %s, %s)" % (cstr(op), cvalue(raw), "None" if (got is None or "unknown" in got or "exc" in got) else "(Some %s)" % cvalue(got)))
            n_single = len(pterms)
            pterms += seq_terms
            PRE = PRE0 + intern_defs() + "\nOpen Scope N_scope."
            bad_w, l1 = C.run_cases(PID, "wrap", PRE, "nat * string * string * list (string * value) * cobs", wterms, "chk_w", shard=400, max_chars=380000)
            bad_f, l2 = C.run_cases(PID, "fact", PRE, "nat * string * string * args * cobs", fterms, "chk_f", shard=400, max_chars=380000)
            bad_p, l3 = C.run_cases(PID, "parse", PRE, "nat * decoded * obs", pterms, "chk_p", shard=400, max_chars=380000)
            bad_h, l4 = C.run_cases(PID, "conv", PRE, "string * value * option value", hterms, "check_conv", shard=400)
            logs = l1 + l2 + l3 + l4
        except C.CheckBroken as e:
            corr_err = str(e)
    ctx.log("correspondence: wrapper %d/%d bad, factory %d/%d bad, parse %d/%d bad, conversions %d/%d bad%s" % (
        len(bad_w), len(wcases), len(bad_f), len(fidx), len(bad_p), len(pcases) + len(seq_meta), len(bad_h), len(hcases), " ERROR " + corr_err[:300] if corr_err else ""))
    ctx.notes += logs[:6]
    for tag, bad, idx, cases in (("wrapper", bad_w, widx, wcases), ("factory", bad_f, fidx, fcases)):
        for b in bad[:4]:
            c = cases[idx[b]]
            ctx.log("  disagreement %s: version %s %s %s [%s]" % (tag, c[0], c[1].rsplit(".", 1)[-1], c[2], c[4]))

    # ---- coverage -----------------------------------------------------------------------------------
    def kinds(cases, pos):
        out = {}
        for c in cases:
            out[c[pos]] = out.get(c[pos], 0) + 1
        return out
    outcomes = {"msg": 0, "none": 0, "exc": 0}
    for r in rp:
        outcomes["msg" if "cls" in r["obs"] else "none" if "none" in r["obs"] else "exc"] += 1
    classes_hit = {r["obs"]["cls"] for r in rw + rf if "obs" in r and "cls" in r["obs"]}
    leaf = {cid for cid, c in js["classes"].items() if c["kind"] in ("CWrap", "CFixed") and any(rr["cls"] == cid for rr in js["regs"])}
    ctx.cov["distinct_nontrivial"] = C.distinct_count(
        [["w", v, reg, name, kw] for v, reg, name, kw, k in wcases if kw] +
        [["f", v, dom, fname, a] for v, dom, fname, a, k in fcases if a] + [["p", v, hx] for v, hx, k in pcases if hx])
    ctx.cov["rule"] = ("wrapper cases: every registered message class x versions x keyword tuples (none, all, all-default, range ends, single field, random subsets, undeclared keyword, "
                       "out-of-range); factory cases: every factory x versions x argument tuples (range ends 0/1/2^31/2^32-1/2^63/2^64-1, empty/long bytes, each optional present/absent, "
                       "repeated length 0/1/many); parse cases: structured malformed stream. Non-trivial = at least one keyword / argument / byte; distinct by content hash")
    ctx.cov["distribution"] = {"wrapper_cases": len(wcases), "wrapper_kinds": kinds(wcases, 4), "factory_cases": len(fcases),
                               "factory_kinds": kinds(fcases, 4), "factory_inadmissible_calls": n_inadm,
                               "parse_cases": len(pcases), "parse_kinds": kinds(pcases, 2), "parse_outcomes": outcomes,
                               "sequences_on_one_hub": len(scases), "sequence_steps_read_twice": n_seq_steps,
                               "versions": sorted({c[0] for c in wcases}), "message_classes_parsed_back": len(classes_hit),
                               "registered_message_classes": len(leaf),
                               "uncovered_branches": sorted(leaf - classes_hit)[:40],
                               "construction_raised": sum(1 for r in rw + rf if "exc" in r)}
    if wcases and fcases and pcases:
        ctx.cov["samples"] = [{"wrapper": list(wcases[1][:4]), "impl": {k: rw[1].get(k) for k in ("wire", "obs", "exc")}},
                              {"factory": list(fcases[0][:4]), "impl": {k: rf[0].get(k) for k in ("wire", "obs", "exc", "proj")}},
                              {"parse": list(pcases[-1][:2]), "impl": rp[-1]["obs"]}]
    ctx.cov["correspondence"] = {"wrapper": [len(wcases), len(bad_w)], "factory": [len(fidx), len(bad_f)],
                                 "parse": [len(pcases), len([b for b in bad_p if b < len(pcases)])],
                                 "sequence_parse_steps": [len(seq_meta), len([b for b in bad_p if b >= len(pcases)])]}

    # ---- 6. verdict -----------------------------------------------------------------------------------
    broken = (not proofs_ok) or (not wf_ok) or bool(js["errors"]) or bad_w or bad_f or bad_p or bad_h or helper_bad or corr_err or unexpected_opaque
    if broken and not ctx.violations:
        # search: class-level form of the property on every wrapper case (sentinel instantiation)
        for i, (v, reg, name, kw, kind) in enumerate(wcases):
            if kind in ("inadmissible", "undeclared-kw"):
                continue
            for what, exp, obs in wrapper_oracle(S, v, reg, name, kw, rw[i])[:1]:
                ctx.violation("%s '%s' (version %d): %s" % (reg.rsplit(".", 1)[-1], name, v, what),
                              {"op": "wrapper", "version": v, "registry": reg, "name": name, "kwargs": kw, "kind": kind}, expected=exp, observed=obs)
                break
            if len(ctx.violations) >= 5:
                break
    if broken and not ctx.violations:
        first, what = None, None
        if js["errors"]:
            what, det = "translator items: " + "; ".join(js["errors"])[:300], "\n".join(js["errors"])
        elif unexpected_opaque:
            what = "factories outside the translator grammar (covered by no theorem): " + ", ".join(
                "%s.%s (%s)" % (d_, n_, ospec[(d_, n_)]["why"]) for d_, n_ in unexpected_opaque)[:400]
            det = what
        elif not schema_ok:
            what, det = "generated schema does not compile", wf_detail
        elif not wf_ok:
            what, det = "wf_schema schema = true no longer checks: " + (report or wf_detail)[:400], (report or "") + "\n" + wf_detail
        elif not proofs_ok:
            what, det = "proof obligations of theories/C02: " + detail.splitlines()[0][:200], detail
        elif corr_err:
            what, det = "correspondence could not be evaluated", corr_err
        elif (bad_h or helper_bad) and not (bad_w or bad_f or bad_p):
            what = "conversion operators vs the live helper classes (%d disagreements in Coq, %d against the python reference)" % (len(bad_h), len(helper_bad))
            det, first = json.dumps(helper_bad[:5]), (helper_bad[0] if helper_bad else {"op": "conv", "case": list(hcases[bad_h[0]][:2])})
        else:
            if bad_w:
                i = widx[bad_w[0]]
                first = {"op": "wrapper", "case": list(wcases[i]), "impl": rw[i]}
            elif bad_f:
                i = fidx[bad_f[0]]
                first = {"op": "factory", "case": list(fcases[i]), "impl": rf[i]}
            elif bad_p[0] < len(pcases):
                i = bad_p[0]
                first = {"op": "parse", "case": list(pcases[i]), "impl": rp[i]}
            else:
                i, k = seq_meta[bad_p[0] - len(pcases)]
                first = {"op": "sequence", "version": scases[i][0], "steps": scases[i][1], "step": k, "impl_last": rs[i]["last"][k]}
            what = "correspondence C02.Model vs hub (%d wrapper, %d factory, %d parse disagreements)" % (len(bad_w), len(bad_f), len(bad_p))
            det = "\n".join(logs)
        ctx.broken_obligation(what, det, first)


def replay(payload):
    case = payload.get("case") or payload.get("first_disagreeing_case")
    print(json.dumps(case)[:3000])
    if not case:
        print("no concrete case in this replay file:", payload.get("what"))
        return 0
    c = case.get("case", case)
    op = case.get("op")
    if op == "factory":
        if isinstance(c, list):
            v, dom, fname, argspec = c[0], c[1], c[2], c[3]
        else:
            v, dom, fname, argspec = c["version"], c["domain"], c["factory"], c["args"]
        r = C.run_impl("C02.py", {"factory": [[v, dom, fname, argspec, {}]]})
        print("implementation now:", json.dumps(r["factory"][0])[:3000])
    elif op == "wrapper":
        if isinstance(c, list):
            v, reg, name, kw = c[0], c[1], c[2], c[3]
        else:
            v, reg, name, kw = c["version"], c["registry"], c["name"], c["kwargs"]
        r = C.run_impl("C02.py", {"wrapper": [[v, reg, name, dict((a, j) for a, j in kw)]]})
        print("implementation now:", json.dumps(r["wrapper"][0])[:3000])
    elif op == "sequence":
        r = C.run_impl("C02.py", {"sequence": [[case["version"], case["steps"]]]})
        k = case.get("step", 0)
        print("step %d right after its call:" % k, json.dumps(r["sequence"][0]["first"][k])[:1500])
        print("step %d after the whole sequence:" % k, json.dumps(r["sequence"][0]["last"][k])[:1500])
    elif op == "parse":
        if isinstance(c, list):
            v, hx = c[0], c[1]
        else:
            v, hx = c["version"], c["data"]
        r = C.run_impl("C02.py", {"parse": [[v, hx]]})
        print("implementation now:", json.dumps(r["parse"][0])[:3000])
    return 0
