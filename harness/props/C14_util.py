"""Helpers of the C14 check (python3 stdlib only): Coq literals for terms / cases, a run_cases variant
with an extra -Q, the impl-side oracle."""
import os, re, subprocess
from harness import common as C
from harness.common import cbool, clist, copt

ADDR_I = ("11:22:33:44:55:66", 0)
ADDR_R = ("a1:b2:c3:d4:e5:f6", 1)
FUN = {"C1": 1, "S1": 2, "F4": 3, "F5a": 4, "F5b": 5, "F6": 6, "G2": 7, "E": 8}
OOB_METHODS = (2, 6)


def run_cases_Q(pid, name, preamble, case_type, cases, check_fn, qdir, qname="WhadRegen"):
    """Like C.run_cases for a small number of small cases, with an extra -Q."""
    d = C.build_dir(pid)
    fn = os.path.join(d, "%s_cases.v" % name)
    with open(fn, "w") as f:
        f.write("From Coq Require Import List NArith ZArith Bool String.\nImport ListNotations.\n" + preamble + "\n")
        f.write("Definition cases : list (%s) := [\n%s\n].\n" % (case_type, ";\n".join(cases)))
        f.write("Fixpoint bad_idx (i : nat) (l : list (%s)) : list nat :=\n"
                "  match l with [] => [] | c :: r => if %s c then bad_idx (S i) r else i :: bad_idx (S i) r end.\n"
                % (case_type, check_fn))
        f.write('Goal True. idtac "BEGIN_BAD". Abort.\nEval vm_compute in (List.length cases, bad_idx 0 cases).\n'
                'Goal True. idtac "END_BAD". Abort.\n')
    rc, out = C.coqc_file(fn, extra_Q=[(qdir, qname)], timeout=300)
    if rc != 0:
        raise C.CheckBroken("coqc failed on %s:\n%s" % (fn, out[-2000:]))
    m = re.search(r"BEGIN_BAD\s*=\s*\((\d+)%?n?a?t?,\s*\[(.*?)\]\)\s*:.*?END_BAD", out, re.S)
    if not m:
        raise C.CheckBroken("cannot parse coqc output of %s:\n%s" % (fn, out[-1500:]))
    return [int(x.replace("%nat", "")) for x in re.split(r"[;\s]+", m.group(2).strip()) if x.strip()]


# ---------------------------------------------------------------------------
# Coq literals
# ---------------------------------------------------------------------------

def cterm(t):
    k = t[0]
    if k == "B":
        return "(TBytes [%s])" % ";".join("%d" % b for b in bytes.fromhex(t[1]))
    if k == "Rnd":
        return "(TRnd %s %d %d)" % (cbool(t[1]), t[2], t[3])
    if k == "Rev":
        return "(TRev %s)" % cterm(t[1])
    if k == "Pad":
        return "(TPad %s)" % cterm(t[1])
    if k == "Dh":
        return "TDh"
    if k == "Pkx":
        return "(TPkx %s)" % cbool(t[1])
    if k in FUN:
        return "(TFun %d [%s])" % (FUN[k], "; ".join(cterm(x) for x in t[1:]))
    raise C.CheckBroken("unknown term kind %r" % (k,))


def cparams(p, handle=0):
    return ("{| a_lesc := %s; a_oob := %s; a_mitm := %s; a_bond := %s; a_iocap := %d; a_mks := %d; a_kd := %d; a_handle := %d |}"
            % (cbool(p["lesc"]), cbool(p["oob"]), cbool(p["mitm"]), cbool(p["bonding"]), p["iocap"], p["mks"], p["kd"], handle))


def cscript(u):
    return ("{| u_gen_i := %d; u_gen_r := %d; u_typed_i := %d; u_typed_r := %d; u_nc_i := %s; u_nc_r := %s |}"
            % (u["gen_i"], u["gen_r"], u["typed_i"], u["typed_r"], cbool(u["nc_i"]), cbool(u["nc_r"])))


def addr_bytes(a):
    return [int(x, 16) for x in a.split(":")]


def cenv(case, res):
    ll = [res["sides"][0]["ll_rand"], res["sides"][1]["ll_rand"]]
    ed = case.get("ediv") or [0x1234, 0x2345]      # EDIV drawn by each side (scripted)
    bv = "[%s]" % "; ".join("(%s, %d, %d)" % (cbool(sd), pp, byte) for sd, pp, byte in case.get("bv", []))
    return ("{| e_addr_i := [%s]; e_atype_i := %d; e_addr_r := [%s]; e_atype_r := %d; e_skdm := %d; e_skds := %d; "
            "e_ediv_i := %d; e_ediv_r := %d; e_bv := %s |}"
            % (";".join("%d" % b for b in addr_bytes(ADDR_I[0])), ADDR_I[1],
               ";".join("%d" % b for b in addr_bytes(ADDR_R[0])), ADDR_R[1],
               ll[0].get("skd", 0), ll[1].get("skd", 0), ed[0], ed[1], bv))


def cobs(s):
    db = []
    for e in s["db"]:
        side = (e["addr"].lower() == ADDR_R[0])
        ltk = None
        if "ltk" in e:
            ltk = "(%s, %s, %d)" % (cterm(e["ltk"]), cterm(e["rand"]), e["ediv"])
        db.append("(%s, %s, %s, %s, %s)" % (cbool(side), cbool(e["auth"]), copt(ltk),
                                            copt(e.get("irk"), cterm), copt(e.get("csrk"), cterm)))
    return ("{| o_state := %d; o_fail := %s; o_exc := %s; o_method := %s; o_stk := %s; o_ltk := %s; o_enckey := %s; "
            "o_setenc := %s; o_db := %s |}"
            % (s["state"], copt(s["fail"], lambda v: "%d" % v), cbool(bool(s["exc"])), copt(s["method"], lambda v: "%d" % v),
               cterm(s["stk"]), copt(s["ltk"], cterm), copt(s["ll_key"], cterm),
               clist(["(%s, %s)" % (cterm(x["ll_key"]), cterm(x["key"])) for x in s["enc"]]), clist(db)))


def ccase(case, res):
    preq = bytes.fromhex(res["preq"] or "")
    pres = bytes.fromhex(res["pres"] or "")
    return "(%s, %s, %s, %s, ([%s], [%s], %s), %s, %s)" % (
        cparams(case["i"], res.get("handles", [0, 0])[0]), cparams(case["r"], res.get("handles", [0, 0])[1]),
        cscript(case["ui"]), cenv(case, res),
        ";".join("%d" % b for b in preq), ";".join("%d" % b for b in pres), cbool(not res["timeout"]),
        cobs(res["sides"][0]), cobs(res["sides"][1]))


# ---------------------------------------------------------------------------
# the property, evaluated on what the real stacks did
# ---------------------------------------------------------------------------

def outcome(s):
    if s["exc"]:
        return "raise:" + s["exc"][0]["cls"] + "@" + s["exc"][0]["where"]
    if s["done"] and s["fail"] is None:
        return "success"
    if s["state"] == 0 and s["fail"] is not None:
        return "failure"
    return "hang@state%d" % s["state"]


def rev_term(t):
    if t is None:
        return None
    if t[0] == "Rev":
        return t[1]
    if t[0] == "B":
        return ["B", bytes.fromhex(t[1])[::-1].hex()]
    return ["Rev", t]


def oracle(case, res, expect):
    """Returns a list of (what, class_key_or_None, expected, observed).
    `expect` is 'success' / 'failure' (from the specification: method and honesty of the scripted user)."""
    v = []
    si, sr = res["sides"]
    oi, orr = outcome(si), outcome(sr)
    if res["timeout"]:
        v.append(("watchdog: the run did not become quiescent", None, "termination", "timeout"))
    for nm, o in (("initiator", oi), ("responder", orr)):
        if o not in ("success", "failure"):
            v.append(("%s does not terminate the pairing (%s)" % (nm, o), None, "success or failure", o))
    if oi != orr:
        v.append(("outcomes differ", None, "same outcome", [oi, orr]))
    if oi == orr and oi in ("success", "failure") and expect and oi != expect:
        v.append(("pairing outcome is '%s' on both sides where the specification's association model gives '%s'"
                  % (oi, expect), case.get("expect_class"), expect, oi))
    if oi == "success" and orr == "success":
        if si["method"] != sr["method"]:
            v.append(("selected methods differ", None, si["method"], sr["method"]))
        if si["stk"] != sr["stk"]:
            v.append(("STK differs", None, si["stk"], sr["stk"]))
        lesc = si["method"] is not None and si["method"] >= 3
        if lesc and si["ltk"] != sr["ltk"]:
            v.append(("LESC LTK differs", None, si["ltk"], sr["ltk"]))
        # link-layer session key
        for nm, s in (("initiator", si), ("responder", sr)):
            if len(s["enc"]) != 1 or not s["enc"][0]["enabled"]:
                v.append(("%s: set_encryption called %d times" % (nm, len(s["enc"])), None, 1, len(s["enc"])))
        if len(si["enc"]) == 1 and len(sr["enc"]) == 1:
            a, b = si["enc"][0], sr["enc"][0]
            for f in ("ll_key", "ll_iv", "key", "rand", "ediv"):
                if a[f] != b[f]:
                    v.append(("set_encryption %s differs between the two stacks" % f, None, a[f], b[f]))
            want = rev_term(si["ltk"]) if lesc else si["stk"]
            if a["key"] != want:
                v.append(("link encrypted with a key that is not the STK/LTK of the pairing", None, want, a["key"]))
            if not (si["encrypted"] and sr["encrypted"]):
                v.append(("link not marked encrypted on both sides", None, True, [si["encrypted"], sr["encrypted"]]))
        # stored = distributed
        wire = res["wire"]
        for x, (nm, s) in enumerate((("initiator", si), ("responder", sr))):
            y = 1 - x
            bonded = bool(case["i" if x == 0 else "r"]["bonding"])
            if not bonded:
                if s["db"]:
                    v.append(("%s stores keys without bonding" % nm, None, [], s["db"]))
                continue
            own_addr, peer_addr = (ADDR_I[0], ADDR_R[0]) if x == 0 else (ADDR_R[0], ADDR_I[0])
            ents = {e["addr"].lower(): e for e in s["db"]}
            if sorted(ents) != sorted([own_addr, peer_addr]) or len(s["db"]) != 2:
                v.append(("%s: security database does not hold exactly own + peer entry" % nm, None,
                          [own_addr, peer_addr], sorted(ents)))
                continue
            pe = ents[peer_addr]
            w = wire[y]
            if lesc:
                exp = {"ltk": rev_term(s["ltk"]), "rand": ["B", "00" * 8], "ediv": 0}
            else:
                exp = {}
                if "ltk" in w:
                    exp["ltk"] = w["ltk"]
                    exp["rand"] = w.get("rand", ["B", "00" * 8])
                    exp["ediv"] = w.get("ediv", 0)
            for k in ("irk", "csrk"):
                if k in w:
                    exp[k] = w[k]
            got = {k: pe[k] for k in ("ltk", "rand", "ediv", "irk", "csrk") if k in pe}
            if got != exp:
                v.append(("%s stored for the peer something else than what the peer distributed" % nm, None, exp, got))
            # what the peer keeps as its own distributed keys must be the same values
            ye = {e["addr"].lower(): e for e in (sr if x == 0 else si)["db"]}
            if peer_addr in ye:
                mine = ye[peer_addr]
                for k in got:
                    if k in mine and mine[k] != got[k]:
                        v.append(("%s: stored %s of the peer differs from the value the peer keeps for itself" % (nm, k),
                                  None, mine[k], got[k]))
        if bool(case["i"]["bonding"]) and bool(case["r"]["bonding"]) and si["db"] and sr["db"]:
            if {e["auth"] for e in si["db"]} != {e["auth"] for e in sr["db"]}:
                v.append(("authenticated flag differs", None, None, None))
        # numeric comparison: both devices must have shown the same value
        nci = [x[2] for x in si["shown"] if x[0] == "check_lesc_numeric_comparison" and len(x) > 2]
        ncr = [x[2] for x in sr["shown"] if x[0] == "check_lesc_numeric_comparison" and len(x) > 2]
        if nci != ncr:
            v.append(("numeric comparison values differ", None, nci, ncr))
    if oi == "failure" and orr == "failure":
        for nm, s in (("initiator", si), ("responder", sr)):
            if s["db"]:
                v.append(("%s stored keys although the pairing failed" % nm, None, [], s["db"]))
    return v
