"""C17 — the pure nonce / length arithmetic of whad/zigbee/crypto.py (CryptoManager) that is translated from
the source on every run (harness/translators/pyfun.py) and proved equal to the hand-written model
(coq/theories/C17/GenEq.v against the snapshot coq/theories/C17/Gen.v).  See design/PYTRANS.md."""

SRC = "whad/zigbee/crypto.py"
TITLE = "C17 — Gallina generated from whad/zigbee/crypto.py (CryptoManager)"
MODEL_IMPORT = "From Whad Require Import C17.Model."

H = "packet[ZigbeeSecurityHeader]"

FAKE = (
    "class _B:\n"
    "    def __init__(self, b, **kw):\n"
    "        self._b = b\n"
    "        self.__dict__.update(kw)\n"
    "    def __bytes__(self):\n"
    "        return self._b\n"
    "class _P:\n"
    "    def __init__(self, hdr, rawb, data=b'', mic=b''):\n"
    "        self._hdr, self._rawb, self.data, self.mic = hdr, rawb, data, mic\n"
    "    def __getitem__(self, k):\n"
    "        return _B(self._rawb) if isinstance(k, slice) else self._hdr\n"
)


def _bytes(rng, n):
    return bytes(rng.randrange(256) for _ in range(n))


def gen_nonce(rng):
    return {"sec": _bytes(rng, rng.choice([5, 6, 12, 13, 14, 20, rng.randrange(0, 40)])),
            "counter": rng.choice([0, 1, 255, 256, 2 ** 32 - 1, rng.randrange(0, 2 ** 32)]),
            "lvl": rng.randrange(8), "kt": rng.randrange(4), "ext": rng.randrange(2), "res": rng.randrange(4)}


def gen_auth(rng):
    d, m = _bytes(rng, rng.choice([0, 1, 5, rng.randrange(0, 30)])), _bytes(rng, rng.choice([0, 0, 4, 8, 16]))
    return {"enc": rng.random() < 0.6, "rawb": _bytes(rng, rng.randrange(0, 30)) + d + m, "pdata": d, "pmic": m}


def gen_extract(rng):
    d, m = _bytes(rng, rng.choice([0, 1, 3, 4, 5, 9, rng.randrange(0, 30)])), _bytes(rng, rng.choice([0, 0, 0, 4, 8, 16]))
    return {"enc": rng.random() < 0.6, "patched": rng.random() < 0.5, "m": rng.choice([0, 4, 4, 8, 16]),
            "rawb": _bytes(rng, rng.randrange(0, 20)) + d + m, "sdata": d, "pdata": d, "pmic": m}


ITEMS = [
    {"path": SRC, "qualname": "CryptoManager.generateNonce",
     "spec": {"name": "generate_nonce",
              "inputs": [["raw(%s)" % H, "sec", "bytes"], ["%s.fc" % H, "counter", "N"], ["%s.nwk_seclevel" % H, "lvl", "N"],
                         ["%s.key_type" % H, "kt", "N"], ["%s.extended_nonce" % H, "ext", "N"], ["%s.reserved1" % H, "res", "N"]]},
     "model": "slice 5 13 sec ++ le32 counter ++ [lvl + 8 * kt + 32 * ext + 64 * res]",
     "model_when": "(counter <? 4294967296) && (lvl <? 8) && (kt <? 4) && (ext <? 2) && (res <? 4)", "gen": gen_nonce,
     "live": FAKE + ("def live(a):\n"
                     "    h = _B(a['sec'], fc=a['counter'], nwk_seclevel=a['lvl'], key_type=a['kt'], extended_nonce=a['ext'], reserved1=a['res'])\n"
                     "    return MOD.CryptoManager.generateNonce(OBJ(MOD.CryptoManager), _P(h, b''))\n")},
    {"path": SRC, "qualname": "CryptoManager.generateAuth",
     "spec": {"name": "generate_auth",
              "inputs": [["self.encryption", "enc", "bool"], ["raw(packet[self.base_class:])", "rawb", "bytes"],
                         ["packet.data", "pdata", "bytes"], ["packet.mic", "pmic", "bytes"]]},
     "model": "if enc then firstn (length rawb - length pdata - length pmic) rawb else firstn (length rawb - length pmic) rawb",
     "gen": gen_auth,
     "live": FAKE + ("def live(a):\n"
                     "    return MOD.CryptoManager.generateAuth(OBJ(MOD.CryptoManager, encryption=a['enc'], base_class=None), _P(None, a['rawb'], a['pdata'], a['pmic']))\n")},
    {"path": SRC, "qualname": "CryptoManager.extractCiphertextPayload",
     "spec": {"name": "extract_ciphertext_payload",
              "inputs": [["self.encryption", "enc", "bool"], ["self.patched", "patched", "bool"], ["self.M", "m", "nat"],
                         ["raw(packet[self.base_class:])", "rawb", "bytes"], ["%s.data" % H, "sdata", "bytes"],
                         ["packet.data", "pdata", "bytes"], ["packet.mic", "pmic", "bytes"]]},
     "model": ("if enc then (if Nat.eqb (length pmic) 0 && patched then (py_drop_last m sdata, py_take_last m sdata) else (pdata, pmic)) "
               "else ([], py_take_last m rawb)"),
     "gen": gen_extract,
     "live": FAKE + ("def live(a):\n"
                     "    s = OBJ(MOD.CryptoManager, encryption=a['enc'], patched=a['patched'], M=a['m'], base_class=None)\n"
                     "    return MOD.CryptoManager.extractCiphertextPayload(s, _P(NS(data=a['sdata']), a['rawb'], a['pdata'], a['pmic']))\n")},
]
