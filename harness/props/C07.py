"""C07 — GATT server answers every request exactly once, within the MTU, and never wedges.
See DESIGN.md §2 C07 / Appendix B and design/C07.md.

Pipeline: (1) build + Print Assumptions of theories/C07; (2) corpus witnesses, then random
profiles x random histories (harness/props/C07_util.py); (3) the real stack
LinkLayer->L2CAPLayer->ATTLayer->GattServer (harness/impl/C07.py); (4) oracle = the property on
the real code's outputs; (5) correspondence with C07.Model (variant V_fixed) evaluated in Coq;
(6) verdict."""
import json, os, struct
from harness import common as C
from harness.props import C07_util as U

PID = "C07"

def oracle_case(spec, evs, res):
    """The property on the implementation's outputs.
    Returns list of (step index, what, key, expected, observed); stops at the first wedge."""
    bad = []
    mtu, connected = 23, True
    kinds = {r["handle"]: r["kind"] for r in U.flatten(spec)}
    acked = []                # handles of the Prepare Write Requests acknowledged since the last execute
    for k, (ev, st) in enumerate(zip(evs, res["steps"])):
        out = [bytes.fromhex(x) for x in st["out"]]
        if ev["op"] == "conn":
            if not connected:
                connected, mtu = True, 23
            continue
        if ev["op"] == "disc":
            connected, acked = False, []
            continue
        if ev["op"] == "set":
            for p in out:
                if len(p) > mtu:
                    bad.append((k, "notification/indication larger than the MTU", None, "<= %d" % mtu, len(p)))
            continue
        if ev["op"] != "req" or not connected:
            continue
        r = ev["req"]
        # responses = everything but the notifications / indications a hook's update may send meanwhile
        rsp = [p for p in out if p[:1] not in (b"\x1b", b"\x1d")]
        kind, n, hooks = r[0], len(rsp), ev.get("hooks") or {}
        if kind in U.REQUEST_KINDS or (kind == "UnknownOp" and U.req_opcode(r[1])):
            if n != 1:
                what = ("%d PDUs answer a %s request (exception: %s)" % (n, kind, st["exc"]) if kind != "UnknownOp" else
                        "%d PDUs answer the request with opcode 0x%02x (%d parameter bytes)" % (n, r[1], len(r[2])))
                bad.append((k, what, None, "exactly 1", st["out"]))
        elif kind == "UnknownOp":
            if n != 0:
                bad.append((k, "PDU with opcode 0x%02x (not a request) answered" % r[1], None, "nothing", st["out"]))
        elif kind in U.COMMAND_KINDS:
            if n > 1:
                bad.append((k, "%d PDUs sent for a %s command" % (n, kind), None, "<= 1", st["out"]))
        elif kind == "Indication":
            if [p.hex() for p in rsp] != ["1e"]:
                bad.append((k, "indication not answered by exactly one confirmation", None, ["1e"], st["out"]))
        # an acknowledged long write must not be dropped silently
        if kind == "PrepareWrite" and rsp[:1] and rsp[0][:1] == b"\x17":
            acked.append(r[1])
        elif kind == "ExecuteWrite" and rsp:
            if r[1] == 1 and rsp[0][:1] == b"\x19":
                lost = [h for h in acked if kinds.get(h) != "KValue"]
                if lost:
                    bad.append((k, "Execute Write Response although the acknowledged Prepare Write on handle %d (%s) was not performed"
                                % (lost[0], kinds.get(lost[0])), None, "an error, or the Prepare Write refused", st["out"]))
            acked = []
        for p in out:
            if len(p) > mtu:
                bad.append((k, "PDU of %d bytes exceeds the MTU %d" % (len(p), mtu), None, "<= %d" % mtu, p.hex()))
        if kind in ("FindInfo", "FindByTypeValue", "ReadByType", "ReadByType128", "ReadByGroupType"):
            s, e = r[1], r[2]
            for p in out:
                try:
                    hs = U.parse_list_rsp(p)
                except ValueError as err:
                    bad.append((k, "malformed list response: %s" % err, None, None, p.hex()))
                    continue
                if hs is None:
                    continue
                if any(h < s or h > e for h in hs) or any(a >= b for a, b in zip(hs, hs[1:])):
                    bad.append((k, "list response handles outside the range or not increasing", None, [s, e], hs))
        if not st["probe"]:
            bad.append((k, "server does not answer the next request after %s (exception: %s)" % (kind, st["exc"]), None, "probe answered", "no answer"))
            break
        if kind == "ExchangeMtu" and r[1] >= 23 and out and out[0][0] == 3:
            mtu = max(23, min(r[1], struct.unpack("<H", out[0][1:3])[0]))
    else:
        if res.get("fault_probe") is False:
            bad.append((len(evs) - 1, "server does not answer the next request after the ATT layer raised while a handler was "
                        "sending its answer (fault probe at the end of the history)", None, "probe answered", "no answer"))
    return bad


def shrink(spec, evs, k, pred):
    """Cut after step k, then drop earlier events while the failure (pred on the driver result) persists."""
    evs = list(evs[:k + 1])
    for _round in range(2):
        cands = [evs[:i] + evs[i + 1:] for i in range(len(evs) - 1)]
        if not cands:
            break
        res = U.run_impl([(spec, c) for c in cands])
        keep = None
        for c, r in zip(cands, res):
            if "steps" in r and pred(c, r):
                keep = c if keep is None or len(c) < len(keep) else keep
        if keep is None:
            break
        # greedy: restart from the first successful removal, repeatedly
        evs = keep
        while True:
            cands = [evs[:i] + evs[i + 1:] for i in range(len(evs) - 1)]
            if not cands:
                break
            res = U.run_impl([(spec, c) for c in cands])
            nxt = next((c for c, r in zip(cands, res) if "steps" in r and pred(c, r)), None)
            if nxt is None:
                break
            evs = nxt
        break
    return evs


def gen_cases(ctx, n):
    rng, cases = ctx.rng, []
    for i in range(n):
        spec = U.gen_profile(rng, small=(i % 3 == 0))
        g = U.HistoryGen(rng, U.flatten(spec), hooks_p=0.3 if i % 4 else 0.0, allow_raise=(i % 2 == 0))
        n = rng.randrange(8, 26)
        k = i % 10
        cases.append((spec, g.exec_history(n) if k == 5 else g.sub_history(n) if k == 6
                      else g.hook_history(n) if k in (1, 3) else g.response_history(max(n, 30)) if k == 7
                      else g.mtu_history(n) if k == 9 else g.history(n)))
    return cases


def run(ctx):
    C.build_dir(PID, clean=True)
    ctx.cov["trusted_base"] = [
        "Coq 8.16.1 kernel + vm_compute (no native_compute); theorems closed under the global context (Print Assumptions checked each run)",
        "hand-written model coq/theories/C07/Model.v (variant V_fixed) tied to whad/ble/stack/gatt/__init__.py, att/__init__.py, gatt/attrlist.py, profile/*.py by the correspondence of this run",
        "scapy ATT dissect/build (requests are encoded by the harness, dissected by scapy; answers are compared as bytes)",
        "hook oracle: a user hook returns an object, raises (HookReturn* or any other Exception) and may assign one characteristic value before that; hooks that change the structure of the profile, send PDUs themselves, block, or raise BaseException subclasses are outside the model",
        "threading.Lock replaced by a non-blocking lock of the same interface (acquire on a held lock = the real server blocks for ever)",
        "single-threaded delivery of PDUs (the lock is the only concurrency device modelled)",
    ]
    ctx.assumptions = ["attribute database well-formed (sorted unique handles 1..65535, declaration followed by its value, CCCD values of 2 bytes, UUIDs of 2 or 16 bytes, properties < 256)",
                       "each request fits the MTU in force and has 16-bit fields (what scapy can dissect)",
                       "never_wedges / one_response: no GATT procedure lock is held in the initial state (true of every fresh connection; an invariant by the theorem itself)",
                       "fault probe (outside the model, end of every history): the ATT layer raises while a handler sends its answer; the next request must be answered (txlock releases in a finally clause)"]
    proofs_ok, detail = ctx.check_proofs(lib_targets=["theories/Lib/Bytes.vo"])
    ctx.log("proofs:", proofs_ok, detail.splitlines()[0][:200])

    # ---- cases: corpus first, then generated ---------------------------------------------
    cases, meta = [], []
    for w in U.load_corpus(PID):
        cases.append((w["profile"], [U.ev_from_json(e) for e in w["events"]]))
        meta.append({"kind": "corpus", "file": w["file"], "key": w.get("key")})
    n = 2500 if ctx.thorough else 300
    for c in gen_cases(ctx, n):
        cases.append(c)
        meta.append({"kind": "generated"})
    res = U.run_impl(cases)
    drv_err = [i for i, r in enumerate(res) if "steps" not in r]
    if drv_err:
        raise C.CheckBroken("impl driver failed on case %d: %s" % (drv_err[0], res[drv_err[0]].get("driver_error")))
    nsteps = sum(len(e) for _s, e in cases)
    ctx.cov["evaluations"] = nsteps
    ctx.cov["traces_validated_against_impl"] = len(cases)

    # ---- oracle: the property on the real code ---------------------------------------------
    nviol, shrunk = 0, 0
    for i, ((spec, evs), r) in enumerate(zip(cases, res)):
        for (k, what, key, exp, obs) in oracle_case(spec, evs, r):
            case = {"profile": spec, "events": [U.ev_to_json(e) for e in evs[:k + 1]], "step": k}
            if key is None and shrunk < 3 and not ctx.kf.get(key):
                shrunk += 1
                def pred(c, rr, what=what):
                    return any(b[1] == what for b in oracle_case(spec, c, rr))
                try:
                    small = shrink(spec, evs, k, pred)
                    case = {"profile": spec, "events": [U.ev_to_json(e) for e in small], "step": len(small) - 1}
                except Exception:  # noqa - shrinking is best effort
                    pass
            nviol += bool(ctx.violation(what, case, key=key, expected=exp, observed=obs))

    # ---- correspondence inside Coq -----------------------------------------------------------
    terms = [U.case_lit(spec, evs, r, True) for (spec, evs), r in zip(cases, res)]
    bad, logs = C.run_cases(PID, "corr", U.PRE, U.CASE_T, terms, "check_case", shard=max(4, len(terms) // 15 + 1), max_chars=160000)
    ctx.notes += logs[:3]
    ctx.log("oracle: %d violations; correspondence: %d cases, %d bad" % (nviol, len(terms), len(bad)))

    # ---- coverage ---------------------------------------------------------------------------
    import collections
    pairs, excs, mtus, hooks_used = collections.Counter(), collections.Counter(), collections.Counter(), collections.Counter()
    nontrivial = []
    for (spec, evs), r in zip(cases, res):
        for ev, st in zip(evs, r["steps"]):
            excs[st["exc"] or "none"] += 1
            if ev["op"] == "req":
                first = st["out"][0] if st["out"] else ""
                cls = first[:2] + (":" + first[8:10] if first[:2] == "01" else "") if first else "-"
                pairs[ev["req"][0] + ">" + cls] += 1
                if ev["req"][0] == "ExchangeMtu":
                    mtus[min(ev["req"][1], 600) // 100 * 100] += 1
                for hn, o in (ev.get("hooks") or {}).items():
                    hooks_used[hn + "=" + o[0]] += 1
            else:
                pairs[ev["op"]] += 1
        if any(st["out"] for st in r["steps"]):
            nontrivial.append([spec, [U.ev_to_json(e) for e in evs]])
    expected_pairs = ["Read>0b", "Read>01:02", "Read>01:0a", "Read>01:01", "Read>01:05", "Read>01:0f", "Read>01:08",
                      "ReadBlob>0d", "ReadBlob>01:07", "ReadBlob>01:02", "FindInfo>05", "FindInfo>01:0a", "FindInfo>01:01",
                      "FindByTypeValue>07", "FindByTypeValue>01:0a", "ReadByType>09", "ReadByType>01:0a", "ReadByType128>01:0a",
                      "ReadByGroupType>11", "ReadByGroupType>01:10", "ReadByGroupType>01:0a", "Write>13", "Write>01:03",
                      "Write>01:0d", "WriteCmd>-", "WriteCmd>01:03", "PrepareWrite>17", "PrepareWrite>01:01",
                      "ExecuteWrite>19", "ExecuteWrite>01:07", "ExecuteWrite>01:04", "ExecuteWrite>01:03", "ExchangeMtu>03",
                      "ReadMultiple>01:01", "Indication>1e", "set", "sec", "disc", "conn"]
    ctx.cov["distinct_nontrivial"] = C.distinct_count(nontrivial)
    ctx.cov["rule"] = ("case = (random well-formed profile, history of 8..25 events: ATT PDUs over all opcodes with handles incl. 0/"
                       "service/declaration/descriptor/unknown, ranges incl. start>end and 0, offsets around the value lengths, MTU 23..517 "
                       "(+ invalid), hook outcomes, link-security switches, application writes, disconnect/reconnect). "
                       "Non-trivial = at least one PDU emitted; distinct by content hash")
    ctx.cov["distribution"] = {"cases": len(cases), "events": nsteps, "request>answer": dict(sorted(pairs.items())),
                               "exceptions": dict(excs), "mtu_requests_by_100": {str(k): v for k, v in sorted(mtus.items())},
                               "hook_outcomes": dict(sorted(hooks_used.items())),
                               "attrs_per_profile_max": max(len(U.flatten(s)) for s, _ in cases),
                               "uncovered_branches": [p for p in expected_pairs if p not in pairs]}
    g = [i for i, m in enumerate(meta) if m["kind"] == "generated"]
    ctx.cov["samples"] = [{"events": [U.ev_to_json(e) for e in cases[i][1][:4]], "impl": res[i]["steps"][:4]} for i in g[:3]]
    ctx.cov["source_ties"] = [C.source_tie("whad/ble/stack/gatt/__init__.py", 30, 80),
                              C.source_tie("whad/ble/stack/gatt/__init__.py", 1205, 2642),
                              C.source_tie("whad/ble/stack/att/__init__.py", 42, 190),
                              C.source_tie("whad/ble/stack/att/__init__.py", 525, 815),
                              C.source_tie("whad/ble/stack/gatt/attrlist.py", 166, 212),
                              C.source_tie("whad/ble/profile/__init__.py", 488, 520),
                              C.source_tie("whad/ble/profile/characteristic.py", 508, 525)]
    ctx.cov["correspondence"] = {"cases": len(terms), "bad": len(bad)}

    # ---- verdict -----------------------------------------------------------------------------
    if (bad or not proofs_ok) and not ctx.violations:
        first = None
        if bad:
            i = bad[0]
            first = {"profile": cases[i][0], "events": [U.ev_to_json(e) for e in cases[i][1]], "impl": res[i]["steps"], "meta": meta[i]}
        what = ("correspondence C07.Model (V_fixed) vs the GATT server: %d of %d histories disagree" % (len(bad), len(terms))
                if bad else "proof obligations of theories/C07: " + detail.splitlines()[0][:200])
        ctx.broken_obligation(what, detail if not proofs_ok else "\n".join(logs), first)


def replay(payload):
    case = payload.get("case") or payload.get("first_disagreeing_case")
    if not case:
        print("nothing to replay")
        return 0
    evs = [U.ev_from_json(e) for e in case["events"]]
    r = U.run_impl([(case["profile"], evs)])[0]
    for k, (e, s) in enumerate(zip(evs, r.get("steps", []))):
        print(k, json.dumps(U.ev_to_json(e)), "->", s["out"], "exc=%s probe=%s" % (s["exc"], s["probe"]))
    bad = oracle_case(case["profile"], evs, r) if "steps" in r else [("driver", r)]
    print("oracle now reports:", [(b[0], b[1], b[2]) for b in bad])
    return 1 if bad else 0
