"""C09 — GATT client <-> server read/write integrity for every value length and MTU.
See DESIGN.md §2 C09 and design/C09.md.

Pipeline: (1) build + Print Assumptions of theories/C09; (2) generate operation sequences
(corpus witnesses first); (3) run them on two REAL stacks back to back (harness/impl/C09.py);
(4) oracle = the property itself on the real code's outputs; (5) correspondence with the Coq
model evaluated inside Coq; (6) verdict.
"""
import json, os, re
from harness import common as C
from harness.common import cbytes, clist, cnat
from harness.props import C09_util as U
from harness.props import pyfun_util

PID = "C09"
K_TAIL = "long-write-keeps-old-tail"

MTUS = [23, 24, 27, 28, 185, 247, 512, 517]

# handles of the base profile (see base_profile): computed by the real Profile, checked in run()
def base_profile():
    u128 = bytes(range(0xA0, 0xB0)).hex()
    return [
        {"uuid": "0018", "chars": [
            {"uuid": "002a", "props": 0x0A, "value": "5465737444657669636500", "descs": [
                {"uuid": "0129", "value": "6e616d65", "kind": "userdesc"},
                {"uuid": "0829", "value": bytes(range(40)).hex(), "kind": "generic"}]},      # h2 decl, 3 value, 4, 5
            {"uuid": "012a", "props": 0x02, "value": bytes(range(100, 130)).hex(), "descs": []},   # 6, 7 read only
            {"uuid": "022a", "props": 0x08, "value": "00", "descs": []},                          # 8, 9 write only
            {"uuid": "032a", "props": 0x1A, "value": "0102", "descs": []},                        # 10, 11, 12 cccd
            {"uuid": "042a", "props": 0x06, "value": "", "descs": []},                            # 13, 14 R + WnR
        ]},
        {"uuid": u128, "chars": [
            {"uuid": bytes(range(0x10, 0x20)).hex(), "props": 0x0A, "value": bytes([7] * 100).hex(),
             "descs": [{"uuid": bytes(range(0x30, 0x40)).hex(), "value": "6162", "kind": "generic"}]},  # 16, 17, 18
        ]},
    ]

H_RW, H_UD, H_DESC40, H_RO, H_WO, H_NOTIF, H_CCCD, H_WNR, H_RW2, H_DESC128 = 3, 4, 5, 7, 9, 11, 12, 14, 17, 18
H_DECL, H_SVC, H_SVC2 = 2, 1, 15
ALL_H = [0, 1, 2, 3, 4, 5, 6, 7, 8, 9, 10, 11, 12, 13, 14, 15, 16, 17, 18, 19, 99, 0xFFFF]


def val(rng, n, style=None):
    style = style if style is not None else rng.randrange(3)
    if style == 0:
        return bytes((i * 7 + n) & 0xFF for i in range(n))
    if style == 1:
        return bytes(rng.randrange(256) for _ in range(n))
    return bytes([rng.choice([0, 1, 0xFF, 0x41])]) * n


def boundary_lengths(mtu):
    s = {0, 1, 2, 3, mtu - 6, mtu - 5, mtu - 4, mtu - 3, mtu - 2, mtu - 1, mtu, mtu + 1, 329, 511, 512}
    for k in (1, 2, 3):
        for d in (-1, 0, 1):
            s.add(k * (mtu - 5) + d)
            s.add(k * (mtu - 1) + d)
    # lengths where floor(len/(mtu-5)) is a multiple of (mtu-5)
    cs = mtu - 5
    for d in (0, 1, cs - 1):
        s.add(cs * cs + d)
    return sorted(x for x in s if 0 <= x <= 512)


def sweep_ops(rng, mtu, lengths, h=H_RW):
    """ascending sweep on one handle: write, long read, plain read"""
    # the MTU is negotiated by the client or, one time in three, by the server
    ops = [[rng.choice(["set_mtu", "set_mtu", "srv_set_mtu"]), mtu]] if mtu != 23 else []
    for n in lengths:
        v = val(rng, n)
        ops.append(["write", h, v.hex()])
        ops.append(["read_long", h])
        ops.append(["read", h])
        if n % 2 == 0 or n < 4:
            ops.append(["read_blob", h, n])                  # offset == length: empty blob
        if n % 5 == 0:
            ops.append(["read_blob", h, max(0, n - (n % 7))])
    return ops


def random_ops(rng, n_ops, mtu=None):
    ops = []
    if mtu is None:
        mtu = rng.choice(MTUS + [rng.randrange(23, 518)])
    if mtu != 23 or rng.random() < 0.2:
        ops.append(["set_mtu", mtu])
    valh = [H_RW, H_RW2, H_WNR, H_NOTIF, H_WO]
    for _ in range(n_ops):
        k = rng.random()
        if k < 0.30:
            h = rng.choice(valh)
            n = rng.choice(boundary_lengths(mtu) + [rng.randrange(0, 513)])
            ops.append([rng.choice(["write", "write", "write_long"]), h, val(rng, n).hex()])
        elif k < 0.50:
            ops.append(["read_long", rng.choice(valh + [H_RO, H_DESC40, H_UD, H_CCCD, H_DESC128])])
        elif k < 0.62:
            ops.append(["read", rng.choice(valh + [H_RO, H_DESC40, H_CCCD, H_DECL, H_SVC, H_SVC2, 6, 16])])
        elif k < 0.74:
            h = rng.choice(valh + [H_RO, H_DESC40, H_CCCD, H_DECL, H_SVC])
            ops.append(["read_blob", h, rng.choice([0, 1, mtu - 2, mtu - 1, mtu, 2 * (mtu - 1), rng.randrange(0, 600)])])
            if rng.random() < 0.3:
                ops.append(["read_blob", H_RO, 30])          # exactly the length of the read-only value
        elif k < 0.80:
            # write command to a writable characteristic value (no answer expected)
            # write command: mostly to a writable characteristic value (no answer); sometimes one the
            # server refuses and answers with an Error Response (the client must ignore it)
            tgt = rng.choice([H_RW, H_RW2, H_WNR, H_WO, H_RW, H_RW2, H_RO, 0, 99, H_DESC40])
            ops.append(["write_command", tgt, val(rng, rng.choice([0, 1, 5, mtu - 3, mtu - 2, 60])).hex()])
        elif k < 0.86:
            if rng.random() < 0.25:
                # accepted only when it changes the value (else refused: known finding class)
                ops.append(["write_command", H_CCCD, rng.choice(["0100", "0200", "0300"])])
            else:
                ops.append(["write", H_CCCD, rng.choice(["0100", "0200", "0000", "01", "", "010000"])])
        elif k < 0.93:
            # procedures that cannot complete
            h = rng.choice(ALL_H)
            kind = rng.choice(["read", "read_long", "write", "read_blob"])
            if kind == "write":
                ops.append(["write", h, val(rng, rng.choice([0, 3, 10, mtu - 3])).hex()])
            elif kind == "read_blob":
                ops.append(["read_blob", h, rng.choice([0, 3, 700])])
            else:
                ops.append([kind, h])
        elif k < 0.96:
            ops.append([rng.choice(["set_mtu", "set_mtu", "srv_set_mtu"]), rng.choice(MTUS + [rng.randrange(23, 518), 22, 5])])
            if ops[-1][1] >= 23:
                mtu = ops[-1][1]
        elif k < 0.985:
            ops.append(["write_long", rng.choice([H_RW, H_RW2]), val(rng, rng.randrange(0, 40)).hex()])
        else:
            # long path to a characteristic that is not writable: refused when executed
            ops.append([rng.choice(["write", "write_long"]), H_RO, val(rng, rng.choice([0, 1, mtu - 2, 60])).hex()])
    return ops


# every ordered pair / triple of procedures on ONE characteristic, each preceded by a long write
# of a fresh value of at least MTU-1 bytes (so that state left behind by one procedure -- on the
# client or on the server -- is seen by the following ones)
PROCS = ["read", "read_blob", "read_long", "write_short", "write_big", "write_long", "write_command"]
_fresh = [0]

def fresh_value(n):
    """n bytes, different from every value generated before in this run"""
    _fresh[0] += 1
    k = _fresh[0]
    return bytes(((i * 13 + k * 31 + (k >> 3)) ^ (k & 0xFF)) & 0xFF for i in range(n))


def big_len(rng, mtu):
    return min(512, rng.choice([mtu - 1, mtu, mtu + 5, 2 * (mtu - 1), 2 * (mtu - 1) + 3]))


def proc_op(rng, name, h, mtu):
    if name == "read":
        return ["read", h]
    if name == "read_long":
        return ["read_long", h]
    if name == "read_blob":
        return ["read_blob", h, rng.choice([0, 0, 1, 5, mtu - 2, mtu - 1])]
    if name == "write_short":
        return ["write", h, fresh_value(rng.randrange(1, mtu - 2)).hex()]               # plain Write Request
    if name == "write_big":
        return ["write", h, fresh_value(big_len(rng, mtu)).hex()]                       # write() taking the long path
    if name == "write_long":
        return ["write_long", h, fresh_value(rng.choice([rng.randrange(1, mtu - 2), big_len(rng, mtu)])).hex()]
    return ["write_command", h, fresh_value(rng.choice([rng.randrange(1, mtu - 2), big_len(rng, mtu)])).hex()]


def tuple_sequences(rng, mtu, k, split=True, sample=False):
    """all ordered k-tuples of PROCS (k = 2 or 3); one connection per first procedure when split.
    sample (k = 3): every read/write/read and write/read/write triple, plus 40 random others"""
    import itertools
    seqs = {}
    tuples = list(itertools.product(PROCS, repeat=k))
    if sample:
        isr = lambda x: x.startswith("read")
        alt = [t for t in tuples if isr(t[0]) != isr(t[1]) and isr(t[1]) != isr(t[2])]
        rest = [t for t in tuples if t not in alt]
        tuples = alt + rng.sample(rest, 40)
    for t in tuples:
        h = H_RW if (PROCS.index(t[0]) + PROCS.index(t[-1])) % 2 == 0 else H_RW2
        ops = seqs.setdefault(t[0] if split else "", [[rng.choice(["set_mtu", "srv_set_mtu"]), mtu]] if mtu != 23 else [])
        ops.append(["write", h, fresh_value(big_len(rng, mtu)).hex()])                   # setup: stored value >= MTU-1 bytes
        for name in t:
            ops.append(proc_op(rng, name, h, mtu))
    return list(seqs.values())


def transfers(rng, h, mtu_hint):
    """a long write of a fresh value well above every MTU in play, then the three reads"""
    n = rng.choice([mtu_hint + 7, 2 * mtu_hint + 1, 300, 512, rng.randrange(24, 513)])
    n = max(24, min(512, n))
    return [[rng.choice(["write", "write_long"]), h, fresh_value(n).hex()], ["read_long", h], ["read", h],
            ["read_blob", h, rng.choice([0, 21, 22, mtu_hint - 1, mtu_hint, n])]]


def mtu_history(rng, steps):
    """MTU exchanges initiated by the client (set_mtu) and by the server (srv_set_mtu), values
    below / equal to / above the current one, in both orders, with transfers before, between and
    after them"""
    ops, cur = [], 23
    h = rng.choice([H_RW, H_RW2])
    ops += transfers(rng, h, cur)
    for who, rel in steps:
        if rel == "above":
            m = rng.randrange(cur + 1, 518) if cur < 517 else 517
        elif rel == "below":
            m = rng.randrange(23, cur) if cur > 23 else 23
        elif rel == "equal":
            m = cur
        else:                       # not a valid ATT MTU: nothing must be sent, nothing must change
            m = rng.choice([0, 5, 22])
        ops.append(["set_mtu" if who == "c" else "srv_set_mtu", m])
        if m >= 23:
            cur = m
        ops += transfers(rng, h, cur)
    return ops


def mtu_histories(rng, n_random):
    base = [
        [("s", "above")],                                   # fresh connection, server asks for more
        [("s", "above"), ("s", "below"), ("s", "equal")],
        [("c", "above"), ("s", "above")], [("s", "above"), ("c", "above")],
        [("c", "above"), ("s", "below")], [("s", "above"), ("c", "below")],
        [("c", "above"), ("s", "equal"), ("s", "invalid"), ("c", "invalid")],
    ]
    out = [mtu_history(rng, st) for st in base]
    for _ in range(n_random):
        st = [(rng.choice("cs"), rng.choice(["above", "above", "below", "equal", "invalid"])) for _ in range(rng.randrange(2, 6))]
        out.append(mtu_history(rng, st))
    return out


def gen_cases(ctx):
    rng, prof, cases = ctx.rng, base_profile(), []
    def add(ops, tag):
        cases.append({"profile": prof, "ops": ops, "tag": tag})
    for ops in mtu_histories(rng, 40 if ctx.thorough else 3):
        add(ops, "mtu-history")
    if ctx.thorough:
        for mtu in [23, 24, 27, 28, 64, 185, 247]:
            for ops in tuple_sequences(rng, mtu, 3):
                add(ops, "triples")
        for mtu in [100, 300, 512, 517]:
            for ops in tuple_sequences(rng, mtu, 2, split=False):
                add(ops, "pairs")
    else:
        for ops in tuple_sequences(rng, 23, 3, sample=True):
            add(ops, "triples")
        for mtu in [24, 185, rng.choice([27, 28, 64, 247])]:
            for ops in tuple_sequences(rng, mtu, 2, split=False):
                add(ops, "pairs")
    if ctx.thorough:
        for mtu in MTUS:
            for lo in range(0, 513, 19):
                add(sweep_ops(rng, mtu, list(range(lo, min(lo + 19, 513))), h=rng.choice([H_RW, H_RW2])), "sweep")
        for _ in range(30):
            mtu = rng.randrange(23, 518)
            add(sweep_ops(rng, mtu, boundary_lengths(mtu)), "boundary")
        n_rand, n_ops = 300, 30
    else:
        for mtu in MTUS:
            bl = boundary_lengths(mtu)
            half = (len(bl) + 1) // 2
            add(sweep_ops(rng, mtu, bl[:half]), "boundary")
            add(sweep_ops(rng, mtu, bl[half:], h=H_RW2), "boundary")
        for _ in range(3):
            mtu = rng.randrange(23, 518)
            add(sweep_ops(rng, mtu, boundary_lengths(mtu)[::2]), "boundary")
        n_rand, n_ops = 36, 20
    for _ in range(n_rand):
        add(random_ops(rng, n_ops), "random")
    # malformed stream: write commands the server refuses (answered with an Error Response the client must drop),
    # long writes to attributes that are not characteristic values, out-of-range arguments
    for _ in range(12 if ctx.thorough else 4):
        ops = random_ops(rng, 4)
        tgt = rng.choice([H_RO, 0, 99, H_DESC40, H_SVC, H_CCCD])
        # CCCD: a command that does not change the value, or a too long one, is refused too
        ops.append(["write_command", tgt, rng.choice(["0000", "010203"]) if tgt == H_CCCD else "01"])
        ops += random_ops(rng, 6)[1:]
        add(ops, "refused-write-command")
    for _ in range(12 if ctx.thorough else 4):
        ops = random_ops(rng, 3)
        ops.append([rng.choice(["write", "write_long"]), rng.choice([H_DESC40, H_UD, H_CCCD, H_DECL, H_SVC, H_DESC128]), val(rng, rng.randrange(30, 80)).hex()])
        ops.append(["write_long", rng.choice([H_DESC40, H_CCCD, H_DECL, 99]), val(rng, rng.choice([0, 1, 3])).hex()])
        ops += random_ops(rng, 5)[1:]
        add(ops, "long-write-non-value")
    return cases


def cost(case):
    c = 0
    for o in case["ops"]:
        c += 2 + (len(o[2]) // 30 if len(o) > 2 and isinstance(o[2], str) else 6)
    return c


# ---------------------------------------------------------------------------
# oracle: the property on the real code's outputs
# ---------------------------------------------------------------------------

def oracle(ctx, ci, case, res, stats):
    table = {r[0]: r for r in res["table"]}
    stored = {}
    for r in res["table"]:
        if r[1] == "value":
            stored[r[0]] = U.hexb(r[3])
        elif r[1] == "cccd":
            stored[r[0]] = U.hexb(r[2])
        elif r[1] == "desc":
            stored[r[0]] = U.hexb(r[3])
    def props_of(h):
        r = table.get(h - 1)
        return r[2] if r and r[1] == "decl" else None
    nv = 0
    desync = False
    blocked_before = False
    cmtu = 23
    for si, (op, st) in enumerate(zip(case["ops"], res["steps"])):
        name, r = op[0], st["res"]
        pre = dict(stored)
        for h, hx in st["delta"]:
            stored[h] = U.hexb(hx)
        post = stored
        info = {"case": ci, "step": si, "op": op if len(json.dumps(op)) < 300 else [op[0], op[1], "len=%d" % (len(op[2]) // 2)],
                "profile": case["profile"], "ops": case["ops"][:si + 1], "mtu": cmtu}
        def bad(what, expected=None, observed=None, key=None):
            nonlocal nv
            k = key
            stats["oracle_fail"] = stats.get("oracle_fail", 0) + 1
            if k is None or k not in ctx.kf:
                # at most 2 replay files per kind of failure, 12 per run (all are counted)
                cls = re.sub(r"[0-9]+", "#", what)
                seen = stats.setdefault("seen", {})
                seen[cls] = seen.get(cls, 0) + 1
                stats["unlisted_fail"] = stats.get("unlisted_fail", 0) + 1
                if seen[cls] > 2 or len(ctx.violations) >= 12:
                    return
            nv += 1 if ctx.violation(what, info, key=k, expected=expected, observed=observed) else 0
        ok = "ok" in r
        okind = r.get("ok")
        stats["outcomes"][("ok:" + okind) if ok else r.get("exc", "blocked" if r.get("blocked") else "?")] = \
            stats["outcomes"].get(("ok:" + okind) if ok else r.get("exc", "blocked" if r.get("blocked") else "?"), 0) + 1
        h = op[1] if name not in ("set_mtu", "srv_set_mtu") else None
        kind = table[h][1] if h in table else None
        # --- any outcome: an ATT / GATT error, never another exception, never a blocked client
        if r.get("blocked") or r.get("spin"):
            bad("client cannot run the next procedure (procedure lock still held after the previous outcome)",
                expected="procedure runs", observed=r)
            continue
        if not ok and r.get("kind") == "other":
            stats["other_exc"] = stats.get("other_exc", 0) + 1
            bad("procedure raised %s instead of an ATT/GATT error" % r.get("exc"), expected="AttError or GattTimeoutException", observed=r)
            continue
        changed_others = [x for x, _ in st["delta"] if x != h]
        if changed_others:
            bad("%s on handle %s changed the stored value of other attributes %r" % (name, h, changed_others), observed=st["delta"])
        if name in ("set_mtu", "srv_set_mtu"):
            m = op[1]
            who = "client" if name == "set_mtu" else "server"
            if m >= 23:
                if not (ok and okind == "int" and r["v"] == m and st["cmtu"] == m and st["smtu"] == m):
                    bad("MTU exchange initiated by the %s did not leave both ends with the exchanged MTU" % who,
                        expected=m, observed=[r, st["cmtu"], st["smtu"]])
            elif st["cmtu"] != cmtu or st["smtu"] != cmtu:
                bad("MTU exchange below 23 requested by the %s changed an MTU" % who, expected=cmtu, observed=[st["cmtu"], st["smtu"]])
            if st["cmtu"] != st["smtu"]:
                bad("client and server use different MTUs after an exchange initiated by the %s" % who,
                    expected="same MTU on both ends", observed=[st["cmtu"], st["smtu"]])
            cmtu = st["cmtu"]
            continue
        if name in ("write", "write_long", "write_command"):
            v = U.hexb(op[2])
            long_path = name == "write_long" or (name == "write" and len(v) > cmtu - 3)
            if ok and okind == "true":
                if kind == "value":
                    if name == "write_command" and not (props_of(h) & 0x0C):
                        pass      # a command the server must ignore; nothing to check on the client
                    elif post.get(h) != v:
                        old = pre.get(h, b"")
                        if long_path and len(old) > len(v) and post.get(h) == v + old[len(v):]:
                            bad("long write reported success but the stored value keeps the old tail", key=K_TAIL,
                                expected=v.hex(), observed=post.get(h, b"").hex())
                        else:
                            bad("%s reported success but the stored value is not the written value" % name,
                                expected=v.hex(), observed=post.get(h, b"").hex())
                elif name != "write_command" and long_path and len(v) == 0 and pre.get(h) == post.get(h):
                    # write_long of no byte at all: nothing is sent but an Execute Write on an empty queue;
                    # "the old tail is kept" in its extreme form, whatever the handle holds
                    if pre.get(h):
                        bad("long write reported success but the stored value keeps the old tail", key=K_TAIL,
                            expected="", observed=post.get(h, b"").hex())
                elif kind == "cccd" and name != "write_command":
                    if long_path:
                        bad("long write to a CCCD reported success", expected="ATT/GATT error", observed=r)
                    elif not (len(post[h]) == 2 and post[h][:len(v)] == v):
                        bad("CCCD write reported success but the value is not stored", expected=v.hex(), observed=post[h].hex())
                elif name != "write_command":
                    bad("%s to handle %s (%s) reported success" % (name, h, kind), expected="ATT/GATT error", observed=r)
            elif ok:
                bad("%s returned %r" % (name, r), expected=True, observed=r)
            else:
                # failure: must be legitimate
                if name != "write_command" and kind == "value" and (props_of(h) & 0x0C) and len(v) <= 512:
                    bad("%s of %d bytes to a writable characteristic failed with %s" % (name, len(v), r.get("exc")),
                        expected=True, observed=r)
        elif name in ("read", "read_long", "read_blob"):
            can = (kind == "value" and (props_of(h) & 0x02)) or kind in ("cccd", "desc")
            cur = pre.get(h)
            if ok and okind == "bytes":
                got = U.hexb(r["v"])
                if can:
                    if name == "read":
                        exp = cur[:cmtu - 1]
                    elif name == "read_long":
                        exp = cur
                    else:
                        exp = cur[op[2]:op[2] + cmtu - 1]
                        if op[2] > len(cur):
                            exp = None
                    if got != exp:
                        bad("%s returned other bytes than the stored value%s" % (name, " prefix" if name == "read" else ""),
                            expected=None if exp is None else exp.hex(), observed=got.hex())
                elif kind in ("decl", "primary"):
                    pass          # declarations: outside the property (values only)
                elif name == "read_blob" and got == b"" and cur is not None and op[2] == len(cur):
                    pass          # empty blob at offset == length without a permission check: C08's concern
                else:
                    bad("%s of handle %s (%s) returned data" % (name, h, kind), expected="ATT/GATT error", observed=r)
            elif ok:
                bad("%s returned %r instead of bytes" % (name, r), expected="bytes", observed=r)
            else:
                if can and not (name == "read_blob" and op[2] > len(cur)):
                    bad("%s of a readable attribute failed with %s" % (name, r.get("exc")), expected="bytes", observed=r)
        if st["wcmd_error"]:
            desync = True
    return nv


# ---------------------------------------------------------------------------
# Coq terms
# ---------------------------------------------------------------------------

def op_lit(op):
    n = op[0]
    if n == "set_mtu":
        return "OSetMtu %s" % cnat(op[1])
    if n == "srv_set_mtu":
        return "OSrvMtu %s" % cnat(op[1])
    if n == "read":
        return "ORead %d" % op[1]
    if n == "read_long":
        return "OReadLong %d" % op[1]
    if n == "read_blob":
        return "OReadBlob %d %s" % (op[1], cnat(op[2]))
    c = {"write": "OWrite", "write_long": "OWriteLong", "write_command": "OWriteCmd"}[n]
    return "%s %d %s" % (c, op[1], cbytes(U.hexb(op[2])))


def obs_lit(r):
    if r.get("blocked") or r.get("spin"):
        return "BBlocked"
    if "ok" in r:
        k = r["ok"]
        if k == "bytes":
            return "BBytes %s" % cbytes(U.hexb(r["v"]))
        if k == "true":
            return "BTrue"
        if k == "none":
            return "BNone"
        if k == "int":
            return "BNat %s" % cnat(r["v"])
        return "BOther"
    if r.get("kind") == "att":
        return "BAtt %d" % r["code"]
    if r.get("kind") == "timeout":
        return "BTimeout"
    return "BOther"


def case_term(case, res):
    steps = []
    for op, st in zip(case["ops"], res["steps"]):
        dl = clist(["(%d, %s)" % (h, cbytes(U.hexb(hx))) for h, hx in st["delta"]])
        steps.append("(%s, %s, %s, (%s, %s))" % (op_lit(op), obs_lit(st["res"]), dl, cnat(st["cmtu"]), cnat(st["smtu"])))
    return "(%s,\n [%s])" % (U.db_lit(res["table"]), ";\n  ".join(steps))


def split_case(case, res, max_chars=120000):
    """one Coq term per case; very long cases would make single huge terms, which is fine
    for coqc but they must stay below the shard size"""
    return case_term(case, res)


def run(ctx):
    C.build_dir(PID, clean=True)
    ctx.cov["trusted_base"] = [
        "Coq 8.16.1 kernel + vm_compute (no native_compute); theorems closed under the global context (Print Assumptions checked each run)",
        "hand-written model coq/theories/C09/Model.v of GattClient procedures, GattServer handlers, ATTLayer glue, proclock/wait_for_message; tied to whad/ble/stack/gatt/__init__.py and whad/ble/stack/att/__init__.py by the correspondence of this run (two real stacks back to back)",
        "scapy ATT build/dissect taken as the identity on the abstract PDUs of the model (exercised on every relayed PDU: the peer re-dissects the bytes); body-less responses modelled as ATTLayer.on_packet handles them",
        "L2CAP segmentation/reassembly between the two stacks is the real L2CAPLayer (property C11), transparent in the model",
        "wait_for_message runs unmodified but with timeout 30 ms and a virtual clock (the gatt module's time() replaced in the driver: it advances 3 ms per reading, so the loop polls the queue ten times whatever the machine load); the relay is synchronous, so a response is either queued before the wait starts or never comes",
        "model scope: primary services, characteristics without security requirements, profiles without read/write hooks; handles < 65536",
    ]
    ctx.assumptions = ["negotiated MTU >= 23 on both sides (client's server_mtu = server's client_mtu, as set_mtu leaves them)",
                       "value length < 65536 (16-bit offsets of Read Blob / Prepare Write); the statement of the property bounds it by 512",
                       "procedure starts with the procedure lock free and nothing in the GATT message queue but Error Responses sent for refused Write Commands (invariant of the modelled procedures, proved: C09_client_usable_after)",
                       "target handle holds a characteristic value whose declaration is at handle-1 (what Profile builds)"]
    proofs_ok, detail = ctx.check_proofs(lib_targets=["theories/Lib/Bytes.vo"])
    # the chunk arithmetic of write_long_nolock regenerated from the source and proved equal to the model
    # (harness/translators/pyfun.py, theories/C09/{Gen,GenEq,PropertyGen}.v, design/PYTRANS.md)
    gen = pyfun_util.check_generated(ctx, PID)
    if not gen["ok"]:
        proofs_ok, detail = False, (detail if not proofs_ok else str(gen["what"])) + gen["detail"]
    ctx.log("proofs:", proofs_ok, detail.splitlines()[0][:300])

    # ---- generation -----------------------------------------------------------
    cases = []
    for w in U.corpus(PID):
        cases.append({"profile": w["profile"], "ops": w["ops"], "tag": "corpus:" + w["file"]})
    n_corpus = len(cases)
    cases += gen_cases(ctx)
    ctx.log("cases: %d (%d from corpus), ops: %d" % (len(cases), n_corpus, sum(len(c["ops"]) for c in cases)))

    # ---- implementation -------------------------------------------------------
    results = U.run_driver("c09", [{"profile": c["profile"], "ops": c["ops"]} for c in cases], cost=cost)
    ctx.log("implementation ran")
    exp_handles = [[1, "primary"], [2, "decl"], [3, "value"], [4, "desc"], [5, "desc"], [6, "decl"], [7, "value"], [8, "decl"], [9, "value"],
                   [10, "decl"], [11, "value"], [12, "cccd"], [13, "decl"], [14, "value"], [15, "primary"], [16, "decl"], [17, "value"], [18, "desc"]]
    for c, r in zip(cases, results):
        if c["tag"].startswith("corpus"):
            continue
        if [[x[0], x[1]] for x in r["table"]] != exp_handles:
            raise C.CheckBroken("base profile got another attribute layout than the generator assumes: %r" % r["table"])
        break

    # ---- oracle -----------------------------------------------------------------
    stats = {"outcomes": {}}
    nviol = 0
    for ci, (c, r) in enumerate(zip(cases, results)):
        nviol += oracle(ctx, ci, c, r, stats)
    ctx.log("oracle: %d failing checks, %d new violations, known: %s" % (stats.get("oracle_fail", 0), nviol, sorted(ctx.known_hits)))

    # ---- correspondence ---------------------------------------------------------
    pre = "From Whad Require Import Lib.Bytes C09.Model.\nOpen Scope N_scope."
    terms = [case_term(c, r) for c, r in zip(cases, results)]
    bad, logs = C.run_cases(PID, "seq", pre, "db * list step_obs", terms, "check_seq", shard=40, max_chars=350000)
    ctx.notes += logs[:4]
    ctx.log("correspondence: %d sequences, %d disagree" % (len(terms), len(bad)))

    # ---- coverage -----------------------------------------------------------------
    nops = sum(len(c["ops"]) for c in cases)
    ctx.cov["evaluations"] = nops
    ctx.cov["traces_validated_against_impl"] = len(cases)
    opkinds, lens, mtus, longw = {}, {}, {}, 0
    items = []
    for c, r in zip(cases, results):
        m = 23
        for op, st in zip(c["ops"], r["steps"]):
            opkinds[op[0]] = opkinds.get(op[0], 0) + 1
            if op[0] in ("write", "write_long", "write_command"):
                n = len(op[2]) // 2
                b = "0" if n == 0 else "1-%d" % 20 if n <= 20 else "21-100" if n <= 100 else "101-512"
                lens[b] = lens.get(b, 0) + 1
                if op[0] == "write_long" or (op[0] == "write" and n > m - 3):
                    longw += 1
            if st["npdu"] > 2 or st["delta"]:
                items.append([m, op, st["res"]])
            m = st["cmtu"]
            mtus[m] = mtus.get(m, 0) + 1
    ctx.cov["distinct_nontrivial"] = C.distinct_count(items)
    ctx.cov["rule"] = ("operation sequences on one connection between a real GattClient and a real GattServer; counted = procedure calls; "
                       "non-trivial = the call exchanged more than one request/response pair or changed a stored value; distinct by (MTU, operation, result)")
    errs = {k: v for k, v in stats["outcomes"].items() if not k.startswith("ok:")}
    ctx.cov["distribution"] = {"sequences": len(cases), "by_tag": {t: sum(1 for c in cases if c["tag"].split(":")[0] == t) for t in sorted({c["tag"].split(":")[0] for c in cases})},
                               "op_kinds": opkinds, "write_lengths": lens, "long_writes": longw,
                               "mtu_distribution": {str(k): v for k, v in sorted(mtus.items())} if len(mtus) < 40 else {"distinct_mtus": len(mtus)},
                               "outcomes": stats["outcomes"], "error_kinds": errs,
                               "uncovered_branches": [b for b, hit in [
                                   ("blocked client (unreachable on the repaired code)", "blocked" in stats["outcomes"]),
                                   ("other exception (unreachable on the repaired code)", stats.get("other_exc", 0) > 0),
                               ] if not hit]}
    s0 = next(i for i, c in enumerate(cases) if c["tag"] in ("boundary", "sweep"))
    ctx.cov["samples"] = [
        {"ops": [o if len(json.dumps(o)) < 120 else [o[0], o[1], "…%d bytes" % (len(o[2]) // 2)] for o in cases[s0]["ops"][:6]],
         "impl": [st["res"] if len(json.dumps(st["res"])) < 120 else {"ok": "bytes", "len": len(st["res"]["v"]) // 2} for st in results[s0]["steps"][:6]]},
        {"ops": [o if len(json.dumps(o)) < 120 else [o[0], o[1], "…%d bytes" % (len(o[2]) // 2)] for o in cases[-1]["ops"][:8]],
         "impl": [st["res"] if len(json.dumps(st["res"])) < 120 else {"ok": "bytes", "len": len(st["res"]["v"]) // 2} for st in results[-1]["steps"][:8]]},
        {"tag": cases[n_corpus + 20]["tag"] if len(cases) > n_corpus + 20 else cases[0]["tag"],
         "ops": [o if len(json.dumps(o)) < 120 else [o[0], o[1], "…%d bytes" % (len(o[2]) // 2)] for o in cases[min(n_corpus + 20, len(cases) - 1)]["ops"][:6]]},
    ]
    ctx.cov["source_ties"] = ctx.cov.get("source_ties", []) + [C.source_tie("whad/ble/stack/gatt/__init__.py", 43, 70),
                              C.source_tie("whad/ble/stack/gatt/__init__.py", 184, 210),
                              C.source_tie("whad/ble/stack/gatt/__init__.py", 923, 1087),
                              C.source_tie("whad/ble/stack/gatt/__init__.py", 1475, 1747),
                              C.source_tie("whad/ble/stack/gatt/__init__.py", 1748, 2206),
                              C.source_tie("whad/ble/stack/gatt/__init__.py", 2423, 2442),
                              C.source_tie("whad/ble/stack/att/__init__.py", 54, 75),
                              C.source_tie("whad/ble/stack/att/__init__.py", 90, 167),
                              C.source_tie("whad/ble/stack/att/__init__.py", 311, 356)]
    ctx.cov["correspondence"] = {"sequences": len(terms), "disagreeing": len(bad)}

    # ---- verdict ----------------------------------------------------------------
    if bad or not proofs_ok:
        if not ctx.violations:
            first = None
            if bad:
                i = bad[0]
                first = {"tag": cases[i]["tag"], "profile": cases[i]["profile"], "ops": cases[i]["ops"],
                         "impl": [[st["res"], st["delta"]] for st in results[i]["steps"]]}
                first = json.loads(json.dumps(first)[:200000]) if len(json.dumps(first)) < 200000 else {"tag": cases[i]["tag"], "ops": cases[i]["ops"][:10]}
            what = ("correspondence C09.Model vs GattClient/GattServer (%d of %d sequences disagree)" % (len(bad), len(terms))
                    if bad else "proof obligations of theories/C09: " + detail.splitlines()[0][:200])
            ctx.broken_obligation(what, detail if not proofs_ok else "\n".join(logs), first)


def replay(payload):
    case = payload.get("case") or payload.get("first_disagreeing_case")
    if not case or "ops" not in case:
        print(json.dumps(payload)[:2000])
        return 0
    r = C.run_impl(U.DRIVER, {"mode": "c09", "cases": [{"profile": case["profile"], "ops": case["ops"]}]})
    res = r["cases"][0]
    for op, st in zip(case["ops"], res.get("steps", [])):
        o = op if len(json.dumps(op)) < 160 else [op[0], op[1], op[2][:60] + "… (%d bytes)" % (len(op[2]) // 2)]
        print(json.dumps(o), "->", json.dumps(st["res"])[:200], "stored changes:", json.dumps(st["delta"])[:200])
    if "expected" in payload:
        print("expected:", json.dumps(payload.get("expected"))[:300], "observed when recorded:", json.dumps(payload.get("observed"))[:300])
    return 0
