"""C13 — LinkLayerCryptoManager.generate_nonce (whad/ble/crypto.py) translated from the source on every
run (harness/translators/pyfun.py) and proved equal to the nonce function of the hand-written model
(coq/theories/C13/GenEq.v against the snapshot coq/theories/C13/Gen.v).  See design/PYTRANS.md."""

SRC = "whad/ble/crypto.py"
TITLE = "C13 — Gallina generated from whad/ble/crypto.py (LinkLayerCryptoManager.generate_nonce)"
MODEL_IMPORT = "From Whad Require Import C13.Model."


def gen_nonce(rng):
    def cnt():
        return rng.choice([0, 1, 255, 256, 2 ** 32 - 1, 2 ** 32, 2 ** 32 + 1, 2 ** 39 - 1, 2 ** 39, 2 ** 39 + 5, 2 ** 40 - 1,
                           rng.randrange(0, 2 ** 16), rng.randrange(0, 2 ** 39), rng.randrange(0, 2 ** 48), rng.randrange(0, 2 ** 64)])
    return {"m2s": rng.random() < 0.5, "mcnt": cnt(), "scnt": cnt(), "ivb": bytes(rng.randrange(256) for _ in range(8))}


ITEMS = [
    {"path": SRC, "qualname": "LinkLayerCryptoManager.generate_nonce",
     "spec": {"name": "generate_nonce",
              "inputs": [["direction == BleDirection.MASTER_TO_SLAVE", "m2s", "bool"], ["self.master_cnt", "mcnt", "N"],
                         ["self.slave_cnt", "scnt", "N"], ["self.iv", "ivb", "bytes"]]},
     "model": "nonce_of (if m2s then mcnt else scnt) (if m2s then M2S else S2M) ivb", "gen": gen_nonce,
     "live": ("def live(a):\n"
              "    D = MOD.BleDirection\n"
              "    d = D.MASTER_TO_SLAVE if a['m2s'] else D.SLAVE_TO_MASTER\n"
              "    return MOD.LinkLayerCryptoManager.generate_nonce(OBJ(MOD.LinkLayerCryptoManager, master_cnt=a['mcnt'], slave_cnt=a['scnt'], iv=a['ivb']), d)\n")},
]
