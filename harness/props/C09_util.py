"""Helpers shared by the C09 and C10 property modules (two real GATT stacks back to back,
harness/impl/C09.py)."""
import concurrent.futures as cf
import json, os
from harness import common as C
from harness.common import cbytes, clist, cnat, cpair

DRIVER = "C09.py"


def run_driver(mode, cases, jobs=None, cost=lambda c: 1, timeout=1500):
    """Run the cases through harness/impl/C09.py in several processes; keeps the order."""
    if not cases:
        return []
    jobs = min(jobs or C.JOBS, max(1, len(cases)))
    # balanced partition by estimated cost (greedy, deterministic)
    order = sorted(range(len(cases)), key=lambda i: (-cost(cases[i]), i))
    bins = [[0, []] for _ in range(jobs)]
    for i in order:
        b = min(bins, key=lambda x: x[0])
        b[0] += cost(cases[i]); b[1].append(i)
    out = [None] * len(cases)
    def work(idx):
        if not idx:
            return
        r = C.run_impl(DRIVER, {"mode": mode, "cases": [cases[i] for i in idx]}, timeout=timeout)
        for i, x in zip(idx, r["cases"]):
            out[i] = x
    with cf.ThreadPoolExecutor(max_workers=jobs) as ex:
        for f in [ex.submit(work, b[1]) for b in bins]:
            f.result()
    bad = [x for x in out if x is None or "driver_error" in x]
    if bad:
        raise C.CheckBroken("impl driver failed on a case: %s" % json.dumps(bad[0])[:1500])
    return out


def hexb(h):
    return bytes.fromhex(h)


def attr_lit(row):
    """attribute table row of the driver -> Coq (handle, attr)"""
    h, kind = row[0], row[1]
    if kind == "primary":
        a = "APrimary %s %d" % (cbytes(hexb(row[2])), row[3])
    elif kind == "decl":
        a = "ADecl %d %d %s" % (row[2], row[3], cbytes(hexb(row[4])))
    elif kind == "value":
        a = "AValue %s %s" % (cbytes(hexb(row[2])), cbytes(hexb(row[3])))
    elif kind == "cccd":
        a = "ACccd %s" % cbytes(hexb(row[2]))
    elif kind == "desc":
        a = "ADesc %s %s" % (cbytes(hexb(row[2])), cbytes(hexb(row[3])))
    else:
        raise C.CheckBroken("attribute kind outside the model: %r" % (row,))
    return "(%d, %s)" % (h, a)


def db_lit(table):
    return clist([attr_lit(r) for r in table])


def corpus(pid):
    d = os.path.join(C.VERIF, "corpus", pid)
    out = []
    for fn in sorted(os.listdir(d)) if os.path.isdir(d) else []:
        if fn.endswith(".json"):
            w = json.load(open(os.path.join(d, fn)))
            w["file"] = fn
            out.append(w)
    return out
