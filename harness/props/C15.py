"""C15 — Advertising data: serialise/parse round trip and a total parser.  DESIGN.md §2 C15.

Pipeline: (1) build + Print Assumptions of theories/C15 (+ Lib/Utf8); (2) generate byte
strings (corpus, exhaustive short strings, structure-aware random TLV sequences,
mutations of valid serialisations) and constructor-call lists over all record classes
with boundary values; (3) run the real advdata.py (harness/impl/C15.py); (4) oracle = the
property on the real code: only AdvDataError / AdvDataFieldListOverflow escape from_bytes
(and on_device_found survives), from_bytes(to_bytes(l)) == l for well-formed fitting
lists; (5) correspondence model vs implementation evaluated inside Coq (outcome class +
canonical record list; Lib/Utf8 vs CPython); (6) verdict.
"""
import json, os, itertools, concurrent.futures
from harness import common as C
from harness.common import cbytes, cbool, clist, cpair
from harness.props import pyfun_util

PID = "C15"
KEY_URI = "uri-not-urlparse-stable"
KEY_DOMAIN = "value-outside-serialisable-domain"

HANDLED = [0x01, 0x02, 0x03, 0x06, 0x07, 0x08, 0x09, 0x0A, 0x12, 0x14, 0x15, 0x16, 0x17, 0x18,
           0x19, 0x1A, 0x1B, 0x1C, 0x21, 0x24, 0x27, 0xFF]
UNKNOWN = [0x00, 0x04, 0x05, 0x0D, 0x10, 0x1F, 0x20, 0x25, 0x2A, 0x3D, 0x80, 0xFE]
EXNS = {"AdvDataError", "AdvDataFieldListOverflow", "StructError", "IndexError", "ValueError",
        "UnicodeDecodeError", "UnicodeEncodeError", "AttributeError", "InvalidUUIDException",
        "InvalidBDAddressException"}
PRE = "From Whad Require Import Lib.Bytes Lib.Utf8 C15.Model.\nOpen Scope N_scope."


# ---------------------------------------------------------------------------
# Coq literals
# ---------------------------------------------------------------------------

def cints(l):
    return "[" + ";".join("%d" % x for x in l) + "]"

def cexn(name):
    return name if name in EXNS else "OtherExn"

def cobs(o):
    cid, typ, fields, hx = o
    return "(%d, %d, %s, %s)" % (cid, typ, clist([cints(f) for f in fields]), cbytes(bytes.fromhex(hx)))

def ctable(urls):
    seen, items = set(), []
    for u, r in urls:
        key = tuple(u)
        if key in seen:
            continue
        seen.add(key)
        items.append("(%s, %s)" % (cints(u), "UrlValueError" if r is None else "UrlOk %s %s" % (cints(r[0]), cints(r[1]))))
    return clist(items)

def cparse_case(b, res):
    o = "ObsOk %s" % clist([cobs(x) for x in res["out"]]) if "out" in res else "ObsRaise %s" % cexn(res["exc"])
    return "(%s, %s, %s)" % (cbytes(b), ctable(res["urls"]), o)

def cuuid(hx):
    b = bytes.fromhex(hx[2:] if hx.startswith("s:") else hx)
    return "{| packed := %s; uty := %d |}" % (cbytes(b), 1 if len(b) == 2 else 2)

U16 = {"inc": "IncSvc16", "comp": "CompSvc16", "sol": "Sollicit16"}
U128 = {"inc": "IncSvc128", "comp": "CompSvc128", "sol": "Sollicit128"}

def ctext(s):
    return cints([ord(c) for c in s])

def ccall(c):
    k, a = c["k"], c["a"]
    if k == "Flags":
        return "KFlags " + " ".join(cbool(x) for x in a)
    if k == "Uuid16s":
        return "KUuid16s %s %s" % (U16[a[0]], clist([cuuid(h) for h in a[1]]))
    if k == "Uuid128s":
        return "KUuid128s %s %s" % (U128[a[0]], clist([cuuid(h) for h in a[1]]))
    if k in ("ShortName", "CompleteName"):
        return "K%s %s" % (k, cbytes(bytes.fromhex(a[0])))
    if k in ("TxPower", "Appearance", "AdvInterval", "LeRole"):
        return "K%s %d" % (k, a[0])
    if k == "Manuf":
        return "KManuf %d %s" % (a[0], cbytes(bytes.fromhex(a[1])))
    if k == "ConnRange":
        return "KConnRange %d %d" % (a[0], a[1])
    if k in ("SvcData16", "SvcData128"):
        return "K%s %s %s" % (k, cuuid(a[0]), cbytes(bytes.fromhex(a[1])))
    if k in ("PublicTarget", "RandomTarget"):
        return "K%s %s" % (k, clist([cbytes(bytes.fromhex(h)) for h in a[0]]))
    if k == "DevAddr":
        return "KDevAddr %s %s" % (cbytes(bytes.fromhex(a[0])), cbool(a[1]))
    if k in ("Uri", "Eddystone"):
        return "K%s %s" % (k, ctext(a[0]))
    if k == "LeFeatures":
        return "KLeFeatures " + " ".join(cbool(x) for x in a)
    raise KeyError(k)

def cbuild_case(calls, res):
    if "ctor_exc" in res:
        o = "ObsRaise %s" % cexn(res["ctor_exc"])
    else:
        tb = "ObsOk %s" % cbytes(bytes.fromhex(res["bytes"])) if "bytes" in res else "ObsRaise %s" % cexn(res["to_bytes_exc"])
        o = "ObsOk (%s, %s)" % (clist([cobs(x) for x in res["recs"]]), tb)
    return "(%s, %s, %s)" % (clist([ccall(c) for c in calls]), ctable(res["urls"]), o)


def cevent(ev, joined):
    dt, pdu, a, txadd, rssi, _hx = ev
    return "{| ev_dt := %d; ev_pdu := %s; ev_addr := %d; ev_txadd := %d; ev_rssi := %d; ev_data := %s |}" % (
        dt, pdu, a, txadd, rssi, cbytes(bytes.fromhex(joined)))

def cdevobs(d):
    t, r, adv, rsp, got, conn, scanned, reported, ts, last = d
    return "(%d, %d, %s, %s, %s, %s, %s, %s, %d, %d)" % (t, r, clist([cobs(x) for x in adv]),
        "None" if rsp is None else "(Some %s)" % clist([cobs(x) for x in rsp]),
        cbool(got), cbool(conn), cbool(scanned), cbool(reported), ts, last)

def capi_case(ops, res):
    ops_l, outs = [], []
    for op, st in zip(ops, res["steps"]):
        if "op_exc" in st:      # the driver could not perform the operation: never equal to the model
            ops_l.append("ApiSerialise %s" % C.cnat(0)); outs.append("AObsBytes (ObsRaise OtherExn)")
            break
        if op[0] == "parse":
            ops_l.append("ApiParse %s" % cbytes(bytes.fromhex(op[1])))
            outs.append("AObsParse (%s)" % ("ObsOk %s" % clist([cobs(x) for x in st["out"]]) if "out" in st else "ObsRaise %s" % cexn(st["exc"])))
        elif op[0] == "build":
            ops_l.append("ApiBuild %s" % clist([ccall(c) for c in op[1]]))
            outs.append("AObsParse (%s)" % ("ObsOk %s" % clist([cobs(x) for x in st["out"]]) if "out" in st else "ObsRaise %s" % cexn(st["exc"])))
        elif op[0] == "add":
            ops_l.append("ApiAdd %s (%s)" % (C.cnat(op[1]), ccall(op[2])))
            outs.append("AObsNone" if "exc" not in st else "AObsParse (ObsRaise %s)" % cexn(st["exc"]))
        elif op[0] == "remove":
            ops_l.append("ApiRemove %s %s" % (C.cnat(op[1]), C.cnat(op[2])))
            outs.append("AObsNone")
        elif op[0] == "reparse":
            ops_l.append("ApiReparse %s" % C.cnat(op[1]))
            if "bytes" not in st:
                outs.append("AObsBytes (ObsRaise %s)" % cexn(st["exc"]))
            else:
                outs.append("AObsParse (%s)" % ("ObsOk %s" % clist([cobs(x) for x in st["out"]]) if "out" in st else "ObsRaise %s" % cexn(st["parse_exc"])))
        elif op[0] == "set":
            _, i, j, attr, val = op
            if attr == "company":
                ops_l.append("ApiSetCompany %s %s %d" % (C.cnat(i), C.cnat(j), val))
            else:
                ops_l.append("ApiSet%s %s %s %s" % ("Name" if attr == "name" else "Data", C.cnat(i), C.cnat(j), cbytes(bytes.fromhex(val))))
            outs.append("AObsNone")
        else:
            ops_l.append("ApiSerialise %s" % C.cnat(op[1]))
            outs.append("AObsBytes (%s)" % ("ObsOk %s" % cbytes(bytes.fromhex(st["bytes"])) if "bytes" in st else "ObsRaise %s" % cexn(st["exc"])))
    return "(%s, %s, %s)" % (ctable(res["urls"]), clist(ops_l), clist(outs))


def gen_api_case(rng, x, ref):
    """parse x / edit every record that has a public setter / parse x again / serialise both / parse a
    third time, edit that one, serialise all three.  `ref` = the parse of x in a clean process."""
    hx_ = x.hex()
    ops = [["parse", hx_]]
    if "out" not in ref:
        return ops + [["parse", hx_]]
    def edits(i):
        out = []
        for j, o in enumerate(ref["out"]):
            if o[0] in (0x08, 0x09):
                out.append(["set", i, j, "name", rand_bytes(rng, rng.choice([0, 1, 3, 8])).hex()])
            elif o[0] == 0xFF:
                if rng.random() < 0.7:
                    out.append(["set", i, j, "company", rng.choice([0, 1, 0xFFFF, 0x10000, rng.randrange(65536)])])
                if rng.random() < 0.7:
                    out.append(["set", i, j, "data", rand_bytes(rng, rng.choice([0, 1, 4, 9])).hex()])
        return out
    ops += edits(0)
    ops += [["parse", hx_], ["ser", 1], ["ser", 0], ["parse", hx_]]
    ops += edits(2)
    ops += [["ser", 1], ["ser", 2], ["ser", 0], ["parse", hx_], ["ser", 3]]
    return ops


SETTER_KINDS = {"ShortName": ["name"], "CompleteName": ["name"], "Manuf": ["company", "data"]}


def gen_built_case(rng):
    """build a list with the constructors / to_bytes / edit every held record that has a setter, to_bytes
    after each edit / parse it / add() / edit again / to_bytes / parse / remove() / to_bytes.
    All values stay inside the round-trip domain (wf_rec), so every parse must show the CURRENT values."""
    def wf_call(k):
        for _ in range(20):
            c = gen_call(rng, k)
            if call_domain(c, True) is None and not (k == "Manuf" and c["a"][0] >= 65536) \
                    and not (k == "Uuid16s" and any(len(h) != 4 for h in c["a"][1])) \
                    and not (k == "Appearance" and c["a"][0] >= 65536) and not (k == "LeRole" and c["a"][0] >= 4):
                return c
        return {"k": "Flags", "a": [False, True, True, False]}
    kinds = [rng.choice(["ShortName", "CompleteName", "Manuf"])]
    kinds += [rng.choice(["Flags", "TxPower", "LeRole", "Appearance", "Manuf", "ShortName", "CompleteName", "Uuid16s", "LeFeatures"])
              for _ in range(rng.choice([0, 1, 1, 2]))]
    rng.shuffle(kinds)
    calls = []
    for k in kinds:
        c = wf_call(k)
        if k in ("ShortName", "CompleteName"):
            c["a"][0] = c["a"][0][:2 * rng.choice([0, 1, 4, 8])]
        if k == "Manuf":
            c["a"][1] = c["a"][1][:2 * rng.choice([0, 1, 4])]
        calls.append(c)
    def edit(j, k):
        attr = rng.choice(SETTER_KINDS[k])
        if attr == "company":
            return ["set", 0, j, "company", rng.choice([0, 1, 0x1234, 0xFFFF, rng.randrange(65536)])]
        return ["set", 0, j, attr, rand_bytes(rng, rng.choice([0, 1, 3, 7])).hex()]
    ops = [["build", calls], ["ser", 0]]
    if rng.random() < 0.3:
        ops.append(["ser", 0])
    for j, k in enumerate(kinds):
        if k in SETTER_KINDS:
            ops += [edit(j, k), ["ser", 0]]
    ops.append(["reparse", 0])
    extra = rng.choice(["CompleteName", "ShortName", "Manuf", "Flags"])
    c = wf_call(extra)
    if extra != "Flags":
        c["a"][-1 if extra == "Manuf" else 0] = c["a"][-1 if extra == "Manuf" else 0][:4]
    ops += [["add", 0, c], ["ser", 0]]
    if extra in SETTER_KINDS:
        ops += [edit(len(kinds), extra), ["ser", 0], ["reparse", 0]]
    ops += [["remove", 0, rng.randrange(len(kinds))], ["ser", 0], ["reparse", 0]]
    return ops


def cseq_case(case, res):
    evs = [cevent(ev, st["joined"]) for ev, st in zip(case["events"], res["steps"]) if "joined" in st]
    outs = ["ObsOk %s" % cints(st["ret"]) if "ret" in st else "ObsRaise %s" % cexn(st.get("exc", "OtherExn")) for st in res["steps"]]
    fin = ["(%d, %s)" % (i, "None" if d is None else "(Some %s)" % cdevobs(d)) for i, d in res["final"]]
    return "(%s, %s, %s, %s, %s, %s)" % ("None" if case["filter"] is None else "(Some %d)" % case["filter"],
                                         cbool(case["updates"]), ctable(res["urls"]), clist(evs), clist(outs), clist(fin))


# ---------------------------------------------------------------------------
# Generators
# ---------------------------------------------------------------------------

GOOD_ADV = ["020106", "0201060409414243", "02010603031218", "", "020a05", "03ff3412", "0409616263020a00", "0000"]
BAD_ADV = ["010a", "0201", "05094142", "020106ff", "0119", "02010603", "031901", "0224c3", "021c09", "0112", "09"]


DTS = [0, 0, 1, 100, 250, 499, 500, 501, 600, 1000]


def gen_seq_systematic():
    """Every sequence of length 1..3 over {good/bad ADV_IND, good/bad SCAN_RSP} of one address,
    both settings of `updates`, no time passing and 300 ms per event (the third call is past the
    timeout); the same shapes with ADV_NONCONN_IND and a second address mixed in; and the timeout
    boundary: a device first seen at t, any event at t + 499 / 500 / 501 / 1000 ms, then more events."""
    out = []
    alpha = [("AdvInd", "020106"), ("AdvInd", "010a"), ("ScanRsp", "0409414243"), ("ScanRsp", "010a")]
    for n in (1, 2, 3):
        for combo in itertools.product(alpha, repeat=n):
            for upd in (False, True):
                for dt in (0, 300):
                    out.append({"filter": None, "updates": upd, "events": [[dt, p, 1, 0, 40, h] for p, h in combo]})
    for bad in BAD_ADV:
        for first in ("AdvInd", "AdvNonconn"):
            out.append({"filter": None, "updates": False,
                        "events": [[5, first, 1, 1, 40, "020106"], [5, "ScanRsp", 2, 0, 40, bad], [5, "ScanRsp", 1, 1, 40, bad],
                                   [5, "ScanRsp", 1, 1, 41, "020a01"], [5, "ScanRsp", 1, 1, 41, bad], [600, first, 1, 1, 42, bad]]})
        out.append({"filter": 1, "updates": True,
                    "events": [[0, "ScanRsp", 1, 0, 40, bad], [10, "AdvInd", 2, 0, 40, "020106"], [10, "AdvInd", 1, 0, 40, "020106"],
                               [10, "ScanRsp", 2, 0, 40, bad], [700, "ScanRsp", 1, 0, 40, bad]]})
    # timeout boundary, every kind of second event, both `updates`
    seconds = [("AdvInd", 1, 40, "020106"), ("AdvInd", 1, 41, "020106"), ("AdvInd", 1, 40, "010a"), ("ScanRsp", 1, 40, "020a01"),
               ("ScanRsp", 1, 40, "010a"), ("OtherPdu", 1, 40, ""), ("AdvInd", 2, 40, "020106"), ("ScanRsp", 2, 40, "020a01")]
    for dt in (499, 500, 501, 1000):
        for p, a, rssi, h in seconds:
            for upd in (False, True):
                out.append({"filter": None, "updates": upd,
                            "events": [[7, "AdvInd", 1, 0, 40, "020106"], [dt, p, a, 0, rssi, h],
                                       [1, "AdvNonconn", 3, 0, 40, "020106"], [600, "ScanRsp", 1, 0, 40, "020a02"],
                                       [0, "OtherPdu", 4, 0, 40, ""], [600, "AdvInd", 1, 0, 45, "020106"]]})
    return out


def gen_seq_random(rng, seeds):
    addrs = [1, 2, 3, 4]
    evs = []
    for _ in range(rng.choice([2, 3, 4, 5, 6, 8])):
        pdu = rng.choice(["AdvInd"] * 7 + ["AdvNonconn"] * 3 + ["ScanRsp"] * 8 + ["OtherPdu"] * 2)
        a = rng.choice([1, 1, 1, 2, 2, 3, 4])
        k = rng.random()
        if k < 0.4:
            d = rng.choice(GOOD_ADV) if rng.random() < 0.5 or not seeds else rng.choice(seeds).hex()
        elif k < 0.6:
            d = rng.choice(BAD_ADV)
        elif k < 0.8:
            d = rand_tlv(rng).hex()
        else:
            d = (mutate(rng, rng.choice(seeds)) if seeds else rand_tlv(rng)).hex()
        d = d[:2 * rng.choice([31, 31, 31, 31, 36])]
        evs.append([rng.choice(DTS), pdu, a, rng.randrange(2), rng.choice([40, 40, 41, 60]), d])
    return {"filter": rng.choice([None, None, None, 1, 2, 5]), "updates": rng.random() < 0.5, "events": evs}


BOUNDS = {0x01: [0, 1, 1, 2], 0x02: [0, 1, 2, 3, 4, 5, 6], 0x03: [0, 1, 2, 3, 4, 6], 0x14: [0, 2, 3, 4],
          0x06: [0, 15, 16, 17, 26], 0x07: [0, 15, 16, 17], 0x15: [0, 16, 17],
          0x08: [0, 1, 5, 12], 0x09: [0, 1, 5, 29], 0x0A: [0, 1, 1, 2], 0x12: [0, 3, 4, 4, 5],
          0x16: [0, 1, 2, 3, 10], 0x17: [0, 5, 6, 6, 7, 12, 18], 0x18: [0, 5, 6, 6, 7, 12],
          0x19: [0, 1, 2, 2, 3], 0x1A: [0, 1, 2, 3, 4, 5], 0x1B: [0, 6, 7, 7, 8], 0x1C: [0, 1, 1, 2],
          0x21: [0, 15, 16, 17, 20], 0x27: [0, 1, 1, 2, 8], 0xFF: [0, 1, 2, 3, 10]}
URI_SCHEME_BYTES = [bytes([c]) for c in (1, 2, 0x0C, 0x11, 0x16, 0x17, 0x26)] * 4 + \
    [b"\x41", b"\x00", b"\x7f", b"\x03", b"\xc2\x80", b"\xc4\x96", b"\xe2\x84\x80", b"\xf0\x9f\x98\x80",
     b"\xff", b"\x80", b"\xc0\x96", b"\xed\xa0\x80", b"\xe0\x80\x96", b"\xf4\x90\x80\x80", b"\xc2"]
URI_FRAGS = [b"//", b"//", b"a", b"b.c", b"[", b"]", b"[::1]", b"[v1.x]", b"?", b"#", b";", b"@", b":", b"/", b" ",
             b"\t", b"\n", b"%41", "é".encode(), "℀".encode(), "／".encode(), "﹖".encode(),
             "＃".encode(), b"\x00", b"\xff", b"\xc3", b"\xe2\x82", b"1", b":80", b"x", b"//[", b"////"]


# Structured corner values of the UUID space (wire order = little-endian).
BASE12 = bytes.fromhex("fb349b5f8000008000100000")          # xxxxxxxx-0000-1000-8000-00805F9B34FB without xxxxxxxx
UUID16_CORNERS = [bytes.fromhex(h) for h in ("0000", "ffff", "0f18", "0018", "002a", "aafe", "0100")]
UUID128_CORNERS = (
    [BASE12 + u + b"\x00\x00" for u in UUID16_CORNERS]                                         # 0000xxxx-… Base-UUID aliases
    + [BASE12 + bytes.fromhex(h) for h in ("78563412", "00000100", "ffffffff", "0f180100", "000000ff")]   # 32-bit aliases
    + [bytes(16), b"\xff" * 16]
    + [bytes(c ^ 0x01 if i == j else c for i, c in enumerate(BASE12 + b"\x0f\x18\x00\x00")) for j in range(16)])   # one byte off 0000180F-…


def uuid128(rng):
    return rng.choice(UUID128_CORNERS) if rng.random() < 0.45 else rand_bytes(rng, 16)


def uuid16(rng):
    return rng.choice(UUID16_CORNERS) if rng.random() < 0.35 else rand_bytes(rng, 2)


def rand_bytes(rng, n):
    return bytes(rng.choice([rng.randrange(256), rng.randrange(256), 0, 1, 3, 4, 0xFF, 0x80]) for _ in range(n))


def rand_uri_payload(rng):
    if rng.random() < 0.06:
        return rand_bytes(rng, rng.randrange(0, 6))
    p = rng.choice(URI_SCHEME_BYTES) if rng.random() < 0.93 else b""
    for _ in range(rng.choice([0, 1, 1, 2, 3, 4, 6])):
        p += rng.choice(URI_FRAGS)
    return p[:rng.choice([29, 29, 12, 6])]


def rand_payload(rng, tag):
    if tag == 0x24:
        return rand_uri_payload(rng)
    n = rng.choice(BOUNDS.get(tag, [0, 1, 2, 5, 9]))
    p = rand_bytes(rng, n)
    if tag == 0x1C and n and rng.random() < 0.7:
        p = bytes([rng.randrange(5)]) + p[1:]
    if tag == 0x1B and n >= 7 and rng.random() < 0.7:
        p = p[:6] + bytes([rng.randrange(2)]) + p[7:]
    if tag in (0x06, 0x07, 0x15, 0x21) and n >= 16 and rng.random() < 0.8:
        p = uuid128(rng) + p[16:]
    if tag in (0x02, 0x03, 0x14, 0x16) and n >= 2 and rng.random() < 0.5:
        p = uuid16(rng) + p[2:]
    return p


def rand_tlv(rng):
    out = b""
    for _ in range(rng.choice([1, 1, 2, 2, 3, 4, 5])):
        tag = rng.choice(HANDLED) if rng.random() < 0.85 else rng.choice(UNKNOWN + [rng.randrange(256)])
        p = rand_payload(rng, tag)
        ln = len(p) + 1
        if rng.random() < 0.15:
            ln = rng.choice([0, len(p), len(p) + 2, 255, rng.randrange(256), 1])
        out += bytes([ln & 0xFF, tag]) + p
        if rng.random() < 0.05:
            out += bytes([0] * rng.randrange(1, 4))
    if len(out) > 31 and rng.random() < 0.85:
        out = out[:rng.choice([31, 31, 30, 29])]
    return out[:44]


def mutate(rng, b):
    b = bytearray(b)
    for _ in range(rng.choice([1, 1, 2, 3])):
        op = rng.randrange(7)
        if op == 0 and b:
            b[rng.randrange(len(b))] ^= 1 << rng.randrange(8)
        elif op == 1 and b:
            b[rng.randrange(len(b))] = rng.choice([0, 1, 2, 0xFF, rng.randrange(256)])
        elif op == 2 and b:
            del b[rng.randrange(len(b))]
        elif op == 3:
            b.insert(rng.randrange(len(b) + 1), rng.randrange(256))
        elif op == 4 and b:
            del b[rng.randrange(len(b)):]
        elif op == 5 and b:
            i = rng.randrange(len(b)); j = rng.randrange(i, len(b) + 1)
            b[i:i] = b[i:j]
        else:
            b += rand_tlv(rng)[:6]
    return bytes(b[:44])


def hx(rng, n):
    return rand_bytes(rng, n).hex()

URL_SCHEMES = ["aaa", "aaas", "data", "ftp", "http", "https", "mailto", "http", "https", "HTTP", "Https",
               "gopher", "", "htt p", "1http"]
URL_BODIES = ["//a", "//example.com/x?y#z", "////[", "//[::1]/", "//[", "//]", "x", "", "/p;q", "//a/?", " //a",
              "//é.fr/ü", "//℀/", "a\tb", "//a@b:1/", "//a;b", "?", "#", ";", "a;", "////x", "///x",
              "//a?#", "//€", "//[v1.x]/", "//[zz]/", "a:b", "//a／b", "\U0001f600", "//a/b/c/d/e/f/g/h/i/j/k/l/m"]
EDDY_URLS = ["http://www.a.com/", "https://www.example.org", "http://x.info/y", "https://a.b", "ftp://x", "http://",
             "https://www.", "http://a.comb", "http://é", "http://€", "http://a.gov/.", "https://a..com.org/",
             "", "http://a.co", "https://.biz.biz/x"]


def rand_url(rng):
    if rng.random() < 0.6:
        return rng.choice(URL_SCHEMES) + ":" + rng.choice(URL_BODIES)
    body = "".join(rng.choice(["//", "a", "[", "]", "?", "#", ";", "@", ":", "/", " ", "\t", "é", "℀", "b.c", "%"])
                   for _ in range(rng.randrange(0, 6)))
    return rng.choice(URL_SCHEMES) + ":" + body


def gen_call(rng, k):
    rb = lambda: rng.random() < 0.5
    if k == "Flags":
        return {"k": k, "a": [rb(), rb(), rb(), rb()]}
    if k == "Uuid16s":
        us = [uuid16(rng).hex() for _ in range(rng.choice([0, 1, 1, 2, 3, 5]))]
        if rng.random() < 0.1:
            us.append(uuid128(rng).hex())
        return {"k": k, "a": [rng.choice(["inc", "comp", "sol"]), us]}
    if k == "Uuid128s":
        us = [rng.choice(["", "s:"]) + uuid128(rng).hex() for _ in range(rng.choice([0, 1, 1, 1, 2]))]
        if rng.random() < 0.1:
            us.append(uuid16(rng).hex())
        return {"k": k, "a": [rng.choice(["inc", "comp", "sol"]), us]}
    if k in ("ShortName", "CompleteName"):
        return {"k": k, "a": [hx(rng, rng.choice([0, 1, 4, 8, 20, 29, 30]))]}
    if k == "TxPower":
        return {"k": k, "a": [rng.choice([0, 1, 127, 128, 255, 256, 300, 1000, rng.randrange(256)])]}
    if k == "Manuf":
        return {"k": k, "a": [rng.choice([0, 1, 0x1234, 0xFFFF, 0xFFFF, 0x10000, 0x12345, rng.randrange(65536)]),
                              hx(rng, rng.choice([0, 1, 8, 20, 27, 28]))]}
    if k == "ConnRange":
        v = lambda: rng.choice([0, 6, 0x0C80, 0xFFFF, 0xFFFF, 0x10000, rng.randrange(65536)])
        return {"k": k, "a": [v(), v()]}
    if k == "SvcData16":
        return {"k": k, "a": [uuid16(rng).hex() if rng.random() < 0.92 else uuid128(rng).hex(), hx(rng, rng.choice([0, 1, 5, 20, 27]))]}
    if k in ("PublicTarget", "RandomTarget"):
        return {"k": k, "a": [[hx(rng, 6) for _ in range(rng.choice([0, 1, 1, 2, 3, 4, 5]))]]}
    if k == "Appearance":
        return {"k": k, "a": [rng.choice([0, 1, 63, 64, 961, 0xFFFF, 0x10000, rng.randrange(65536)])]}
    if k == "AdvInterval":
        return {"k": k, "a": [rng.choice([0, 1, 0xFFFF, 0x10000, 0xFFFFFF, 0x1000000, 0xFFFFFFFF, 0x100000000,
                                          rng.randrange(1 << 16), rng.randrange(1 << 24), rng.randrange(1 << 32)])]}
    if k == "DevAddr":
        return {"k": k, "a": [hx(rng, 6), rb()]}
    if k == "LeRole":
        return {"k": k, "a": [rng.randrange(6)]}
    if k == "SvcData128":
        return {"k": k, "a": [rng.choice(["", "s:"]) + uuid128(rng).hex() if rng.random() < 0.92 else uuid16(rng).hex(), hx(rng, rng.choice([0, 1, 5, 13]))]}
    if k == "Uri":
        return {"k": k, "a": [rand_url(rng)]}
    if k == "LeFeatures":
        return {"k": k, "a": [rb() for _ in range(8)]}
    if k == "Eddystone":
        return {"k": k, "a": [rng.choice(EDDY_URLS)]}
    raise KeyError(k)

KINDS = ["Flags", "Uuid16s", "Uuid128s", "ShortName", "CompleteName", "TxPower", "Manuf", "ConnRange", "SvcData16",
         "PublicTarget", "RandomTarget", "Appearance", "AdvInterval", "DevAddr", "LeRole", "SvcData128", "Uri",
         "LeFeatures", "Eddystone"]


def call_domain(c, stable):
    """None when the constructor arguments are admissible (Coq: call_ok), else the finding class."""
    k, a = c["k"], c["a"]
    if k == "Uri" and stable is False:
        return KEY_URI
    if k == "Manuf" and a[0] >= 65536:
        return KEY_DOMAIN
    if k in ("PublicTarget", "RandomTarget") and not a[0]:
        return KEY_DOMAIN
    if k == "SvcData16" and len(a[0]) != 4:
        return KEY_DOMAIN
    return None


def walk_has_handled(b):
    """Does the TLV walk of from_bytes meet at least one handled type?"""
    i = 0
    while len(b) - i >= 2:
        ln, t = b[i], b[i + 1]
        if len(b) - i - 2 < ln - 1:
            return True   # length error branch
        if t in HANDLED:
            return True
        i += ln + 1
    return False


def load_corpus():
    cdir = os.path.join(C.VERIF, "corpus", PID)
    items = []
    for fn in sorted(os.listdir(cdir)) if os.path.isdir(cdir) else []:
        if fn.endswith(".json"):
            w = json.load(open(os.path.join(cdir, fn)))
            for case in w.get("cases", [w]):
                items.append((fn, w.get("kind", "corpus"), case))
    return items


# ---------------------------------------------------------------------------
# The check
# ---------------------------------------------------------------------------

def run(ctx):
    C.build_dir(PID, clean=True)
    rng = ctx.rng
    T = ctx.thorough
    ctx.cov["trusted_base"] = [
        "Coq 8.16.1 kernel + vm_compute (no native_compute); theorems closed under the global context (Print Assumptions checked each run)",
        "hand-written model coq/theories/C15/Model.v tied to whad/ble/profile/advdata.py by the correspondence of this run (outcome class + class id, .type, exposed values, bytes of every record)",
        "urllib.parse (urlparse + _replace(scheme='').geturl()) is a universally quantified function parameter of the model: the theorems assume nothing about it; its results on the run's inputs are recorded from the implementation and fed to the model",
        "Lib/Utf8.v = CPython's strict UTF-8 codec: compared with CPython on all 1- and 2-byte strings exhaustively and on sampled longer strings / code points",
        "struct.pack/unpack('<BB','<H','<HH','<I') and BDAddress.from_bytes as transcribed in Model.v (exercised by every case)",
        "whad UUID(bytes|int): uuid_of_bytes / uuid_of_int assume UUID(b).packed == b with type 16-bit for 2 bytes and 128-bit for 16 bytes (same for the text and int forms); this obligation is checked on the implementation every run over the corner values of the UUID space (Base-UUID aliases, 32-bit aliases, all-zero, all-FF, one-byte neighbours) and random values",
        "'b0 | b1<<8 | b2<<16' on bytes modelled as b0 + 256 b1 + 65536 b2",
    ]
    ctx.assumptions = [
        "parse_serialise: each record is well formed (wf_rec): byte-string fields are bytes, UUID/address items have their size, integers are within the field they are packed in (company < 2^16, interval < 2^32, role < 4, ...), target-address lists are non-empty, a URI is valid text whose 'scheme:uri' form urlparse maps to itself; the list fits 31 bytes",
        "parser_total: the input is a byte string (every element < 256); no assumption on urllib",
    ]
    proofs_ok, detail = ctx.check_proofs(lib_targets=["theories/Lib/Bytes.vo", "theories/Lib/Utf8.vo"])
    # TLV arithmetic of from_bytes and three fixed-size record decoders regenerated from the source and proved
    # equal to the model (harness/translators/pyfun.py, theories/C15/{Gen,GenEq,PropertyGen}.v, design/PYTRANS.md)
    gen = pyfun_util.check_generated(ctx, PID)
    if not gen["ok"]:
        proofs_ok, detail = False, (detail if not proofs_ok else str(gen["what"])) + gen["detail"]
    ctx.log("proofs:", proofs_ok, detail.splitlines()[0][:200])

    # ---- generation -----------------------------------------------------------
    corpus = load_corpus()
    parse_in, parse_meta = [], []
    def addp(b, kind, **kw):
        parse_in.append(bytes(b)); parse_meta.append(dict(kind=kind, **kw))
    build_in, build_meta = [], []
    def addb(calls, kind, **kw):
        build_in.append(calls); build_meta.append(dict(kind=kind, **kw))
    for fn, kind, case in corpus:
        if case["op"] == "parse":
            addp(bytes.fromhex(case["hex"]), "corpus", file=fn, ckind=kind)
        else:
            addb(case["calls"], "corpus", file=fn, ckind=kind)
    # exhaustive: all strings of length 0, 1 (individual cases) and 2 (rows: prefix [a], last byte 0..255)
    addp(b"", "exh0")
    for a in range(256):
        addp(bytes([a]), "exh1")
    rows_in = [bytes([a]) for a in range(256)]
    # structured subset of length 3: [len, tag, x]; thorough: whole rows x = 0..255
    xs = sorted({0, 1, 2, 3, 4, 6, 7, 0x16, 0x41, 0x7F, 0x80, 0xC2, 0xFF} | {rng.randrange(256) for _ in range(4)})
    for t in HANDLED + [0x00, 0x04, 0x80]:
        for ln in (0, 1, 2, 3):
            if T:
                rows_in.append(bytes([ln, t]))
            else:
                for x in xs:
                    addp(bytes([ln, t, x]), "len3")
    n_single = len(parse_in)
    for pre in rows_in:
        for x in range(256):
            addp(pre + bytes([x]), "exh2" if len(pre) == 1 else "len3")
    # structured corner values of the UUID space in every UUID-bearing record, both directions
    for u in UUID128_CORNERS:
        for t in (0x06, 0x07, 0x15):
            addp(bytes([17, t]) + u, "uuid-corner")
        addp(bytes([18, 0x21]) + u + b"\x2a", "uuid-corner")
        addp(bytes([2, 0x01, 0x06, 17, 0x07]) + u + bytes([3, 0x03]) + UUID16_CORNERS[len(u) % 7], "uuid-corner")
    for u in UUID16_CORNERS:
        for t in (0x02, 0x03, 0x14, 0x16):
            addp(bytes([5, t]) + u + UUID16_CORNERS[0], "uuid-corner")
    for n, u in enumerate(UUID128_CORNERS):
        for form in ("", "s:"):
            addb([{"k": "Uuid128s", "a": [("inc", "comp", "sol")[n % 3], [form + u.hex()]]}], "uuid-corner")
            addb([{"k": "SvcData128", "a": [form + u.hex(), "2a"]}], "uuid-corner")
    for u in UUID16_CORNERS:
        addb([{"k": "Uuid16s", "a": ["comp", [u.hex(), UUID16_CORNERS[1].hex()]]}], "uuid-corner")
        addb([{"k": "SvcData16", "a": [u.hex(), "2a"]}], "uuid-corner")
    for _ in range(20000 if T else 1500):
        addp(rand_tlv(rng), "tlv")
    # constructor-call lists
    for k in KINDS:
        for _ in range(200 if T else 18):
            addb([gen_call(rng, k)], "single")
    for _ in range(4000 if T else 300):
        n = rng.choice([2, 2, 3, 3, 4, 5, 7])
        calls = [gen_call(rng, rng.choice(KINDS)) for _ in range(n)]
        addb(calls, "mix")

    # ---- implementation: builds first (their serialisations seed the mutations) ----
    rb = C.run_impl("C15.py", {"build": build_in})["build"]
    seeds = [bytes.fromhex(r["bytes"]) for r in rb if "bytes" in r and r["bytes"]]
    for r in rb:
        if "bytes" in r:
            addp(bytes.fromhex(r["bytes"]), "roundtrip")
    for _ in range(10000 if T else 800):
        addp(mutate(rng, rng.choice(seeds)) if seeds else rand_tlv(rng), "mutation")
    rp = C.run_impl("C15.py", {"parse": [b.hex() for b in parse_in]})["parse"]
    # scanning path on a sample (witnesses first)
    scan_in = []
    for i, m in enumerate(parse_meta):
        if m["kind"] == "corpus" and len(parse_in[i]) <= 31:
            scan_in += [[k, parse_in[i].hex()] for k in (0, 1, 2)]
    for i, m in enumerate(parse_meta):
        if m["kind"] == "uuid-corner":
            scan_in.append([i % 3, parse_in[i].hex()])
    pool = [i for i, m in enumerate(parse_meta) if m["kind"] in ("tlv", "mutation", "len3") and len(parse_in[i]) <= 31]
    for i in rng.sample(pool, min(len(pool), 3000 if T else 300)):
        scan_in.append([rng.randrange(3), parse_in[i].hex()])
    rs = C.run_impl("C15.py", {"scan": scan_in})["scan"]
    # sequences of advertisements on one AdvertisingDevicesDB
    seq_in = gen_seq_systematic()
    n_seq_sys = len(seq_in)
    for _ in range(4000 if T else 450):
        seq_in.append(gen_seq_random(rng, seeds))
    rq = C.run_impl("C15.py", {"seq": seq_in})["seq"]
    # operation sequences on the API: parse / edit through the setters / parse again / serialise
    api_x = [bytes.fromhex(h) for h in ("0909546573744e616d65", "0908546573744e616d65", "0bff341254657374446174610201060308414243", "020106", "0324fffe", "02010605ff34120102")]
    named = [b for b in seeds if any(t in (0x08, 0x09, 0xFF) for t in b[1:2]) or (0xFF in b or 0x09 in b or 0x08 in b)]
    rng.shuffle(named)
    api_x += named[:(1200 if T else 110)] + [rand_tlv(rng)[:31] for _ in range(300 if T else 40)]
    api_ref = C.run_impl("C15.py", {"parse": [b.hex() for b in api_x]})["parse"]     # clean process
    api_in = [gen_api_case(rng, x, r) for x, r in zip(api_x, api_ref)]
    n_api_parsed = len(api_in)
    for _ in range(1500 if T else 160):
        api_in.append(gen_built_case(rng))
        api_x.append(b""); api_ref.append({})
    ra = C.run_impl("C15.py", {"api": api_in})["api"]                               # ONE process for all sequences
    # CPython codec facts
    dec_in = [bytes([a]) for a in range(256)]
    LEADS = [0x00, 0x41, 0x7F, 0x80, 0xBF, 0xC0, 0xC1, 0xC2, 0xDF, 0xE0, 0xE1, 0xEC, 0xED, 0xEE, 0xEF, 0xF0, 0xF1, 0xF3, 0xF4, 0xF5, 0xFF]
    CONTS = [0x00, 0x7F, 0x80, 0x8F, 0x90, 0x9F, 0xA0, 0xBF, 0xC0, 0xFF]
    for a in LEADS:
        for b in CONTS:
            for c in CONTS:
                dec_in.append(bytes([a, b, c]))
                if T or a >= 0xF0:
                    for d in (CONTS if T else [0x7F, 0x80, 0xBF, 0xC0]):
                        dec_in.append(bytes([a, b, c, d]))
    for _ in range(20000 if T else 1500):
        n = rng.choice([3, 3, 4, 4, 5, 8])
        dec_in.append(bytes(rng.choice(LEADS + CONTS + [rng.randrange(256)]) for _ in range(n)))
    enc_in = [[c] for c in (0, 0x7F, 0x80, 0x7FF, 0x800, 0xD7FF, 0xD800, 0xDBFF, 0xDC00, 0xDFFF, 0xE000, 0xFFFF,
                            0x10000, 0x10FFFF, 0x110000, 0x16, 0x2100)]
    for _ in range(3000 if T else 300):
        enc_in.append([rng.choice([rng.randrange(0x80), rng.randrange(0x800), rng.randrange(0x10000),
                                   rng.randrange(0x110000), 0xD800 + rng.randrange(0x800)])
                       for _ in range(rng.choice([1, 2, 3]))])
    # the UUID class on its own, over the corner values and random ones (the model's uuid_of_bytes / uuid_of_int)
    uuid_in = UUID128_CORNERS + UUID16_CORNERS + [rand_bytes(rng, 16) for _ in range(300 if T else 40)] \
        + [rand_bytes(rng, 2) for _ in range(100 if T else 20)]
    rx = C.run_impl("C15.py", {"uuid": [b.hex() for b in uuid_in]})["uuid"]
    ru = C.run_impl("C15.py", {"utf8": {"rows": True, "decode": [b.hex() for b in dec_in], "encode": enc_in}})["utf8"]
    # exhaustive length 3 on the implementation only (thorough): 16.7M strings, 16 processes
    exh = None
    if T:
        def part(k):
            return C.run_impl("C15.py", {"exh": {"len": 3, "lo": 16 * k, "hi": 16 * (k + 1)}}, timeout=1500)["exh"]
        with concurrent.futures.ThreadPoolExecutor(16) as ex:
            parts = list(ex.map(part, range(16)))
        exh = {"counts": {}, "bad": []}
        for p in parts:
            for k, v in p["counts"].items():
                exh["counts"][k] = exh["counts"].get(k, 0) + v
            exh["bad"] += p["bad"]
    n_eval = sum(len(c["events"]) for c in seq_in) + len(parse_in) + len(build_in) + len(scan_in) + len(dec_in) + len(enc_in) + 65536 + (1 << 24 if T else 0)
    ctx.cov["evaluations"] = n_eval
    ctx.cov["traces_validated_against_impl"] = len(seq_in) + len(parse_in) + len(build_in) + len(dec_in) + len(enc_in) + 256
    ctx.log("impl: %d parse, %d build, %d scan, %d scan sequences, %d utf8 cases" % (len(parse_in), len(build_in), len(scan_in), len(seq_in), len(dec_in) + len(enc_in)))

    # ---- oracle: the property on the real code ---------------------------------------
    shrunk = set()
    seen_classes = {}
    def report(cls, what, case, **kw):
        """At most two VIOLATION lines per class of failure (the rest is counted)."""
        seen_classes[cls] = seen_classes.get(cls, 0) + 1
        if seen_classes[cls] <= 2 or kw.get("key") in ctx.kf:
            ctx.violation(what, case, **kw)
    for i, b in enumerate(parse_in):
        res, m = rp[i], parse_meta[i]
        case = {"op": "parse", "hex": b.hex(), "kind": m["kind"]}
        if len(b) > 31:
            if res.get("exc") != "AdvDataFieldListOverflow":
                report("parse-overflow", "from_bytes of %d bytes did not raise AdvDataFieldListOverflow" % len(b), case,
                              expected="AdvDataFieldListOverflow", observed=res.get("exc", "returned a list"))
        elif "exc" in res and res["exc"] != "AdvDataError":
            if res["exc"] not in shrunk:
                shrunk.add(res["exc"])
                case = {"op": "parse", "hex": shrink_parse(b, res["exc"]).hex(), "kind": m["kind"], "unshrunk": b.hex()}
            report("parse-" + res["exc"], "from_bytes raised %s (only AdvDataError may escape)" % res["exc"], case,
                          expected="record list or AdvDataError", observed=res["exc"])
    for i, (k, h) in enumerate(scan_in):
        if "exc" in rs[i]:
            report("scan-" + rs[i]["exc"], "on_device_found raised %s on an advertisement" % rs[i]["exc"],
                          {"op": "scan", "pdu": k, "hex": h}, expected="no exception", observed=rs[i]["exc"])
    seq_scapy = 0
    for i, case in enumerate(seq_in):
        last = rq[i]["steps"][-1] if rq[i]["steps"] else {}
        if "scapy_exc" in last:
            seq_scapy += 1
        if "exc" in last:
            cls = "seq-" + last["exc"]
            c2 = case
            if seen_classes.get(cls, 0) < 1:
                c2 = shrink_seq(case, last["exc"])
            report(cls, "on_device_found raised %s during a sequence of advertisements (step %d)" % (last["exc"], len(rq[i]["steps"])),
                   {"op": "seq", "case": c2, "kind": "systematic" if i < n_seq_sys else "random"},
                   expected="no exception for any sequence", observed=last["exc"])
    # UUID constructor obligation: UUID(b) keeps b as its packed form, 2 bytes -> 16-bit, 16 bytes -> 128-bit,
    # whatever form (bytes, text, int) it is built from
    for b, r in zip(uuid_in, rx):
        want = [b.hex(), 1 if len(b) == 2 else 2]
        for form, got in sorted(r.items()):
            if got != want:
                report("uuid-constructor", "UUID(%s form of %s) gives %r: a %d-bit UUID must keep its %d bytes as packed form and its type "
                       "(the records 0x02-0x07, 0x14-0x16, 0x21 are built on this)" % (form, b.hex(), got, 8 * len(b), len(b)),
                       {"op": "uuid", "hex": b.hex(), "form": form}, expected=want, observed=got)
    # API sequences: every parse of x returns what a parse of x returns in a clean process, whatever
    # was done to records returned by earlier parses; a list nobody edited serialises as in the clean process
    n_api_parse = n_api_edits = n_api_ser = 0
    for i, ops in enumerate(api_in):
        ref, x = api_ref[i], api_x[i]
        edited, k, bad = set(), 0, None
        built = i >= n_api_parsed
        for op, st in zip(ops, ra[i]["steps"]):
            if "op_exc" in st:
                bad = ("operation %r raised %s: the list does not hold the records that were built / added" % (op[:3], st["op_exc"]),
                       "a list holding one record per constructor call / add()", st["op_exc"])
                break
            if op[0] == "parse":
                n_api_parse += 1
                if st.get("out") != ref.get("out") or st.get("exc") != ref.get("exc"):
                    bad = ("from_bytes(x) after operations on earlier results differs from from_bytes(x) in a fresh process", ref.get("out", ref.get("exc")), st.get("out", st.get("exc")))
                    break
                if "out" in st:
                    k += 1
            elif op[0] in ("set", "add", "remove"):
                edited.add(op[1]); n_api_edits += 1
            elif op[0] in ("ser", "reparse"):
                n_api_ser += 1
                # to_bytes() = the serialisation of the records the list holds NOW (= of a new list holding them)
                if st.get("bytes") != st.get("fresh") or st.get("exc") != st.get("fresh_exc"):
                    bad = ("to_bytes() differs from the serialisation of the records the list currently holds (stale bytes)",
                           st.get("fresh", st.get("fresh_exc")), st.get("bytes", st.get("exc")))
                    break
                if op[0] == "ser" and not built and op[1] not in edited and st.get("bytes") != ref.get("reser"):
                    bad = ("from_bytes(x).to_bytes() of a list that was never edited differs from the fresh-process value", ref.get("reser"), st.get("bytes", st.get("exc")))
                    break
                # built lists stay inside the round-trip domain: the parse exposes the CURRENT values
                if op[0] == "reparse" and built and "bytes" in st and st.get("out") != st["current"]:
                    bad = ("from_bytes(list.to_bytes()) does not expose the values the list currently holds", st["current"], st.get("out", st.get("parse_exc")))
                    break
        if bad:
            report("api-sequence", bad[0], {"op": "api", "x": x.hex(), "ops": shrink_api(ops, x) if seen_classes.get("api-sequence", 0) < 1 else ops},
                   expected=bad[1], observed=bad[2])
    ctx.cov["api_sequences"] = {"sequences": len(api_in), "on_parsed_lists": n_api_parsed, "on_built_lists": len(api_in) - n_api_parsed,
                                "parses": n_api_parse, "edits_add_remove_setters": n_api_edits, "serialisations_checked_against_current_records": n_api_ser}
    # what is reported when (plain scans: updates=False, no filter, so the returned list is
    # exactly what the timeout sweep reports): a device is returned exactly once, by the first
    # call after which it has a scan response or that is made > 500 ms after it was first stored
    n_when = 0
    for i, case in enumerate(seq_in):
        if case["updates"] or case["filter"] is not None or any("ret" not in st for st in rq[i]["steps"]):
            continue
        n_when += 1
        t, first_seen, returned, bad = 0, {}, {}, None
        for k, (ev, st) in enumerate(zip(case["events"], rq[i]["steps"])):
            t += ev[0]
            for a in st["known"]:
                first_seen.setdefault(a, t)
            exp = sorted(a for a in st["known"] if a not in returned and (a in st["got"] or t - first_seen[a] > 500))
            if sorted(st["ret"]) != exp:
                bad = (k, exp, st["ret"])
                break
            for a in st["ret"]:
                returned[a] = k
        if bad:
            c2 = case
            if seen_classes.get("seq-reported-when", 0) < 1:
                c2, w2 = shrink_when(case)
                bad = w2 or bad
            report("seq-reported-when", "on_device_found (updates=False, no filter) returned %r at call %d; a device must be reported exactly once: "
                   "by the call that stores its scan response or the first call more than 500 ms after it was first seen (expected %r)"
                   % (bad[2], bad[0] + 1, bad[1]), {"op": "seq", "case": c2, "kind": "reported-when"}, expected=bad[1], observed=bad[2])
    ctx.cov["plain_scans_checked_for_report_time"] = n_when
    if exh:
        for h, nme in exh["bad"][:3]:
            ctx.violation("from_bytes raised %s (exhaustive length-3 sweep)" % nme, {"op": "parse", "hex": h, "kind": "exh3"},
                          expected="record list or AdvDataError", observed=nme)
    n_rt = n_rt_ok = 0
    ctx.cov["failure_classes_seen"] = seen_classes
    for i, calls in enumerate(build_in):
        res, m = rb[i], build_meta[i]
        case = {"op": "build", "calls": calls, "kind": m["kind"]}
        if "ctor_exc" in res:
            continue
        size = sum(len(r[3]) // 2 for r in res["recs"])
        if size <= 31 and "bytes" not in res:
            report("to_bytes-" + res["to_bytes_exc"], "to_bytes raised %s although the records take %d bytes" % (res["to_bytes_exc"], size), case,
                          expected="bytes", observed=res["to_bytes_exc"])
            continue
        if size > 31:
            if res.get("to_bytes_exc") != "AdvDataFieldListOverflow":
                report("to_bytes-overflow", "to_bytes of %d bytes of records did not raise AdvDataFieldListOverflow" % size, case,
                              expected="AdvDataFieldListOverflow", observed=res.get("to_bytes_exc", "returned bytes"))
            continue
        n_rt += 1
        rep = res["reparse"]
        if rep.get("out") == res["recs"]:
            n_rt_ok += 1
            continue
        keys = [call_domain(c, s) for c, s in zip(calls, res["uri_stable"])]
        keys = [k for k in keys if k]
        report("roundtrip-" + (keys[0] if keys else "mismatch"),
               "from_bytes(to_bytes(l)) differs from l", case, key=(keys[0] if keys else None),
                      expected=res["recs"], observed=rep.get("out", rep.get("exc")))

    # ---- correspondence inside Coq -------------------------------------------------------
    # row cases occupy parse_in[n_single : n_single + 256 * len(rows_in)]
    row_lo, row_hi = n_single, n_single + 256 * len(rows_in)
    pidx = [i for i in range(len(parse_in)) if not (row_lo <= i < row_hi)]
    pterms = [cparse_case(parse_in[i], rp[i]) for i in pidx]
    rterms = []
    for k, pre in enumerate(rows_in):
        outs, codes, urls = [], [], []
        for x in range(256):
            res = rp[row_lo + 256 * k + x]
            o = "ObsOk %s" % clist([cobs(z) for z in res["out"]]) if "out" in res else "ObsRaise %s" % cexn(res["exc"])
            if o not in outs:
                outs.append(o)
            codes.append(outs.index(o))
            urls += res["urls"]
        rterms.append("(%s, %s, %s, %s)" % (cbytes(pre), ctable(urls), clist(outs), cints(codes)))
    bterms = [cbuild_case(c, rb[i]) for i, c in enumerate(build_in)]
    bad_p, logs_p = C.run_cases(PID, "parse", PRE, "bytes * url_table * obs_out (list obs)", pterms, "check_parse", shard=600)
    bad_p = [pidx[i] for i in bad_p]
    bad_w, logs_w = C.run_cases(PID, "rows", PRE, "bytes * url_table * list (obs_out (list obs)) * list N", rterms, "check_parse_row", shard=32)
    bad_p += [row_lo + 256 * k for k in bad_w]
    bad_b, logs_b = C.run_cases(PID, "build", PRE, "list call * url_table * obs_out (list obs * obs_out bytes)", bterms, "check_build", shard=330)
    sidx = [i for i, r in enumerate(rq) if not any("scapy_exc" in st for st in r["steps"])]
    sterms = [cseq_case(seq_in[i], rq[i]) for i in sidx]
    bad_s, logs_s = C.run_cases(PID, "seq", PRE, "option N * bool * url_table * list event * list (obs_out (list N)) * list (N * option dev_obs)",
                                sterms, "check_scan", shard=120)
    bad_s = [sidx[i] for i in bad_s]
    aterms = [capi_case(ops, ra[i]) for i, ops in enumerate(api_in)]
    bad_a, logs_a = C.run_cases(PID, "api", PRE, "url_table * list api_op * list api_obs", aterms, "check_api", shard=60)
    rows = ["(%d, %s)" % (a, cints(ru["rows"][a])) for a in range(256)]
    dterms = ["(%s, %s)" % (cbytes(b), C.copt(ru["decode"][i], cints)) for i, b in enumerate(dec_in)]
    eterms = ["(%s, %s)" % (cints(c), C.copt(ru["encode"][i], lambda h: cbytes(bytes.fromhex(h)))) for i, c in enumerate(enc_in)]
    bad_r, logs_r = C.run_cases(PID, "utf8rows", PRE, "N * list N", rows, "check_utf8_row", shard=32)
    bad_d, logs_d = C.run_cases(PID, "utf8dec", PRE, "bytes * option text", dterms, "check_utf8_decode", shard=1600)
    uterms = ["(%s, %s)" % (cbytes(b), "None" if not isinstance(r["bytes"], list) else "(Some (%s, %d))" % (cbytes(bytes.fromhex(r["bytes"][0])), r["bytes"][1]))
              for b, r in zip(uuid_in, rx)]
    bad_u, logs_u = C.run_cases(PID, "uuid", PRE, "bytes * option (bytes * N)", uterms, "check_uuid_bytes", shard=600)
    bad_e, logs_e = C.run_cases(PID, "utf8enc", PRE, "text * option bytes", eterms, "check_utf8_encode", shard=600)
    ctx.notes += logs_s[:2] + logs_p[:2] + logs_w[:2] + logs_b[:2] + logs_r[:1] + logs_d[:1] + logs_e[:1]
    ctx.log("correspondence: api sequences %d/%d bad, scan sequences %d/%d bad, parse %d/%d bad (%d individual cases + %d rows of 256), build %d/%d bad, utf8 rows %d/256, decode %d/%d, encode %d/%d bad"
            % (len(bad_a), len(aterms), len(bad_s), len(sterms), len(bad_p), len(pterms) + 256 * len(rterms), len(pterms), len(rterms), len(bad_b), len(bterms), len(bad_r), len(bad_d), len(dterms), len(bad_e), len(eterms)))

    # ---- coverage --------------------------------------------------------------------------
    per_tag = {}
    for i, res in enumerate(rp):
        for o in res.get("out", []):
            per_tag.setdefault("0x%02x" % o[0], {"ok": 0})["ok"] += 1
    err_kinds = {}
    for res in rp:
        if "exc" in res:
            err_kinds[res["exc"]] = err_kinds.get(res["exc"], 0) + 1
    # which handler raised the error: single-record inputs whose tag is handled
    err_by_tag = {}
    for i, b in enumerate(parse_in):
        if "exc" in rp[i] and len(b) >= 2 and b[1] in HANDLED and 0 < b[0] and len(b) - 2 >= b[0] - 1:
            err_by_tag["0x%02x" % b[1]] = err_by_tag.get("0x%02x" % b[1], 0) + 1
    uncovered = ["decoder 0x%02x never returned a record" % t for t in HANDLED if "0x%02x" % t not in per_tag]
    uncovered += ["decoder 0x%02x never raised AdvDataError" % t for t in HANDLED
                  if "0x%02x" % t not in err_by_tag and t not in (0x02, 0x03, 0x06, 0x07, 0x08, 0x09, 0x14, 0x15)]
    ctor_kinds = {}
    for calls, res in zip(build_in, rb):
        for c in calls:
            d = ctor_kinds.setdefault(c["k"], {"n": 0})
            d["n"] += 1
    ctx.cov["distinct_nontrivial"] = C.distinct_count(
        [["p", b.hex()] for b in parse_in if walk_has_handled(b)] + [["b", c] for c in build_in] + [["s", c] for c in seq_in])
    ctx.cov["rule"] = ("parse cases: corpus witnesses, ALL byte strings of length <= 2, [len,tag,x] triples, structure-aware random TLV "
                       "sequences (payload lengths on each class's boundaries, wrong length bytes, zero padding, > 31 bytes), mutations of the "
                       "implementation's own serialisations, and those serialisations; build cases: constructor calls over all 19 constructors "
                       "with boundary/out-of-range values, single and mixed lists. Non-trivial = the TLV walk meets a handled type or a length "
                       "error (parse) / any constructor list (build); distinct by content hash")
    ctx.cov["distribution"] = {
        "parse_cases": len(parse_in), "parse_kinds": {k: sum(1 for m in parse_meta if m["kind"] == k) for k in sorted({m["kind"] for m in parse_meta})},
        "parse_lengths": {"<=2": sum(1 for b in parse_in if len(b) <= 2), "3..31": sum(1 for b in parse_in if 3 <= len(b) <= 31), ">31": sum(1 for b in parse_in if len(b) > 31)},
        "parse_ok": sum(1 for r in rp if "out" in r), "parse_error_kinds": err_kinds,
        "records_returned_per_class": per_tag, "single_record_errors_per_class": err_by_tag,
        "build_cases": len(build_in), "constructor_calls": {k: v["n"] for k, v in sorted(ctor_kinds.items())},
        "build_ctor_errors": sum(1 for r in rb if "ctor_exc" in r), "build_overflow": sum(1 for r in rb if r.get("to_bytes_exc") == "AdvDataFieldListOverflow"),
        "round_trips_checked": n_rt, "round_trips_equal": n_rt_ok,
        "urlparse_calls_recorded": sum(len(r["urls"]) for r in rp) + sum(len(r["urls"]) for r in rb),
        "scan_cases": len(scan_in),
        "scan_sequences": len(seq_in), "scan_sequences_systematic": n_seq_sys, "scan_events": sum(len(c["events"]) for c in seq_in),
        "scan_events_by_pdu": {p: sum(1 for c in seq_in for e in c["events"] if e[1] == p) for p in ("AdvInd", "AdvNonconn", "ScanRsp", "OtherPdu")},
        "scan_final_phases": {"waiting": sum(1 for r in rq for _i, d in r["final"] if d is not None and not d[4]),
                              "complete": sum(1 for r in rq for _i, d in r["final"] if d is not None and d[4]),
                              "unknown": sum(1 for r in rq for _i, d in r["final"] if d is None)},
        "scan_devices_reported": {"after_scan_response": sum(1 for r in rq for _i, d in r["final"] if d is not None and d[7] and d[4]),
                                  "after_timeout": sum(1 for r in rq for _i, d in r["final"] if d is not None and d[7] and not d[4]),
                                  "not_reported": sum(1 for r in rq for _i, d in r["final"] if d is not None and not d[7])},
        "scan_events_scapy_rejoin_differs": sum(1 for c, r in zip(seq_in, rq) for e, st in zip(c["events"], r["steps"]) if st.get("joined") != e[5]),
        "scan_sequences_scapy_raised": seq_scapy, "utf8_decode_cases": len(dec_in) + 65536, "utf8_encode_cases": len(enc_in),
        "utf8_decode_valid": sum(1 for d in ru["decode"] if d is not None),
        "exhaustive_len3_oracle": exh["counts"] if exh else "thorough tier only",
    }
    ctx.cov["uncovered_branches"] = uncovered
    def sample(i):
        return {"parse": parse_in[i].hex(), "impl": {k: v for k, v in rp[i].items() if k != "urls"}, "kind": parse_meta[i]["kind"]}
    tl = [i for i, m in enumerate(parse_meta) if m["kind"] == "tlv" and "out" in rp[i] and rp[i]["out"]]
    ctx.cov["samples"] = [sample(0), sample(tl[0] if tl else 1), sample(len(parse_in) - 1),
                          {"build": build_in[-1], "impl": {k: v for k, v in rb[-1].items() if k not in ("urls", "reparse")}}]
    ctx.cov["samples"].append({"seq": seq_in[-1], "impl": {k: v for k, v in rq[-1].items() if k != "urls"}})
    ctx.cov["source_ties"] = ctx.cov.get("source_ties", []) + [C.source_tie("whad/ble/profile/advdata.py", 24, 1185),
                              C.source_tie("whad/ble/profile/advdata.py", 1187, 1340),
                              C.source_tie("whad/ble/profile/attribute.py", 513, 600),
                              C.source_tie("whad/hub/ble/bdaddr.py", 1, 106),
                              C.source_tie("whad/ble/scanning.py", 19, 401)]
    ctx.cov["correspondence"] = {"api_sequences": len(aterms), "api_sequences_bad": len(bad_a), "scan_sequences": len(sterms), "scan_sequences_bad": len(bad_s), "parse_cases": len(pterms) + 256 * len(rterms), "parse_rows_of_256": len(rterms), "parse_bad": len(bad_p), "build_cases": len(bterms), "build_bad": len(bad_b),
                                 "utf8_rows_bad": len(bad_r), "utf8_decode_bad": len(bad_d), "utf8_encode_bad": len(bad_e)}

    # ---- verdict ------------------------------------------------------------------------------
    ctx.cov["uuid_constructor_obligation"] = {"values": len(uuid_in), "corner_values": len(UUID128_CORNERS) + len(UUID16_CORNERS),
                                              "forms": "bytes, text (128-bit), int (16-bit)", "model_disagreements": len(bad_u)}
    if (bad_u or bad_a or bad_s or bad_p or bad_b or bad_r or bad_d or bad_e or not proofs_ok) and not ctx.violations:
        first, what = None, None
        if bad_u:
            first = {"op": "uuid", "hex": uuid_in[bad_u[0]].hex(), "impl": rx[bad_u[0]]}
            what = "UUID constructor obligation: C15.Model.uuid_of_bytes vs whad UUID(bytes) (%d of %d values disagree)" % (len(bad_u), len(uterms))
        elif bad_a:
            i = bad_a[0]
            first = {"op": "api", "x": api_x[i].hex(), "ops": api_in[i], "impl": ra[i]["steps"]}
            what = "correspondence C15.Model.api_run vs parse/edit/parse/serialise sequences on the real API (%d of %d disagree)" % (len(bad_a), len(aterms))
        elif bad_s:
            i = bad_s[0]
            first = {"op": "seq", "case": seq_in[i], "impl": {k: v for k, v in rq[i].items() if k != "urls"}}
            what = "correspondence C15.Model.scan vs AdvertisingDevicesDB.on_device_found (%d of %d sequences disagree)" % (len(bad_s), len(sterms))
        elif bad_p:
            i = bad_p[0]
            first = {"op": "parse", "hex": parse_in[i].hex(), "impl": rp[i]}
            what = "correspondence C15.Model.from_bytes vs AdvDataFieldList.from_bytes (%d individual cases / rows of %d disagree)" % (len(bad_p), len(pterms) + len(rterms))
        elif bad_b:
            i = bad_b[0]
            first = {"op": "build", "calls": build_in[i], "impl": {k: v for k, v in rb[i].items() if k != "reparse"}}
            what = "correspondence C15.Model.construct/to_bytes vs the record constructors / to_bytes (%d of %d cases disagree)" % (len(bad_b), len(bterms))
        elif bad_r or bad_d or bad_e:
            first = ({"utf8_row_first_byte": bad_r[0]} if bad_r else
                     {"utf8_decode": dec_in[bad_d[0]].hex(), "cpython": ru["decode"][bad_d[0]]} if bad_d else
                     {"utf8_encode": enc_in[bad_e[0]], "cpython": ru["encode"][bad_e[0]]})
            what = "Lib/Utf8 vs CPython's utf-8 codec"
        else:
            what = "proof obligations of theories/C15: " + detail.splitlines()[0][:200]
        ctx.broken_obligation(what, detail if not proofs_ok else "\n".join(logs_a + logs_s + logs_p + logs_w + logs_b + logs_r + logs_d + logs_e), first)


def shrink_parse(b, cls):
    """Delta debugging on the byte string keeping the same escaping exception class: every
    round tries all deletions of a window cur[i:j] (one driver call), keeps the shortest."""
    cur = bytes(b)
    for _ in range(12):
        cands = sorted({cur[:i] + cur[j:] for i in range(len(cur)) for j in range(i + 1, len(cur) + 1)}, key=len)
        if not cands:
            break
        res = C.run_impl("C15.py", {"parse": [c.hex() for c in cands]})["parse"]
        nxt = [c for c, r in zip(cands, res) if r.get("exc") == cls]
        if not nxt:
            break
        cur = nxt[0]
    return cur


def shrink_seq(case, cls):
    """Drop events while some call still raises the same class (one driver call per round)."""
    cur = case
    for _ in range(10):
        evs = cur["events"]
        cands = [dict(cur, events=evs[:i] + evs[i + 1:]) for i in range(len(evs))]
        cands = [c for c in cands if c["events"]]
        if not cands:
            break
        res = C.run_impl("C15.py", {"seq": cands})["seq"]
        nxt = [c for c, r in zip(cands, res) if r["steps"] and r["steps"][-1].get("exc") == cls]
        if not nxt:
            break
        cur = nxt[0]
    return cur


def api_violation(ops, steps, ref):
    edited = set()
    built = any(op[0] == "build" for op in ops)
    for op, st in zip(ops, steps):
        if "op_exc" in st:
            return True
        if op[0] == "parse":
            if st.get("out") != ref.get("out") or st.get("exc") != ref.get("exc"):
                return True
        elif op[0] in ("set", "add", "remove"):
            edited.add(op[1])
        elif op[0] in ("ser", "reparse"):
            if st.get("bytes") != st.get("fresh") or st.get("exc") != st.get("fresh_exc"):
                return True
            if op[0] == "ser" and not built and op[1] not in edited and st.get("bytes") != ref.get("reser"):
                return True
            if op[0] == "reparse" and built and "bytes" in st and st.get("out") != st["current"]:
                return True
    return False


def shrink_api(ops, x):
    """Drop edit / serialise operations while the sequence still violates the oracle."""
    ref = C.run_impl("C15.py", {"parse": [x.hex()]})["parse"][0]
    cur = ops
    for _ in range(6):
        # (add / remove shift record positions: they are kept)
        cands = [cur[:i] + cur[i + 1:] for i in range(len(cur)) if cur[i][0] in ("set", "ser", "reparse")]
        # dropping a trailing parse is allowed too
        cands += [cur[:-1]] if cur and cur[-1][0] == "parse" and len(cur) > 1 else []
        if not cands:
            break
        res = [C.run_impl("C15.py", {"api": [c]})["api"][0] for c in cands[:8]]
        nxt = [c for c, r in zip(cands, res) if api_violation(c, r["steps"], ref)]
        if not nxt:
            break
        cur = nxt[0]
    return cur


def when_violation(case, res):
    if any("ret" not in st for st in res["steps"]):
        return None
    t, first_seen, returned = 0, {}, {}
    for k, (ev, st) in enumerate(zip(case["events"], res["steps"])):
        t += ev[0]
        for a in st["known"]:
            first_seen.setdefault(a, t)
        exp = sorted(a for a in st["known"] if a not in returned and (a in st["got"] or t - first_seen[a] > 500))
        if sorted(st["ret"]) != exp:
            return (k, exp, st["ret"])
        for a in st["ret"]:
            returned[a] = k
    return None


def shrink_when(case):
    """Drop events (their elapsed time is added to the next one) while the report-time rule stays violated."""
    cur, viol = case, None
    for _ in range(10):
        evs = cur["events"]
        cands = []
        for i in range(len(evs)):
            rest = [list(e) for e in evs[:i] + evs[i + 1:]]
            if i < len(evs) - 1:
                rest[i][0] += evs[i][0]
            if rest:
                cands.append(dict(cur, events=rest))
        if not cands:
            break
        res = C.run_impl("C15.py", {"seq": cands})["seq"]
        nxt = [(c, when_violation(c, r)) for c, r in zip(cands, res)]
        nxt = [(c, w) for c, w in nxt if w]
        if not nxt:
            break
        cur, viol = nxt[0]
    return cur, viol


def replay(payload):
    case = payload.get("case") or payload.get("first_disagreeing_case") or {}
    print(json.dumps(case)[:3000])
    if case.get("op") == "parse":
        r = C.run_impl("C15.py", {"parse": [case["hex"]]})["parse"][0]
        print("AdvDataFieldList.from_bytes now gives:", {k: v for k, v in r.items() if k != "urls"})
        bad = ("exc" in r and r["exc"] not in ("AdvDataError", "AdvDataFieldListOverflow"))
        print("property holds on this case" if not bad else "property STILL violated: %s escapes" % r["exc"])
        return 1 if bad else 0
    if case.get("op") == "uuid":
        r = C.run_impl("C15.py", {"uuid": [case["hex"]]})["uuid"][0]
        b = bytes.fromhex(case["hex"])
        want = [b.hex(), 1 if len(b) == 2 else 2]
        print("UUID(...) now gives:", r, "expected", want)
        bad = any(v != want for v in r.values())
        print("obligation STILL broken" if bad else "obligation holds on this value")
        return 1 if bad else 0
    if case.get("op") == "api":
        ref = C.run_impl("C15.py", {"parse": [case["x"]]})["parse"][0]
        r = C.run_impl("C15.py", {"api": [case["ops"]]})["api"][0]
        for op, st in zip(case["ops"], r["steps"]):
            print(op, "->", {k: v for k, v in st.items() if k != "current"})
        bad = api_violation(case["ops"], r["steps"], ref)
        print("property STILL violated (a later parse / untouched list differs from the fresh-process parse)" if bad else "property holds on this sequence")
        return 1 if bad else 0
    if case.get("op") == "seq":
        r = C.run_impl("C15.py", {"seq": [case["case"]]})["seq"][0]
        print("on_device_found over the sequence now gives:", [{k: v for k, v in st.items() if k in ("ret", "exc")} for st in r["steps"]])
        bad = any("exc" in st for st in r["steps"])
        if not bad and not case["case"]["updates"] and case["case"]["filter"] is None:
            w = when_violation(case["case"], r)
            if w:
                print("call %d returned %r, expected %r" % (w[0] + 1, w[2], w[1]))
                bad = True
        print("property STILL violated" if bad else "property holds on this sequence")
        return 1 if bad else 0
    if case.get("op") == "scan":
        r = C.run_impl("C15.py", {"scan": [[case["pdu"], case["hex"]]]})["scan"][0]
        print("on_device_found now gives:", r)
        return 1 if "exc" in r else 0
    if case.get("op") == "build":
        r = C.run_impl("C15.py", {"build": [case["calls"]]})["build"][0]
        print("implementation now gives:", {k: v for k, v in r.items() if k != "urls"})
        if "reparse" in r and "recs" in r:
            same = r["reparse"].get("out") == r["recs"]
            print("round trip equal" if same else "round trip STILL differs")
            return 0 if same else 1
    return 0
