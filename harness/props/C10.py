"""C10 — GATT discovery by the client reconstructs any served profile.
See DESIGN.md §2 C10 and design/C10.md.

Pipeline: (1) build + Print Assumptions of theories/C10 (imports C09.Model); (2) generate
profiles x MTU (corpus first); (3) serve each profile with a real GattServer and run the real
GattClient.discover() against it (harness/impl/C09.py, mode c10); (4) oracle = structural
comparison of the served Profile and the client's rebuilt model; (5) correspondence with the
Coq model (layout [serve] and [discover]) evaluated inside Coq; (6) verdict.
"""
import json, os
from harness import common as C
from harness.common import cbytes, clist, cnat, cbool
from harness.props import C09_util as U

PID = "C10"

UUID16_SVC = [0x1800, 0x1801, 0x180A, 0x180F, 0x1812, 0x181A, 0xFFF0, 0xFE59]
UUID16_CHR = [0x2A00, 0x2A01, 0x2A19, 0x2A29, 0x2A4D, 0x2A6E, 0xFFF1, 0xFFF2, 0x2B29]
UUID16_DESC = [0x2900, 0x2901, 0x2903, 0x2904, 0x2905, 0x2906, 0x2908, 0x290B]
PROPS = [0x02, 0x08, 0x0A, 0x04, 0x06, 0x0E, 0x12, 0x1A, 0x20, 0x22, 0x2A, 0x30, 0x3A, 0x80, 0x8A, 0x01, 0x00, 0x40, 0xFF]


def u16(x):
    return bytes([x & 0xFF, x >> 8]).hex()


def u128(rng):
    return bytes(rng.randrange(256) for _ in range(16)).hex()


def gen_uuid(rng, pool, p128):
    return u128(rng) if rng.random() < p128 else u16(rng.choice(pool))


def gen_desc(rng, p128):
    k = rng.random()
    if k < 0.12:
        return {"kind": "cccd", "uuid": "0229", "value": "0000"}
    if k < 0.30:
        txt = rng.choice(["name", "x", "", "température du capteur n°1 — éàü", "a" * 21 + "é", "b" * 40, "ß" * 12, "日本語の説明テキスト"])
        return {"kind": "userdesc", "uuid": "0129", "value": txt.encode("utf-8").hex()}
    v = bytes(rng.randrange(256) for _ in range(rng.choice([0, 1, 2, 2, 7, 22, 23, 60])))
    return {"kind": "generic", "uuid": gen_uuid(rng, UUID16_DESC, p128), "value": v.hex()}


def gen_profile(rng, nsvc=None, maxchr=8, maxdesc=3, p128=None):
    p128 = rng.choice([0.0, 0.15, 0.5, 0.5, 0.85, 1.0]) if p128 is None else p128
    nsvc = rng.randrange(1, 9) if nsvc is None else nsvc
    prof = []
    for _ in range(nsvc):
        chars = []
        for _ in range(rng.randrange(0, maxchr + 1)):
            descs = [gen_desc(rng, p128) for _ in range(rng.randrange(0, maxdesc + 1))]
            chars.append({"uuid": gen_uuid(rng, UUID16_CHR, p128), "props": rng.choice(PROPS),
                          "value": bytes(rng.randrange(256) for _ in range(rng.choice([0, 1, 4, 20, 30]))).hex(),
                          "descs": descs})
        prof.append({"uuid": gen_uuid(rng, UUID16_SVC, p128), "chars": chars})
    return prof


def mtu_choice(rng):
    return rng.choice([23, 23, 24, 25, 26, 27, 28, 29, 30, 37, 38, 39, 40, 41, 42, 43, 44, 45, 58, 59, 60, 61, 62, 63, 64, 65,
                       100, 185, 247, 512, 517, rng.randrange(23, 518), rng.randrange(23, 518)])


def structured_profiles(rng):
    """hand-made shapes: alternating sizes, runs longer than one response, empty services"""
    out = []
    a, b = u16(0x2A00), bytes(range(16)).hex()
    def ch(u, nd=0, d128=(), props=0x0A):
        return {"uuid": u, "props": props, "value": "41",
                "descs": [{"kind": "generic", "uuid": (bytes(range(32, 48)).hex() if i in d128 else u16(0x2904)), "value": "0102"} for i in range(nd)]}
    out.append([{"uuid": u16(0x1800), "chars": [ch(a), ch(b), ch(a)]}])                       # 16/128/16
    out.append([{"uuid": u16(0x1800), "chars": [ch(b), ch(a), ch(b), ch(a), ch(a), ch(b)]}])
    out.append([{"uuid": u16(0x1800), "chars": [ch(a, 3, d128=(1,))]}])                        # descriptor 16/128/16
    out.append([{"uuid": u16(0x1800), "chars": [ch(a, 3, d128=(0, 2))]}])
    out.append([{"uuid": u16(0x1800), "chars": [ch(a) for _ in range(8)]}, {"uuid": b, "chars": []}, {"uuid": u16(0x180F), "chars": [ch(b, 2)]}])
    out.append([{"uuid": b, "chars": []}, {"uuid": u16(0x1801), "chars": []}, {"uuid": b, "chars": []}, {"uuid": b, "chars": []}])
    out.append([{"uuid": u16(0x1800 + i), "chars": [ch(a, 3)] * 2} for i in range(8)])
    out.append([{"uuid": u16(0x1800), "chars": [ch(a, 0, props=0x10), ch(a, 1, props=0x20), ch(b, 0, props=0x30)]}])
    out.append([{"uuid": u16(0x1800), "chars": [ch(a, 0, props=0x8A), ch(b, 2, props=0x80), ch(a, 1, props=0xFF)]}])   # bit 7 without 0x2900
    return out


def gen_cases(ctx):
    rng, cases = ctx.rng, []
    for p in structured_profiles(rng):
        for mtu in ([23, 30, 64, 517] if ctx.thorough else [23, rng.choice([24, 30, 64, 517])]):
            cases.append({"profile": p, "mtu": mtu, "tag": "structured"})
    # two devices discovered one after the other in one process: same service range and
    # characteristic handle, another position of the next characteristic
    a16 = u16(0x2A00)
    def chd(n):
        return {"uuid": a16, "props": 0x0A, "value": "41", "descs": [{"kind": "generic", "uuid": u16(0x2904), "value": "01"} for _ in range(n)]}
    pa = [{"uuid": u16(0x1800), "chars": [chd(2), chd(0)]}]      # char@2 descs 4,5 ; char@6
    pb = [{"uuid": u16(0x1800), "chars": [chd(1), chd(1)]}]      # char@2 desc 4 ; char@5 desc 7
    pc = [{"uuid": u16(0x1800), "chars": [chd(0), chd(2)]}]      # char@2 ; char@4 descs 6,7
    for before, p in [([pa], pb), ([pb], pa), ([pa, pb], pc), ([pc], pb)]:
        cases.append({"profile": p, "before": before, "mtu": 23, "tag": "after-another-device"})
    n = 700 if ctx.thorough else 80
    for i in range(n):
        small = i % 4 == 0
        p = gen_profile(rng, nsvc=rng.randrange(1, 4) if small else None, maxchr=4 if small else 8)
        c = {"profile": p, "mtu": mtu_choice(rng), "tag": "random"}
        if i % 5 == 1:
            # a same-shaped device with other descriptor counts was discovered before
            q = json.loads(json.dumps(p))
            for sv in q:
                for ch in sv["chars"]:
                    ch["descs"] = [d for d in ch["descs"] if d["kind"] == "generic"][:rng.randrange(0, 4)]
            c["before"] = [q]
        cases.append(c)
    if ctx.thorough:
        # every MTU 23..517 at least once on a mixed profile
        p = gen_profile(rng, nsvc=4, maxchr=6, p128=0.5)
        for mtu in range(23, 518, 1):
            if mtu % 3 == 0 or mtu < 70:
                cases.append({"profile": p, "mtu": mtu, "tag": "mtu-sweep"})
    # enumeration of primary services from other start handles (0 is an invalid start: the
    # server answers INVALID_HANDLE, which the client must raise instead of looping)
    for _ in range(12 if ctx.thorough else 5):
        p = gen_profile(rng, nsvc=rng.randrange(1, 6), maxchr=3)
        for st in [0, 2, rng.randrange(1, 40), 0xFFFF]:
            cases.append({"profile": p, "mtu": mtu_choice(rng), "primary_from": st, "cap": 400, "tag": "primary-from"})
    return cases


def cost(c):
    return 5 + sum(cost({"profile": b}) for b in c.get("before", [])) + sum(1 + sum(3 + 2 * len(ch["descs"]) for ch in s["chars"]) for s in c["profile"])


# ---------------------------------------------------------------------------

def strip(struct):
    """fields named in the property: handles, value handles, UUIDs, properties, ranges"""
    return [{"uuid": s["uuid"], "type": s["type"], "start": s["start"], "end": s["end"],
             "chars": [{"handle": c["handle"], "props": c["props"], "vh": c["vh"], "uuid": c["uuid"], "type": c["type"],
                        "descs": [{"handle": d["handle"], "uuid": d["uuid"]} for d in c["descs"]]} for c in s["chars"]]}
            for s in struct]


def first_diff(a, b, path=""):
    if type(a) != type(b):
        return path, a, b
    if isinstance(a, list):
        for i, (x, y) in enumerate(zip(a, b)):
            d = first_diff(x, y, "%s[%d]" % (path, i))
            if d:
                return d
        if len(a) != len(b):
            return path + ".len", len(a), len(b)
        return None
    if isinstance(a, dict):
        for k in a:
            d = first_diff(a[k], b.get(k), path + "." + k)
            if d:
                return d
        return None
    return None if a == b else (path, a, b)


def profile_lit(served):
    svcs = []
    for s in served:
        chs = []
        for c in s["chars"]:
            ds = ["{| d_cccd := %s; d_uuid := %s; d_val := %s |}" % (cbool(d["kind"] == "cccd"), cbytes(U.hexb(d["uuid"])), cbytes(U.hexb(d["value"])))
                  for d in c["descs"]]
            chs.append("{| c_uuid := %s; c_props := %d; c_val := %s; c_descs := %s |}" % (cbytes(U.hexb(c["uuid"])), c["props"], cbytes(U.hexb(c["value"])), clist(ds)))
        svcs.append("{| s_uuid := %s; s_chrs := %s |}" % (cbytes(U.hexb(s["uuid"])), clist(chs)))
    return clist(svcs)


def dsvcs_lit(struct):
    svcs = []
    for s in struct:
        chs = []
        for c in s["chars"]:
            ds = clist(["(%d, %s)" % (d["handle"], cbytes(U.hexb(d["uuid"]))) for d in c["descs"]])
            chs.append("{| dc_handle := %d; dc_props := %d; dc_vh := %d; dc_uuid := %s; dc_descs := %s |}"
                       % (c["handle"], c["props"], c["vh"], cbytes(U.hexb(c["uuid"])), ds))
        svcs.append("{| ds_uuid := %s; ds_start := %d; ds_end := %d; ds_chrs := %s |}" % (cbytes(U.hexb(s["uuid"])), s["start"], s["end"], clist(chs)))
    return clist(svcs)


def dobs_lit(res, struct):
    d = res["disc"]
    if d.get("ok"):
        return "DOk %s" % dsvcs_lit(struct)
    if d.get("spin") or d.get("hang"):
        return "DSpin"
    if d.get("kind") == "att":
        return "DAtt %d" % d["code"]
    if d.get("kind") == "timeout":
        return "DTimeout"
    return "DOther"


def run(ctx):
    C.build_dir(PID, clean=True)
    ctx.cov["trusted_base"] = [
        "Coq 8.16.1 kernel + vm_compute (no native_compute); theorems closed under the global context (Print Assumptions checked each run)",
        "hand-written model coq/theories/C10/Model.v (client loops, Profile layout, find_characteristic_end_handle) over the server list builders of coq/theories/C09/Model.v; tied to whad/ble/stack/gatt/__init__.py and whad/ble/profile/*.py by the correspondence of this run (real GattClient.discover() against a real GattServer)",
        "scapy ATT list PDUs (Read By Group Type / Read By Type / Find Information responses) taken as the identity on the abstract item lists; item parsing of the client (properties byte, value handle, UUID) modelled structurally; exercised on every relayed PDU",
        "L2CAP between the stacks is the real L2CAPLayer (C11); wait_for_message runs with timeout 30 ms on a virtual clock (gatt module's time() replaced in the driver)",
        "client-side bookkeeping (Profile.add_service/register_attribute, Characteristic.add_descriptor, Descriptor.from_uuid) is modelled by its result (the rebuilt structure); compared with the real client's model on every case",
        "model scope: primary services, no included/secondary services, no security requirements, no hooks; handles < 65535",
    ]
    ctx.assumptions = ["profile well-formed: every UUID is 2 or 16 bytes, properties < 256, fewer than 65535 attributes, start handle 1",
                       "MTU >= 23 on both sides",
                       "client starts between two procedures (lock free, queue empty)"]
    proofs_ok, detail = ctx.check_proofs(lib_targets=["theories/Lib/Bytes.vo", "theories/C09/Model.vo", "theories/C09/Proofs.vo"])
    ctx.log("proofs:", proofs_ok, detail.splitlines()[0][:300])

    cases = []
    for w in U.corpus(PID):
        c = {"profile": w["profile"], "mtu": w.get("mtu", 23), "tag": "corpus:" + w["file"]}
        if "primary_from" in w:
            c["primary_from"] = w["primary_from"]; c["cap"] = 400
        cases.append(c)
    n_corpus = len(cases)
    cases += gen_cases(ctx)
    ctx.log("cases: %d (%d from corpus)" % (len(cases), n_corpus))
    results = U.run_driver("c10", [{k: v for k, v in c.items() if k != "tag"} for c in cases], cost=cost)
    ctx.log("implementation ran")

    # ---- oracle -----------------------------------------------------------------
    nviol, seen = 0, {}
    stats = {"outcomes": {}, "responses_split_by_size": 0}
    def report(what, info, expected=None, observed=None):
        nonlocal nviol
        seen[what.split(":")[0]] = seen.get(what.split(":")[0], 0) + 1
        stats["oracle_fail"] = stats.get("oracle_fail", 0) + 1
        if seen[what.split(":")[0]] > 2 or len(ctx.violations) >= 12:
            return
        nviol += 1 if ctx.violation(what, info, expected=expected, observed=observed) else 0
    for ci, (c, r) in enumerate(zip(cases, results)):
        d = r["disc"]
        info = {"case": ci, "tag": c["tag"], "profile": c["profile"], "mtu": c["mtu"]}
        if c.get("before"):
            info["before"] = c["before"]      # devices discovered earlier in the same process
        k = "ok" if d.get("ok") else ("spin" if d.get("spin") or d.get("hang") else d.get("exc", "?"))
        stats["outcomes"][k] = stats["outcomes"].get(k, 0) + 1
        if c.get("mtu", 23) != 23 and r.get("set_mtu", {}).get("v") != c["mtu"]:
            report("MTU exchange failed before discovery", info, expected=c["mtu"], observed=r.get("set_mtu"))
            continue
        if "primary_from" in c:
            info["primary_from"] = st = c["primary_from"]
            if d.get("spin") or d.get("hang"):
                report("primary service enumeration does not terminate", info, expected="services or an ATT error", observed=d)
            elif d.get("ok"):
                exp = [[s["uuid"], s["start"], s["end"]] for s in r["served"] if s["start"] >= st]
                if st == 0 or d["services"] != exp:
                    report("primary service enumeration from a start handle returned other services", info, expected=exp, observed=d["services"])
            elif not (d.get("kind") == "att" and st == 0):
                report("primary service enumeration failed: %s" % d.get("exc"), info, expected="services", observed=d)
            continue
        if d.get("spin") or d.get("hang"):
            report("discovery does not terminate", info, expected="terminates", observed={"pdus": r["npdu"]})
            continue
        if not d.get("ok"):
            report("discovery raised %s" % d.get("exc"), info, expected="profile rebuilt", observed=d)
            continue
        if not isinstance(r["discovered"], list):
            report("client model cannot be exported", info, observed=r["discovered"])
            continue
        df = first_diff(strip(r["served"]), strip(r["discovered"]))
        if df is None:
            df = first_diff(strip(r["discovered"]), strip(r["served"]))
        if df is not None:
            report("discovered profile differs from the served one", info, expected={"at": df[0], "served": df[1]}, observed={"discovered": df[2]})
    ctx.log("oracle: %d failing checks, %d new violations" % (stats.get("oracle_fail", 0), nviol))

    # ---- correspondence ---------------------------------------------------------
    pre = "From Whad Require Import Lib.Bytes C09.Model C10.Model.\nOpen Scope N_scope."
    t_disc, i_disc, t_prim, i_prim = [], [], [], []
    for i, (c, r) in enumerate(zip(cases, results)):
        if "primary_from" in c:
            d = r["disc"]
            if d.get("ok"):
                ob = "DOk %s" % clist(["{| ds_uuid := %s; ds_start := %d; ds_end := %d; ds_chrs := [] |}" % (cbytes(U.hexb(u)), a, b) for u, a, b in d["services"]])
            else:
                ob = dobs_lit(r, None)
            t_prim.append("(%s, %s, %d, %s)" % (U.db_lit(r["table"]), cnat(c["mtu"]), c["primary_from"], ob))
            i_prim.append(i)
        else:
            disc = r["discovered"] if isinstance(r["discovered"], list) else []
            t_disc.append("(%s,\n %s,\n %s,\n %s)" % (profile_lit(r["served"]), U.db_lit(r["table"]), cnat(c["mtu"]), dobs_lit(r, disc)))
            i_disc.append(i)
    bad_d, logs_d = C.run_cases(PID, "disc", pre, "profile * db * nat * dobs", t_disc, "check_discover", shard=12, max_chars=300000)
    bad_p, logs_p = C.run_cases(PID, "prim", pre, "db * nat * N * dobs", t_prim, "check_primary", shard=20, max_chars=300000)
    ctx.notes += logs_d[:3] + logs_p[:2]
    ctx.log("correspondence: discover %d cases %d disagree; primary-from %d cases %d disagree" % (len(t_disc), len(bad_d), len(t_prim), len(bad_p)))

    # ---- coverage -----------------------------------------------------------------
    ctx.cov["evaluations"] = len(cases)
    ctx.cov["traces_validated_against_impl"] = len(cases)
    nontriv = []
    dist = {"services": {}, "chars_per_service": {}, "descs_per_char": {}, "uuid_mix": {"all16": 0, "all128": 0, "mixed": 0},
            "adjacent_size_changes": 0, "runs_longer_than_one_response": 0}
    for c, r in zip(cases, results):
        sv = r["served"]
        dist["services"][len(sv)] = dist["services"].get(len(sv), 0) + 1
        sizes = []
        changes = 0
        for s in sv:
            sizes.append(len(s["uuid"]) // 2)
            dist["chars_per_service"][len(s["chars"])] = dist["chars_per_service"].get(len(s["chars"]), 0) + 1
            cu = [len(ch["uuid"]) // 2 for ch in s["chars"]]
            changes += sum(1 for a, b in zip(cu, cu[1:]) if a != b)
            run, best = 0, 0
            for a, b in zip([None] + cu, cu):
                run = run + 1 if a == b else 1
                best = max(best, run)
            if cu and best > (c["mtu"] - 2) // (cu[0] + 5):
                dist["runs_longer_than_one_response"] += 1
            for ch in s["chars"]:
                sizes.append(len(ch["uuid"]) // 2)
                dist["descs_per_char"][len(ch["descs"])] = dist["descs_per_char"].get(len(ch["descs"]), 0) + 1
                du = [len(d["uuid"]) // 2 for d in ch["descs"]]
                sizes += du
                changes += sum(1 for a, b in zip(du, du[1:]) if a != b)
        su = [len(s["uuid"]) // 2 for s in sv]
        changes += sum(1 for a, b in zip(su, su[1:]) if a != b)
        dist["adjacent_size_changes"] += changes
        k = "all16" if set(sizes) <= {2} else "all128" if set(sizes) <= {16} else "mixed"
        dist["uuid_mix"][k] += 1
        if len(r["table"]) > 3:
            nontriv.append([c["profile"], c["mtu"], c.get("primary_from")])
    dist["mtus"] = len({c["mtu"] for c in cases})
    dist["outcomes"] = stats["outcomes"]
    dist["by_tag"] = {t: sum(1 for c in cases if c["tag"].split(":")[0] == t) for t in sorted({c["tag"].split(":")[0] for c in cases})}
    dist["uncovered_branches"] = [b for b, hit in [
        ("end handle 0xFFFF early return (needs 65535 attributes)", False),
        ("descriptor read refused with a swallowed error (needs security requirements)", False),
        ("ATT error other than ATTRIBUTE_NOT_FOUND raised by a loop", any("Error" in k for k in stats["outcomes"]))] if not hit]
    ctx.cov["distribution"] = {k: ({str(a): b for a, b in sorted(v.items())} if isinstance(v, dict) and k in ("services", "chars_per_service", "descs_per_char") else v) for k, v in dist.items()}
    ctx.cov["distinct_nontrivial"] = C.distinct_count(nontriv)
    ctx.cov["rule"] = ("one case = one generated profile served by a real GattServer and discovered by a real GattClient at one MTU "
                       "(or one primary-service enumeration from a start handle); non-trivial = more than 3 attributes; distinct by (profile, MTU, start)")
    j = next(i for i, c in enumerate(cases) if c["tag"] == "random")
    ctx.cov["samples"] = [
        {"mtu": cases[0]["mtu"], "profile": cases[0]["profile"], "discovered": strip(results[0]["discovered"]) if isinstance(results[0]["discovered"], list) else results[0]["disc"]},
        {"mtu": cases[j]["mtu"], "table_rows": len(results[j]["table"]), "pdus": results[j]["npdu"], "outcome": results[j]["disc"],
         "first_service": strip(results[j]["served"])[:1]},
        {"primary_from": cases[-1].get("primary_from"), "mtu": cases[-1]["mtu"], "outcome": results[-1]["disc"]},
    ]
    ctx.cov["source_ties"] = [C.source_tie("whad/ble/stack/gatt/__init__.py", 647, 684),
                              C.source_tie("whad/ble/stack/gatt/__init__.py", 721, 828),
                              C.source_tie("whad/ble/stack/gatt/__init__.py", 861, 922),
                              C.source_tie("whad/ble/stack/gatt/__init__.py", 1328, 1395),
                              C.source_tie("whad/ble/stack/gatt/__init__.py", 2213, 2415),
                              C.source_tie("whad/ble/profile/__init__.py", 541, 568),
                              C.source_tie("whad/ble/profile/service.py", 86, 102),
                              C.source_tie("whad/ble/profile/characteristic.py", 473, 500)]
    ctx.cov["correspondence"] = {"discover_cases": len(t_disc), "discover_bad": len(bad_d), "primary_cases": len(t_prim), "primary_bad": len(bad_p)}

    if bad_d or bad_p or not proofs_ok:
        if not ctx.violations:
            # model-side search: boolean form of the theorem's conclusion on the generated profiles;
            # a model counterexample was already replayed on the implementation (same case, oracle above)
            try:
                st = ["(%s, %s)" % (profile_lit(results[i]["served"]), cnat(cases[i]["mtu"])) for i in i_disc]
                mbad, _ = C.run_cases(PID, "search", pre, "profile * nat", st, "(fun x => discover_ok (fst x) (snd x))", shard=12, max_chars=300000)
                ctx.notes.append("model-side search: discover_ok false on %d of %d generated profiles%s" % (
                    len(mbad), len(st), (" (first: case %d, not reproduced on the implementation)" % i_disc[mbad[0]]) if mbad else ""))
            except C.CheckBroken as e:
                ctx.notes.append("model-side search could not run: %s" % str(e).splitlines()[0][:200])
            first = None
            if bad_d or bad_p:
                i = i_disc[bad_d[0]] if bad_d else i_prim[bad_p[0]]
                first = {"tag": cases[i]["tag"], "profile": cases[i]["profile"], "mtu": cases[i]["mtu"], "primary_from": cases[i].get("primary_from"),
                         "impl": {"disc": results[i]["disc"], "discovered": results[i]["discovered"], "table": results[i]["table"]}}
            what = ("correspondence C10.Model vs GattClient.discover/GattServer (%d discover, %d primary-from cases disagree)" % (len(bad_d), len(bad_p))
                    if (bad_d or bad_p) else "proof obligations of theories/C10: " + detail.splitlines()[0][:200])
            ctx.broken_obligation(what, detail if not proofs_ok else "\n".join(logs_d + logs_p), first)


def replay(payload):
    case = payload.get("case") or payload.get("first_disagreeing_case")
    if not case or "profile" not in case:
        print(json.dumps(payload)[:2000])
        return 0
    req = {"profile": case["profile"], "mtu": case.get("mtu", 23)}
    if case.get("primary_from") is not None:
        req["primary_from"] = case["primary_from"]; req["cap"] = 400
    if case.get("before"):
        req["before"] = case["before"]
    r = C.run_impl(U.DRIVER, {"mode": "c10", "cases": [req]})["cases"][0]
    print("mtu:", req["mtu"], "outcome:", json.dumps(r["disc"])[:300], "pdus:", r["npdu"])
    if isinstance(r.get("discovered"), list):
        d = first_diff(strip(r["served"]), strip(r["discovered"])) or first_diff(strip(r["discovered"]), strip(r["served"]))
        print("served == discovered:", d is None, "" if d is None else "first difference at %s: served %r, discovered %r" % d)
    return 0
