"""C13 — BLE link-layer encryption (LinkLayerCryptoManager / LinkLayerDecryptor).

Pipeline: (1) build + Print Assumptions of theories/C13 (and the crypto library);
(2) generate key material, PDUs (lengths 0..251), counters, directions, loss patterns,
corruptions; (3) run the real classes (harness/impl/C13.py, Cryptodome AES);
(4) oracle = the property itself on the implementation's outputs (round trip, every
single-bit corruption, wrong key / IV / direction / counter skew, counters on failure,
passive decryptor on reference captures); (5) correspondence: the same operations
evaluated by the Gallina model with the Gallina AES inside Coq, compared bit for bit;
(6) verdict.
"""
import json, os
from harness import common as C
from harness.common import cbytes, clist, cnat
from harness.props import pyfun_util

PID = "C13"
M2S, S2M = 1, 2
MASK = 0xE3
EXC = {"IndexError": 1, "UnboundLocalError": 2, "ValueError": 3, "error": 4, "MissingCryptographicMaterial": 5}
BOUNDARY_LEN = [0, 1, 2, 5, 13, 14, 15, 16, 17, 27, 31, 32, 33, 100, 250, 251]
SPEC = {  # Bluetooth Core Specification Vol 6 Part C 1 (sample data)
    "ltk": "4c68384139f574d836bcf34e9dfb01bf",
    "mat": [0xACBDCEDFE0F10213, 0xBADCAB24, 0x0213243546576879, 0xDEAFBABE],
}


# ----------------------------------------------------------------------------- generation
def rand_material(rng, kind=None):
    kind = kind if kind is not None else rng.randrange(12)
    if kind == 0:
        return "00" * 16, [0, 0, 0, 0]
    if kind == 1:
        return "ff" * 16, [2 ** 64 - 1, 2 ** 32 - 1, 2 ** 64 - 1, 2 ** 32 - 1]
    ltk = bytes(rng.randrange(256) for _ in range(16)).hex()
    return ltk, [rng.getrandbits(64), rng.getrandbits(32), rng.getrandbits(64), rng.getrandbits(32)]


def boundary_materials(rng):
    """every piece of key material at 0, 1, all-ones and top-bit-only, the other pieces random:
    (name, ltk hex, [SKDm, IVm, SKDs, IVs])"""
    out = []
    names = ["skdm", "ivm", "skds", "ivs"]
    for j, bits in enumerate([64, 32, 64, 32]):
        for tag, v in (("0", 0), ("1", 1), ("ones", 2 ** bits - 1), ("top", 2 ** (bits - 1))):
            ltk, mat = rand_material(rng, 5)
            mat[j] = v
            out.append(("%s=%s" % (names[j], tag), ltk, mat))
    for tag, k in (("0", "00" * 16), ("1", "00" * 15 + "01"), ("ones", "ff" * 16), ("top", "80" + "00" * 15)):
        out.append(("ltk=%s" % tag, k, rand_material(rng, 5)[1]))
    out.append(("all=0", "00" * 16, [0, 0, 0, 0]))
    return out


BOUNDARY_RAND = [0, 1, 2 ** 64 - 1, 2 ** 63]
BOUNDARY_EDIV = [0, 1, 0xFFFF, 0x8000]


def rand_pdu(rng, n, llid=None):
    """plaintext data PDU: header (LLID, NESN, SN, MD, sometimes RFU bits), length, payload"""
    llid = llid if llid is not None else rng.choice([1, 2, 2, 3])
    hdr = llid | (rng.randrange(8) << 2)
    if rng.random() < 0.15:
        hdr |= rng.randrange(8) << 5
    style = rng.randrange(4)
    if style == 0:
        body = bytes(rng.randrange(256) for _ in range(n))
    elif style == 1:
        body = bytes([rng.choice([0, 0xff, 0x80, 1])] * n)
    elif style == 2:   # L2CAP/ATT looking
        body = (bytes([max(n - 4, 0) & 0xff, 0, 4, 0]) + bytes(rng.randrange(256) for _ in range(n)))[:n]
    else:
        body = bytes((i * 7 + 3) & 0xff for i in range(n))
    if n == 0 and llid == 1:
        hdr = (hdr & ~3) | 2      # an empty LLID=1 PDU is never encrypted; keep those for the capture stream
    return bytes([hdr, n]) + body


def rand_counter(rng):
    k = rng.randrange(10)
    if k < 5:
        return rng.randrange(0, 50)
    if k < 7:
        return rng.randrange(0, 2 ** 32)
    return rng.choice([2 ** 32 - 3, 2 ** 32 - 2, 2 ** 32 - 1, 2 ** 32, 2 ** 32 + 1, 2 ** 39 - 2, 2 ** 39 - 1, 255, 256, 65535, 65536])


def flip(pdu, bit):
    p = bytearray(pdu)
    p[bit // 8] ^= 1 << (bit % 8)
    return bytes(p)


def exp_ok(pdu, mc, sc):
    return {"k": 1, "d": bytes(pdu).hex(), "mc": mc, "sc": sc}


def exp_fail(mc, sc):
    return {"k": 2, "mc": mc, "sc": sc}


def gen_mgr_cases(ctx):
    """Each case: dict(ltk, mat, ops, exp, kind). exp[i] is None (no judgement; the op's outcome
    is not named by the property) or a partial observation the property demands."""
    rng, cases = ctx.rng, []

    def add(kind, ltk, mat, ops, exp):
        cases.append({"kind": kind, "ltk": ltk, "mat": mat, "ops": ops, "exp": exp})

    lens = list(range(0, 252)) if ctx.thorough else BOUNDARY_LEN + sorted(rng.randrange(3, 250) for _ in range(8))
    reps = 2 if ctx.thorough else 1
    # (a) round trip, both directions, every length of the tier, counters incl. boundaries
    for n in lens:
        for d in (M2S, S2M):
            for _ in range(reps):
                ltk, mat = rand_material(rng)
                pdu = rand_pdu(rng, n)
                mc, sc = rand_counter(rng), rand_counter(rng)
                ops = [["set", mc, sc], ["enc", d, pdu.hex()], ["declast", d, 2, -1, 0]]
                exp = [None, None, exp_ok(pdu, mc, sc)]
                # then a protected-bit corruption and an unprotected header bit
                ctlen = len(pdu) + 4
                bit = rng.choice([0, 1, 5, 6, 7] + [rng.randrange(16, ctlen * 8) for _ in range(6)])
                ops.append(["declast", d, 2, bit // 8, 1 << (bit % 8)])
                exp.append(exp_fail(mc, sc))
                ub = rng.choice([2, 3, 4])
                ops.append(["declast", d, 2, 0, 1 << ub])
                exp.append(exp_ok(flip(pdu, ub), mc, sc))
                # wrong direction
                ops.append(["declast", S2M if d == M2S else M2S, 2, -1, 0])
                exp.append(exp_fail(mc, sc))
                add("roundtrip", ltk, mat, ops, exp)
    # (a') every piece of key material at its boundary values
    for name, ltk, mat in boundary_materials(rng):
        pdu = rand_pdu(rng, rng.choice([1, 5, 27]))
        d = rng.choice([M2S, S2M])
        mc, sc = rand_counter(rng), rand_counter(rng)
        add("material-boundary", ltk, mat, [["set", mc, sc], ["enc", d, pdu.hex()], ["declast", d, 2, -1, 0],
                                            ["declast", S2M if d == M2S else M2S, 2, -1, 0]],
            [None, None, exp_ok(pdu, mc, sc), exp_fail(mc, sc)])
    # (b) counter skew: sender ahead by k, tolerance tol
    for _ in range(120 if ctx.thorough else 32):
        ltk, mat = rand_material(rng)
        n = rng.choice(BOUNDARY_LEN[:12])
        pdu, d = rand_pdu(rng, n), rng.choice([M2S, S2M])
        tol = rng.choice([1, 2, 2, 2, 3, 5])
        k = rng.choice([0, 1, 1, 2, 3, tol - 1, tol, tol + 1, 7])
        mc, sc = rand_counter(rng), rand_counter(rng)
        tmc, tsc = (mc + k, sc) if d == M2S else (mc, sc + k)
        ops = [["set", tmc, tsc], ["enc", d, pdu.hex()], ["set", mc, sc], ["declast", d, tol, -1, 0]]
        # the nonce only carries the counter modulo 2^39 (the spec's 39-bit packet counter)
        exp = [None, None, None, exp_ok(pdu, tmc, tsc) if k < tol else exp_fail(mc, sc)]
        # receiver AHEAD of the sender is never accepted
        ops += [["set", tmc + 1, tsc + 1], ["declast", d, tol, -1, 0]]
        exp += [None, exp_fail(tmc + 1, tsc + 1)]
        add("skew", ltk, mat, ops, exp)
    # (c) garbage / malformed PDUs, tolerances 0..3, short inputs
    for i in range(200 if ctx.thorough else 40):
        ltk, mat = rand_material(rng)
        n = i % 12 if i < 24 else rng.randrange(0, 48)
        g = bytes(rng.randrange(256) for _ in range(n))
        tol = rng.choice([0, 1, 2, 2, 3])
        d = rng.choice([M2S, S2M])
        mc, sc = rand_counter(rng), rand_counter(rng)
        ops = [["set", mc, sc], ["dec", d, tol, g.hex()]]
        if n == 0:
            e = {"k": 3, "d": "IndexError", "mc": mc, "sc": sc}
        elif tol == 0:
            e = None   # API misuse (range(0) never attempts); only the counters are judged
        else:
            e = exp_fail(mc, sc)
        exp = [None, e]
        ops.append(["enc", d, g.hex()])
        exp.append({"k": 3, "d": "IndexError"} if n == 0 else None)
        add("garbage", ltk, mat, ops, exp)
    # (d) a connection on one manager object: interleaved directions, losses below the tolerance
    for _ in range(40 if ctx.thorough else 8):
        ltk, mat = rand_material(rng)
        tol = 2
        tx, rx = {M2S: 0, S2M: 0}, {M2S: 0, S2M: 0}
        if rng.random() < 0.3:
            base = rand_counter(rng)
            tx = {M2S: base, S2M: base // 2}
            rx = dict(tx)
        ops, exp = [], []
        for _j in range(rng.randrange(4, 10 if not ctx.thorough else 30)):
            d = rng.choice([M2S, S2M])
            pdu = rand_pdu(rng, rng.choice([0, 1, 7, 20, 27]))
            lost = rng.random() < 0.3 and tx[d] - rx[d] < tol - 1
            ops += [["set", tx[M2S], tx[S2M]], ["enc", d, pdu.hex()]]
            exp += [None, None]
            tx[d] += 1
            if not lost:
                ops += [["set", rx[M2S], rx[S2M]], ["declast", d, tol, -1, 0], ["inc", d]]
                want = dict(rx)
                want[d] = tx[d] - 1
                exp += [None, exp_ok(pdu, want[M2S], want[S2M]), None]
                rx[d] = tx[d]
        add("connection", ltk, mat, ops, exp)
    # (e) constructor range errors
    if True:
        ltk, mat = rand_material(rng, 5)
        add("ctor", ltk, [2 ** 64, 1, 2, 3], [], [])
        add("ctor", ltk, [1, 2 ** 32, 2, 3], [], [])
        add("ctor", ltk[:30], mat, [], [])
    return cases


def gen_sweeps(ctx):
    rng, out = ctx.rng, []
    lens = [0, 1, 15, 16, 17, 27, 251] if not ctx.thorough else list(range(0, 40)) + [100, 250, 251]
    for n in lens:
        for d in (M2S, S2M):
            ltk, mat = rand_material(rng)
            out.append({"ltk": ltk, "mat": mat, "mc": rand_counter(rng), "sc": rand_counter(rng), "d": d,
                        "tol": rng.choice([1, 2, 2, 3]), "pdu": rand_pdu(rng, n).hex()})
    return out


def gen_pairs(ctx):
    """receiver differing from the sender in exactly one thing"""
    rng, out = ctx.rng, []
    for i in range(300 if ctx.thorough else 60):
        ltk, mat = rand_material(rng, 5)
        mc, sc = rand_counter(rng), rand_counter(rng)
        d = rng.choice([M2S, S2M])
        tol = rng.choice([1, 2, 2, 3])
        pdu = rand_pdu(rng, rng.choice(BOUNDARY_LEN))
        tx = {"ltk": ltk, "mat": mat, "mc": mc, "sc": sc}
        rx = {"ltk": ltk, "mat": list(mat), "mc": mc, "sc": sc}
        d_rx, kind = d, i % 8
        if kind == 0:
            b = bytearray(bytes.fromhex(ltk)); b[rng.randrange(16)] ^= 1 << rng.randrange(8); rx["ltk"] = bytes(b).hex()
            what = "key"
        elif kind in (1, 2):
            j = 0 if kind == 1 else 2
            rx["mat"][j] ^= 1 << rng.randrange(64); what = "skd"
        elif kind in (3, 4):
            j = 1 if kind == 3 else 3
            rx["mat"][j] ^= 1 << rng.randrange(32); what = "iv"
        elif kind == 5:
            d_rx = S2M if d == M2S else M2S; what = "direction"
        elif kind == 6:
            k = rng.choice([tol, tol + 1, tol + 5, 1000])
            if d == M2S: tx["mc"] = mc + k
            else: tx["sc"] = sc + k
            what = "counter-ahead-beyond-tolerance"
        else:
            k = rng.choice([1, 2, 3])
            if d == M2S: rx["mc"] = mc + k
            else: rx["sc"] = sc + k
            what = "counter-behind"
        out.append({"tx": tx, "rx": rx, "d_tx": d, "d_rx": d_rx, "tol": tol, "pdu": pdu.hex(), "what": what})
    # counters at and above 2^32 (the packet counter has 39 bits; bits 32..38 share the fifth nonce byte with the
    # direction bit): a sender ahead by a multiple of 2^32 must be rejected like any other skew beyond the tolerance,
    # and the ciphertext/MIC at such counters must be the reference AES-CCM output (judge_pair, "ref_body")
    big = [2 ** 32, 2 ** 32 + 5, 2 ** 38, 2 ** 39 - 1]
    for i in range(48 if ctx.thorough else 16):
        ltk, mat = rand_material(rng, 5)
        d = M2S if i % 2 == 0 else S2M
        tol = rng.choice([1, 2, 2, 3])
        pdu = rand_pdu(rng, rng.choice([0, 1, 16, 27, 251]))
        c_tx = big[(i // 2) % 4]
        delta = rng.choice([2 ** 32, 2 ** 32, 2 ** 33, 2 ** 38, c_tx - c_tx % 2 ** 32])
        c_rx = c_tx - delta if c_tx - delta >= 0 else c_tx % 2 ** 32
        oth = rand_counter(rng)
        tx = {"ltk": ltk, "mat": mat, "mc": c_tx if d == M2S else oth, "sc": oth if d == M2S else c_tx}
        rx = {"ltk": ltk, "mat": list(mat), "mc": c_rx if d == M2S else oth, "sc": oth if d == M2S else c_rx}
        out.append({"tx": tx, "rx": rx, "d_tx": d, "d_rx": d, "tol": tol, "pdu": pdu.hex(),
                    "what": "counter-ahead-by-multiple-of-2^32"})
    return out


def gen_links(ctx):
    rng, out = ctx.rng, []
    for _ in range(60 if ctx.thorough else 12):
        ltk, mat = rand_material(rng)
        tol = rng.choice([1, 2, 2, 3])
        run = {M2S: 0, S2M: 0}
        evs = []
        for _j in range(rng.randrange(5, 120 if ctx.thorough else 40)):
            d = rng.choice([M2S, S2M])
            lost = rng.random() < 0.35 and run[d] < tol - 1
            run[d] = run[d] + 1 if lost else 0
            evs.append([d, rand_pdu(rng, rng.choice([0, 1, 5, 20, 27, 27, 100, 251])).hex(), not lost])
        out.append({"ltk": ltk, "mat": mat, "tol": tol, "events": evs})
    return out


def gen_captures(ctx):
    rng, out = ctx.rng, []
    # the specification's own sample connection first
    out.append({"ltk": SPEC["ltk"], "mat": SPEC["mat"], "keys": [SPEC["ltk"]], "kind": "spec-sample",
                "events": [[1, "0f0106", True], [2, "070106", True],
                           [1, "0e1b1700636465666768696a6b6c6d6e6f707131323334353637383930", True],
                           [2, "061b170037363534333231304142434445464748494a4b4c4d4e4f5051", True]]})
    # payload-length boundaries through the passive decryptor (on-air length = payload + 4-byte MIC, up to 255),
    # both directions, several maximal PDUs in a row so that a skipped PDU cannot hide behind the skew tolerance
    CAP_BOUNDARY = [0, 1, 26, 27, 247, 248, 250, 251]
    for i in range(8 if ctx.thorough else 2):
        ltk, mat = rand_material(rng)
        first = M2S if i % 2 == 0 else S2M
        other = S2M if first == M2S else M2S
        parts = [[], [], []]
        for n in (251, 251, 250, 248):                       # four long PDUs in a row in one direction ...
            parts[0].append([first, rand_pdu(rng, n).hex(), True])
        parts[0].append([first, rand_pdu(rng, 27).hex(), True])   # ... then an ordinary one that must still decrypt
        for n in (248, 251, 251):
            parts[0].append([other, rand_pdu(rng, n).hex(), True])
        parts[0].append([other, rand_pdu(rng, 1).hex(), True])
        lens = list(CAP_BOUNDARY)
        rng.shuffle(lens)
        for k, n in enumerate(lens):                         # every boundary length in both directions, interleaved
            for d in (first, other):
                parts[1 + k % 2].append([d, rand_pdu(rng, n).hex(), True])
        for evs in parts:                                    # separate connections (cost of the in-Coq comparison is per capture)
            if i >= 2:                                       # thorough: also with single sniffer losses between long PDUs
                for k in range(4, len(evs), 5):
                    if evs[k - 1][2]:
                        evs[k][2] = False
            out.append({"ltk": ltk, "mat": mat, "keys": [ltk], "events": evs, "kind": "length-boundary" if i < 2 else "length-boundary-lossy"})
    # every piece of key material at its boundary values, handed to the decryptor directly and the way the sniffer
    # does it (real LL_ENC_REQ / LL_ENC_RSP / LL_START_ENC_REQ PDUs -> EncryptedSessionInitialization -> add_crypto_material)
    for k, (name, ltk, mat) in enumerate(boundary_materials(rng)):
        for way in ("direct", "sniffer"):
            evs = [[M2S, rand_pdu(rng, 3, llid=3).hex(), True], [S2M, rand_pdu(rng, 1, llid=3).hex(), True],
                   [rng.choice([M2S, S2M]), rand_pdu(rng, rng.choice([2, 9, 20])).hex(), True]]
            c = {"ltk": ltk, "mat": mat, "keys": [ltk], "events": evs, "kind": "material-boundary-%s(%s)" % (way, name)}
            if way == "sniffer":
                c["esi"] = {"rand": BOUNDARY_RAND[k % 4], "ediv": BOUNDARY_EDIV[(k // 4) % 4]}
            out.append(c)
    # control PDUs (LLID 3) whose FIRST CIPHERTEXT BYTE takes every value 0..255 (the driver picks the plaintext
    # opcode accordingly): nothing in the encrypted bytes may be interpreted before decryption
    nsweep = 16 if ctx.thorough else 8
    per = 256 // nsweep
    for i in range(nsweep * (2 if ctx.thorough else 1)):
        ltk, mat = rand_material(rng, 5)
        evs = []
        for v in range((i % nsweep) * per, (i % nsweep) * per + per):
            d = M2S if (v + i // nsweep + i) % 2 == 0 else S2M
            evs.append([d, rand_pdu(rng, rng.choice([1, 2, 3, 9, 23]), llid=3).hex(), True, v])
        out.append({"ltk": ltk, "mat": mat, "keys": [ltk], "events": evs, "kind": "ciphertext-byte-sweep"})
    for i in range(40 if ctx.thorough else 10):
        ltk, mat = rand_material(rng)
        keys = [ltk]
        if i % 3 == 1:
            keys = [rand_material(rng, 5)[0], ltk]           # a wrong key is tried first
        run = {M2S: 0, S2M: 0}
        evs = []
        for _j in range(rng.randrange(3, 60 if ctx.thorough else 14)):
            d = rng.choice([M2S, S2M])
            if rng.random() < 0.2:
                evs.append([d, bytes([1 | (rng.randrange(4) << 2), 0]).hex(), True])   # empty PDU
                continue
            missed = i % 2 == 1 and rng.random() < 0.25 and run[d] < 1
            run[d] = run[d] + 1 if missed else 0
            n = rng.choice([1, 2, 7, 20, 27, 27, 251]) if not ctx.thorough else rng.choice(BOUNDARY_LEN[1:] + [26, 247, 248])
            evs.append([d, rand_pdu(rng, n).hex(), not missed])
        out.append({"ltk": ltk, "mat": mat, "keys": keys, "events": evs, "kind": "lossy" if i % 2 else "complete"})
    return out


def gen_dec_raw(ctx, captures_air):
    """decryptor on raw PDU streams: garbage, corrupted captured PDUs, missing material"""
    rng, out = ctx.rng, []
    out.append({"keys": [], "mats": [[1, 2, 3, 4]], "pdus": ["0203aabbccddeeff00"], "kind": "no-key"})
    out.append({"keys": ["00" * 16], "mats": [], "pdus": ["0203aabbccddeeff00"], "kind": "no-material"})
    for c, air in captures_air[: (40 if ctx.thorough else 6)]:
        pdus = []
        for a in air:
            b = bytes.fromhex(a)
            if len(b) > 2 and rng.random() < 0.4:
                bit = rng.choice([0, 1, 5, 6, 7] + [rng.randrange(16, len(b) * 8)])
                pdus.append(flip(b, bit).hex())     # corrupted copy first: must be rejected ...
            pdus.append(a)                          # ... and must not disturb the real one
        mats = [c["mat"]]
        keys = c["keys"]
        out.append({"keys": keys, "mats": mats, "pdus": pdus, "kind": "corrupted-capture", "src": c})
    for _ in range(30 if ctx.thorough else 6):
        ltk, mat = rand_material(rng, 5)
        pdus = []
        for _j in range(rng.randrange(1, 6)):
            n = rng.randrange(0, 30)
            pdus.append((bytes([rng.randrange(256), n]) + bytes(rng.randrange(256) for _ in range(n))).hex())
        out.append({"keys": [ltk], "mats": [mat, rand_material(rng, 5)[1]][: rng.choice([1, 2])], "pdus": pdus, "kind": "garbage"})
    return out



# ----------------------------------------------------------------------------- the stack's encryption start procedure
HANDLES = [1, 2, 42, 64]


def rand_proc(rng, h, central):
    ltk, mat = rand_material(rng, 5 if rng.random() < 0.8 else rng.randrange(2))
    return {"central": central, "h": h, "key": ltk, "rand": rng.getrandbits(64) if rng.random() < 0.7 else 0,
            "ediv": rng.getrandbits(16), "skdm": mat[0], "ivm": mat[1], "skds": mat[2], "ivs": mat[3]}


def proc_events(p):
    if p["central"]:
        return [["reg", p["h"], p["key"]], ["start", p["h"], p["rand"], p["ediv"], p["skdm"], p["ivm"]],
                ["encrsp", p["h"], p["skds"], p["ivs"]], ["startencreq", p["h"]]]
    return [["reg", p["h"], p["key"]], ["encreq", p["h"], p["rand"], p["ediv"], p["skdm"], p["ivm"], p["skds"], p["ivs"]]]


def gen_stack_cases(ctx):
    rng, cases = ctx.rng, []
    # (a) 1..3 procedures run one after the other, same / different handles, both roles
    for i in range(240 if ctx.thorough else 40):
        n = 1 + i % 3
        role = [True, False, None][i % 3 if i % 7 else 2]      # central, peripheral, mixed
        same = (i // 3) % 2 == 0
        h0 = rng.choice(HANDLES)
        procs, events = [], []
        for _j in range(n):
            h = h0 if same else rng.choice(HANDLES)
            p = rand_proc(rng, h, role if role is not None else rng.random() < 0.5)
            if same and rng.random() < 0.25 and procs:
                p["key"] = procs[-1]["key"]                     # key refresh with the same LTK, new SKD/IV
            events += proc_events(p)
            p["at"] = len(events) - 1
            procs.append(p)
        cases.append({"kind": "sequential", "handles": HANDLES, "events": events, "procs": procs})
    # (a') every piece of key material, rand and ediv at their boundary values, both roles
    bm = boundary_materials(rng)
    for k, (name, ltk, mat) in enumerate(bm):
        procs, events = [], []
        for central in (True, False):
            p = {"central": central, "h": rng.choice(HANDLES), "key": ltk, "rand": BOUNDARY_RAND[k % 4], "ediv": BOUNDARY_EDIV[(k // 4) % 4],
                 "skdm": mat[0], "ivm": mat[1], "skds": mat[2], "ivs": mat[3]}
            events += proc_events(p)
            p["at"] = len(events) - 1
            procs.append(p)
        cases.append({"kind": "material-boundary", "handles": HANDLES, "events": events, "procs": procs})
    # (b) ARBITRARY interleavings: per-handle procedure sequences merged event by event in random order
    for i in range(120 if ctx.thorough else 24):
        hs = rng.sample(HANDLES, rng.choice([2, 2, 3, 4]))
        per = {}
        for h in hs:
            per[h] = [rand_proc(rng, h, (i % 4 != 3) or rng.random() < 0.5) for _ in range(rng.choice([1, 1, 2, 3]))]
        queues = {h: [(p, e, k == len(proc_events(p)) - 1) for p in per[h] for k, e in enumerate(proc_events(p))] for h in hs}
        events, procs = [], []
        if i % 6 == 0:       # the exact pattern of the repaired defect first: both LL_ENC_RSP before both LL_START_ENC_REQ
            p, q = rand_proc(rng, hs[0], True), rand_proc(rng, hs[1], True)
            ep, eq = proc_events(p), proc_events(q)
            events = [ep[0], eq[0], ep[1], eq[1], ep[2], eq[2], ep[3], eq[3]]
            p["at"], q["at"] = 6, 7
            procs = [p, q]
        while any(queues.values()):
            h = rng.choice([h for h in hs if queues[h]])
            p, e, last = queues[h].pop(0)
            events.append(e)
            if last:
                p["at"] = len(events) - 1
                procs.append(p)
        cases.append({"kind": "interleaved", "handles": HANDLES, "events": events, "procs": procs})
    # (b') disconnection / reconnection reusing the handle between and inside procedures of other handles
    for i in range(40 if ctx.thorough else 8):
        h, h2 = rng.sample(HANDLES, 2)
        p1, p2, other = rand_proc(rng, h, True), rand_proc(rng, h, i % 2 == 0), rand_proc(rng, h2, True)
        eo = proc_events(other)
        events = proc_events(p1)
        p1["at"] = len(events) - 1
        events += eo[:3] + [["disc", h], ["conn", h], ["startencreq", h]]     # no manager may survive the disconnection
        stale_at = len(events) - 1
        events += [eo[3]]
        other["at"] = len(events) - 1
        events += proc_events(p2)
        p2["at"] = len(events) - 1
        cases.append({"kind": "reconnect", "handles": HANDLES, "events": events, "procs": [p1, other, p2], "no_setenc_at": [stale_at]})
    # (c) guards: no key, no manager yet, LL_ENC_RSP without LL_ENC_REQ, unknown handle, key withdrawn
    k = rand_material(rng, 5)[0]
    cases.append({"kind": "guards", "handles": [7], "procs": [],
                  "events": [["startencreq", 7], ["start", 7, 1, 2, 3, 4], ["encrsp", 7, 1, 2], ["encreq", 7, 1, 2, 3, 4, 5, 6],
                             ["reg", 7, k], ["encrsp", 7, 1, 2], ["startencreq", 9], ["encrsp", 9, 1, 2], ["encreq", 9, 1, 2, 3, 4, 5, 6],
                             ["reg", 9, k], ["reg", 7, None], ["start", 7, 1, 2, 3, 4]]})
    return cases


STACK_EXC = {"AttributeError": "AttributeError", "error": "StructError", "ValueError": "ValueError", "IndexError": "IndexError"}


def cev(e):
    if e[0] == "reg":
        return "EReg %d %s" % (e[1], "None" if e[2] is None else "(Some %s)" % cbytes(bytes.fromhex(e[2])))
    name = {"start": "EStart", "encrsp": "EEncRsp", "startencreq": "EStartEncReq", "encreq": "EEncReq", "conn": "EConn", "disc": "EDisc"}[e[0]]
    return name + " " + " ".join("%d" % x for x in e[1:])


def clout(o):
    def on(x):
        return "None" if x is None else "(Some %d)" % x
    if o["k"] == "none":
        return "LNone"
    if o["k"] == "reject":
        return "LReject"
    if o["k"] == "setenc":
        c = o["call"]
        return "LSetEnc %d %s %s %s %s %s" % (c["conn"], cbytes(bytes.fromhex(c["ll_key"])), cbytes(bytes.fromhex(c["ll_iv"])),
                                             cbytes(bytes.fromhex(c["key"])), on(c["rand"]), on(c["ediv"]))
    if o["k"] == "exc" and o["d"] in STACK_EXC:
        return "LRaise " + STACK_EXC[o["d"]]
    return "LRaise MissingCryptographicMaterial"      # never produced by the model: forces a disagreement


def stack_term(c, res):
    return "(%s, %s, %s)" % (clist(["%d" % h for h in c["handles"]]), clist([cev(e) for e in c["events"]]),
                             clist([clout(o) for o in res["out"]]))


def judge_stack(ctx, c, res):
    """the PHY must be given e(LTK, SKDs||SKDm), IVm||IVs, LTK, rand, ediv of the CURRENT procedure,
    exactly once per procedure; e() recomputed independently by the driver (Cryptodome ECB)"""
    n = 0
    case = {"op": "stack", "kind": c["kind"], "handles": c["handles"], "events": c["events"],
            "procs": c["procs"]}
    if "exc" in res:
        return ctx.violation("driving the link layer raised " + res["exc"], case)
    out = res["out"]
    for p, ref in zip(c["procs"], res["ref"]):
        want = {"conn": p["h"], "enabled": True, "ll_key": ref["ll_key"], "ll_iv": ref["ll_iv"], "key": p["key"],
                "rand": p["rand"], "ediv": p["ediv"]}
        o = out[p["at"]]
        got = o.get("call") if o["k"] == "setenc" else None
        if got != want:
            n += ctx.violation("session key / IV / LTK handed to the PHY is not e(LTK, SKDs||SKDm), IVm||IVs of the current encryption procedure",
                               dict(case, failing_proc=c["procs"].index(p)), expected=want, observed=o)
    for k in c.get("no_setenc_at", []):
        if out[k]["k"] in ("setenc", "multi"):
            n += ctx.violation("LL_START_ENC_REQ after a disconnection/reconnection of the handle was answered with the previous connection's material",
                               dict(case, failing_event=k), expected="no set_encryption", observed=out[k])
    ats = {p["at"] for p in c["procs"]}
    ats |= set(c.get("no_setenc_at", []))
    if c["kind"] in ("sequential", "interleaved", "reconnect", "material-boundary"):
        extra = [i for i, o in enumerate(out) if o["k"] in ("setenc", "multi") and i not in ats]
        if extra or any(o["k"] == "multi" for o in out):
            n += ctx.violation("set_encryption called outside / more than once in a procedure", case, observed=[out[i] for i in extra][:3])
    return n


def judge_roles(ctx, rng_cases, results):
    """both sides of one procedure (central LinkLayer, peripheral LinkLayer) hand the same key/IV to their PHY"""
    n = 0
    for (cc, pc), (rc, rp) in zip(rng_cases, results):
        a = rc["out"][cc["procs"][0]["at"]] if "out" in rc else None
        b = rp["out"][pc["procs"][0]["at"]] if "out" in rp else None
        ka = (a["call"]["ll_key"], a["call"]["ll_iv"]) if a and a["k"] == "setenc" else None
        kb = (b["call"]["ll_key"], b["call"]["ll_iv"]) if b and b["k"] == "setenc" else None
        if ka is None or ka != kb:
            n += ctx.violation("central and peripheral side derive different session material", {"op": "stack", **{k: cc[k] for k in ("kind", "handles", "events", "procs")}},
                               expected=ka, observed=kb)
    return n


# ----------------------------------------------------------------------------- several sessions on one decryptor
def gen_multicaptures(ctx):
    rng, out = ctx.rng, []

    def session(key=None):
        ltk, mat = rand_material(rng, 5)
        return {"ltk": key or ltk, "mat": mat, "esi": {"rand": rng.getrandbits(64), "ediv": rng.getrandbits(16)}}

    def pdus(si, n):
        return [[si, rng.choice([M2S, S2M]), rand_pdu(rng, rng.choice([1, 2, 5, 9, 20, 27])).hex(), True] for _ in range(n)]

    for i in range(48 if ctx.thorough else 12):
        way = "direct" if i % 2 == 0 else "sniffer"
        nses = 2 + (i // 2) % 2
        sessions = [session() for _ in range(nses)]
        events = []
        kind = "successive"
        if i % 6 == 4 and way == "direct":
            # two live connections under different keys, PDUs interleaved (the decryptor has no notion of connection)
            kind = "interleaved"
            qs = [pdus(si, rng.randrange(3, 6)) for si in range(nses)]
            while any(qs):
                events.append(rng.choice([q for q in qs if q]).pop(0))
        else:
            for si in range(nses):
                events += pdus(si, rng.randrange(2, 6))
        keys = [x["ltk"] for x in sessions]
        if i % 4 == 1:
            keys = keys[::-1]                       # the later session's key is tried first
        if i % 4 == 2:
            keys = [rand_material(rng, 5)[0]] + keys  # an unrelated key is tried first
        out.append({"kind": kind + "-" + way, "keys": keys, "way": way, "sessions": sessions, "events": events})
    # reconnection of bonded devices: the SAME key with fresh SKD/IV (regression of the repaired cache defect)
    for way in ("direct", "sniffer"):
        s1 = session()
        s2 = session(key=s1["ltk"])
        out.append({"kind": "same-key-new-material-" + way, "keys": [s1["ltk"]], "way": way, "sessions": [s1, s2],
                    "events": pdus(0, 3) + pdus(1, 3)})
        s3, s4 = session(), session(key=s1["ltk"])
        out.append({"kind": "same-key-new-material-" + way, "keys": [s3["ltk"], s1["ltk"]], "way": way, "sessions": [s1, s3, s2, s4],
                    "events": pdus(0, 2) + pdus(1, 2) + pdus(2, 3) + pdus(3, 2)})
    return out


def judge_multicapture(ctx, c, res):
    n = 0
    case = {"op": "multicapture", **{k: c[k] for k in ("kind", "keys", "way", "sessions", "events")}}
    if "exc" in res:
        return ctx.violation("decryptor raised " + res["exc"] + " on a capture with several sessions", case)
    for i, (o, want, si) in enumerate(zip(res["obs"], res["plain"], res["sid"])):
        if not (o["k"] == 1 and o["d"] == want):
            n += ctx.violation("passive decryptor did not recover PDU #%d (session %d of %d, its key is known) of a capture with several sessions (%s)"
                               % (i, si + 1, len(c["sessions"]), c["kind"]), dict(case, failing_pdu=i), expected=want, observed=o)
            break
    return n

# ----------------------------------------------------------------------------- Coq terms
def cdir(d):
    return "M2S" if d == M2S else "S2M"


def cobs(o):
    if o["k"] == 3:
        return "(3, [%d], %d, %d)" % (EXC.get(o["d"], 0), o["mc"], o["sc"])
    return "(%d, %s, %d, %d)" % (o["k"], cbytes(bytes.fromhex(o["d"])), o["mc"], o["sc"])


def cop(o):
    if o[0] == "enc":
        return "OEnc %s %s" % (cdir(o[1]), cbytes(bytes.fromhex(o[2])))
    if o[0] == "dec":
        return "ODec %s %s %s" % (cdir(o[1]), cnat(o[2]), cbytes(bytes.fromhex(o[3])))
    if o[0] == "set":
        return "OSet %d %d" % (o[1], o[2])
    if o[0] == "inc":
        return "OInc %s" % cdir(o[1])
    if o[0] == "declast":
        return "ODecLast %s %s %s" % (cdir(o[1]), cnat(o[2]), "None" if o[3] < 0 else "(Some (%s, %d))" % (cnat(o[3]), o[4]))
    raise ValueError(o)


def cmat(m):
    return "(%d, %d, %d, %d)" % tuple(m)


def mgr_term(c, res):
    return "(%s, %s, %s, %s, %s)" % (cbytes(bytes.fromhex(c["ltk"])), cmat(c["mat"]), cbytes(bytes.fromhex(res["skiv"])),
                                     clist([cop(o) for o in c["ops"]]), clist([cobs(o) for o in res["obs"]]))


def dec_term(keys, mats, pdus, res):
    def dob(o):
        if o["k"] == 3:
            return "(3, [%d])" % EXC.get(o["d"], 0)
        return "(%d, %s)" % (o["k"], cbytes(bytes.fromhex(o["d"])))
    return "(%s, %s, %s, %s, %s)" % (clist([cbytes(bytes.fromhex(k)) for k in keys]), clist([cmat(m) for m in mats]),
                                     clist([cbytes(bytes.fromhex(p)) for p in pdus]), clist([dob(o) for o in res["obs"]]),
                                     clist(["(%s, %d, %d, %d)" % (cbytes(bytes.fromhex(k)), i if i >= 0 else 4095, mc, sc) for k, i, mc, sc in res["final"]]))


def blocks_of_case(c):
    """rough AES-block cost of a manager case in the model (for sharding)"""
    t = 1
    for o in c["ops"]:
        if o[0] == "enc":
            n = len(o[2]) // 2
            t += 3 + 2 * ((n + 15) // 16)
        elif o[0] in ("dec", "declast"):
            t += 30
    return t


# ----------------------------------------------------------------------------- oracle
def judge_mgr(ctx, c, res):
    n = 0
    obs = res["obs"]
    case = {"op": "mgr", "kind": c["kind"], "ltk": c["ltk"], "mat": c["mat"], "ops": c["ops"]}
    if c["kind"] == "ctor":
        if not (obs and obs[0]["k"] == 3):
            n += ctx.violation("constructor accepted out-of-range key material", case, observed=obs)
        return n
    if len(obs) != len(c["ops"]):
        return ctx.violation("driver returned %d observations for %d ops" % (len(obs), len(c["ops"])), case, observed=obs)
    prev = (0, 0)
    for i, (o, e, r) in enumerate(zip(c["ops"], c["exp"], obs)):
        here = dict(case, failing_op=i)
        if o[0] in ("dec", "declast") and r["k"] in (2, 3) and (r["mc"], r["sc"]) != prev:
            n += ctx.violation("failed decryption changed the counters", here, expected=list(prev), observed=[r["mc"], r["sc"]])
        elif e is not None:
            bad = [k for k in e if r.get(k) != e[k]]
            if bad:
                what = {1: "valid PDU not decrypted to the original header+payload with counters in step",
                        2: "tampered / foreign PDU not rejected"}.get(e["k"], "unexpected outcome")
                n += ctx.violation(what + " (%s)" % c["kind"], here, expected=e, observed=r)
        prev = (r["mc"], r["sc"])
    return n


def judge_sweep(ctx, s, res):
    n = 0
    case = {"op": "sweep", **s}
    if "exc" in res:
        return ctx.violation("encrypt/decrypt of a valid PDU raised " + res["exc"], case)
    pdu = bytes.fromhex(s["pdu"])
    base = res["base"]
    if not (base["k"] == 1 and base["d"] == s["pdu"] and (base["mc"], base["sc"]) == (s["mc"], s["sc"])):
        n += ctx.violation("round trip failed", case, expected=s["pdu"], observed=base)
    free = {2, 3, 4} | set(range(8, 16))      # NESN/SN/MD (masked by 0xE3) and the length byte (not an input of encrypt/decrypt)
    nr = set(res["not_rejected"])
    for bit in sorted(nr - free):
        n += ctx.violation("single-bit corruption of a protected bit accepted", dict(case, bit=bit, ct=res["ct"]),
                           expected="failure", observed=res["data"].get(str(bit)))
        if n > 3:
            break
    for bit in (2, 3, 4):
        got = res["data"].get(str(bit))
        if got != [1, flip(pdu, bit).hex()]:
            n += ctx.violation("NESN/SN/MD bit (outside the 0xE3 mask) influenced decryption", dict(case, bit=bit),
                               expected=[1, flip(pdu, bit).hex()], observed=got)
    if res["cnt_changed"]:
        n += ctx.violation("counters changed by a corrupted PDU", dict(case, bits=res["cnt_changed"][:10]))
    return n


def judge_pair(ctx, p, res):
    case = {"op": "pair", **p}
    if "exc" in res:
        return ctx.violation("encrypt raised " + res["exc"], case)
    if "ref_body" in res and res["ct"][4:] != res["ref_body"]:
        return ctx.violation("ciphertext/MIC differ from AES-CCM with the specified nonce (39-bit counter, direction bit, IV) computed by the independent reference",
                             case, expected=res["ref_body"], observed=res["ct"][4:])
    r = res["res"]
    if r["k"] != 2:
        return ctx.violation("PDU accepted with wrong %s" % p["what"], case, expected="failure", observed=r)
    if (r["mc"], r["sc"]) != (p["rx"]["mc"], p["rx"]["sc"]):
        return ctx.violation("failed decryption (wrong %s) changed the counters" % p["what"], case,
                             expected=[p["rx"]["mc"], p["rx"]["sc"]], observed=[r["mc"], r["sc"]])
    return 0


def judge_link(ctx, l, res):
    n = 0
    if "exc" in res:
        return ctx.violation("a connection's encrypt/decrypt raised " + res["exc"], {"op": "link", **l})
    deliv = [e for e in l["events"] if e[2]]
    for (d, hx, _), r in zip(deliv, res["out"]):
        if not (r["k"] == 1 and r["d"] == hx):
            n += ctx.violation("PDU of a lossy connection not recovered (losses below the tolerance)",
                               {"op": "link", **l}, expected=hx, observed=r)
            break
    if res["tx"] != res["rx"] and deliv and not n:
        # counters must be in step after the last delivered PDU of each direction
        last = {}
        for i, e in enumerate(l["events"]):
            last[e[0]] = e[2]
        for d, idx in ((M2S, 0), (S2M, 1)):
            if last.get(d) and res["tx"][idx] != res["rx"][idx]:
                n += ctx.violation("counters out of step after a delivered PDU", {"op": "link", **l},
                                   expected=res["tx"], observed=res["rx"])
    return n


def judge_capture(ctx, c, res):
    if "exc" in res:
        return ctx.violation("decryptor raised " + res["exc"] + " on a captured connection", {"op": "capture", **c})
    if "esi" in c and res.get("materials") != [list(c["mat"])]:
        return ctx.violation("session material announced in LL_ENC_REQ / LL_ENC_RSP did not reach the decryptor (%s)" % c["kind"],
                             {"op": "capture", **c}, expected=[list(c["mat"])], observed=res.get("materials"))
    plain = res.get("plain") or [e[1] for e in c["events"] if e[2]]      # the driver may have chosen the first payload byte
    want = [(None if (bytes.fromhex(h)[1] == 0 and bytes.fromhex(h)[0] & 3 == 1) else h) for h in plain]
    got = [(o["d"] if o["k"] == 1 else None) for o in res["obs"]]
    if want != got:
        i = next((j for j, (a, b) in enumerate(zip(want, got)) if a != b), min(len(want), len(got)))
        return ctx.violation("passive decryptor did not recover the plaintext of captured PDU #%d (%s)" % (i, c["kind"]),
                             {"op": "capture", **c}, expected=want[i:i + 1], observed=res["obs"][i:i + 1])
    return 0


def judge_dec_raw(ctx, c, res):
    n = 0
    if "exc" in res:
        return ctx.violation("decryptor raised " + res["exc"], {"op": "dec", "keys": c["keys"], "mats": c["mats"], "pdus": c["pdus"]})
    if c["kind"] in ("no-key", "no-material"):
        if not all(o["k"] == 3 and o["d"] == "MissingCryptographicMaterial" for o in res["obs"]):
            n += ctx.violation("decryptor without material did not raise MissingCryptographicMaterial", {"op": "dec", **c}, observed=res["obs"])
    elif c["kind"] == "corrupted-capture":
        src = c["src"]
        caps = c.get("_plain") or [e[1] for e in src["events"] if e[2]]
        genuine = []
        # the genuine PDUs are exactly the capture's on-air PDUs in order; corrupted copies precede some of them
        for p in c["pdus"]:
            genuine.append(p in c["_air_set"])
        k = 0
        for p, g, o in zip(c["pdus"], genuine, res["obs"]):
            if g:
                w = caps[k]; k += 1
                empty = bytes.fromhex(w)[1] == 0 and bytes.fromhex(w)[0] & 3 == 1
                if (o["d"] if o["k"] == 1 else None) != (None if empty else w):
                    n += ctx.violation("captured PDU not recovered after a corrupted copy was seen", {"op": "dec", "keys": c["keys"], "mats": c["mats"], "pdus": c["pdus"]},
                                       expected=w, observed=o)
                    break
            else:
                # corrupted in a protected bit (generator never flips bits 2..4 / length byte)
                if o["k"] == 1:
                    n += ctx.violation("corrupted captured PDU accepted by the decryptor", {"op": "dec", "keys": c["keys"], "mats": c["mats"], "pdus": c["pdus"]}, observed=o)
                    break
    elif c["kind"] == "spec-known-answer":
        got = [(o["d"] if o["k"] == 1 else None) for o in res["obs"]]
        if got != c["expect"]:
            n += ctx.violation("decryptor does not recover the Bluetooth specification's sample data", {"op": "dec", "keys": c["keys"], "mats": c["mats"], "pdus": c["pdus"]},
                               expected=c["expect"], observed=res["obs"])
    else:
        if any(o["k"] == 1 for o in res["obs"]):
            n += ctx.violation("random bytes accepted by the decryptor", {"op": "dec", "keys": c["keys"], "mats": c["mats"], "pdus": c["pdus"]}, observed=res["obs"])
    return n


# ----------------------------------------------------------------------------- run
def load_corpus():
    out = []
    cdir_ = os.path.join(C.VERIF, "corpus", PID)
    for fn in sorted(os.listdir(cdir_)) if os.path.isdir(cdir_) else []:
        w = json.load(open(os.path.join(cdir_, fn)))
        w["file"] = fn
        out.append(w)
    return out


MAX_REPLAYS = 6


def cap_violations(ctx):
    """at most MAX_REPLAYS replay files per run; further failing cases are only counted"""
    orig = ctx.violation
    ctx.suppressed = 0
    def limited(what, case, key=None, expected=None, observed=None):
        if key is None and len(ctx.violations) >= MAX_REPLAYS:
            ctx.suppressed += 1
            return True
        return orig(what, case, key=key, expected=expected, observed=observed)
    ctx.violation = limited


def run(ctx):
    C.build_dir(PID, clean=True)
    cap_violations(ctx)
    ctx.cov["trusted_base"] = [
        "Coq 8.16.1 kernel + vm_compute (no native_compute); every theorem of C13/Property.v closed under the global context (Print Assumptions checked each run)",
        "AES-128 enters every theorem as a Section variable E with the single hypothesis E_length: forall k b, length (E k b) = 16; nothing else about AES is assumed",
        "Lib/Aes.v (Gallina AES-128, FIPS-197 vectors), Lib/Ccm.v (RFC 3610 vector #1, Core-spec M=4 L=2 vector): used only to evaluate the model in the correspondence",
        "hand-written model coq/theories/C13/Model.v tied to whad/ble/crypto.py by the bit-for-bit correspondence of this run (ciphertext+MIC, (plaintext, success), counters after every operation)",
        "Cryptodome AES/CCM is the implementation's primitive; its outputs are compared with the Gallina CCM on every case",
        "LinkLayer of the BLE stack driven through a Sandbox mock PHY (control PDUs as scapy packets, randint of whad.ble.stack.llm replaced by the case's SKD/IV draws); observed: the arguments of set_encryption",
        "scapy BTLE/BTLE_DATA dissection and rebuild in LinkLayerDecryptor (packet -> bytes[4:-3], BTLE_DATA(plaintext).len -= 4), observed through bytes()",
        "the reference encryptor of the capture stream (harness/impl/C13.py ref_encrypt, written from the Bluetooth Core specification; reproduces the specification's sample data)",
    ]
    ctx.assumptions = [
        "LTK of 16 bytes; SKD < 2^64, IV < 2^32 (struct.pack raises otherwise; modelled as Raise)",
        "conditional theorems (tamper / skew / decryptor with losses) assume the received MIC differs from the MIC recomputed at the counters tried: a 32-bit MAC can collide, no proof can exclude it",
        "data PDUs of at least 2 bytes (header, length); length byte consistent with the payload for the decryptor",
    ]
    proofs_ok, detail = ctx.check_proofs(lib_targets=["theories/Lib/Bytes.vo", "theories/Lib/Xor.vo", "theories/Lib/Aes.vo",
                                                      "theories/Lib/Ccm.vo", "theories/Lib/Cmac.vo"])
    # generate_nonce regenerated from the source and proved equal to the model's nonce_of
    # (harness/translators/pyfun.py, theories/C13/{Gen,GenEq,PropertyGen}.v, design/PYTRANS.md)
    gen = pyfun_util.check_generated(ctx, PID)
    if not gen["ok"]:
        proofs_ok, detail = False, (detail if not proofs_ok else str(gen["what"])) + gen["detail"]
    ctx.log("proofs:", proofs_ok, detail.splitlines()[0][:200])

    # ---- generation ---------------------------------------------------------
    corpus = load_corpus()
    mgr_cases = [w["case"] for w in corpus if w.get("op") == "mgr"] + gen_mgr_cases(ctx)
    sweeps, pairs, links = gen_sweeps(ctx), gen_pairs(ctx), gen_links(ctx)
    captures = [w["case"] for w in corpus if w.get("op") == "capture"] + gen_captures(ctx)
    corpus_dec = [w["case"] for w in corpus if w.get("op") == "dec"]
    multicaps = [w["case"] for w in corpus if w.get("op") == "multicapture"] + gen_multicaptures(ctx)
    stack_cases = [w["case"] for w in corpus if w.get("op") == "stack"] + gen_stack_cases(ctx)
    role_pairs = []
    for _ in range(40 if ctx.thorough else 8):
        pc = rand_proc(ctx.rng, ctx.rng.choice(HANDLES), True)
        pp = dict(pc, central=False)
        pc["at"], pp["at"] = 3, 1
        role_pairs.append(({"kind": "sequential", "handles": HANDLES, "events": proc_events(pc), "procs": [pc]},
                           {"kind": "sequential", "handles": HANDLES, "events": proc_events(pp), "procs": [pp]}))
    n_plain_stack = len(stack_cases)
    for a, b in role_pairs:
        stack_cases += [a, b]

    # ---- implementation -------------------------------------------------------
    r1 = C.run_impl("C13.py", {"mgr": [{"ltk": c["ltk"], "mat": c["mat"], "ops": c["ops"]} for c in mgr_cases],
                               "sweep": sweeps, "pair": [{k: p[k] for k in p if k != "what"} for p in pairs],
                               "link": links, "capture": captures,
                               "multicapture": [{k: c[k] for k in ("keys", "way", "sessions", "events")} for c in multicaps],
                               "stack": [{"handles": c["handles"], "events": c["events"],
                                          "procs": [{k: p[k] for k in ("key", "skdm", "ivm", "skds", "ivs")} for p in c["procs"]]}
                                         for c in stack_cases]})
    ctx.log("impl: %d manager cases, %d sweeps, %d pairs, %d links, %d captures" % (len(mgr_cases), len(sweeps), len(pairs), len(links), len(captures)))
    dec_raw = corpus_dec + gen_dec_raw(ctx, [(c, r["air"]) for c, r in zip(captures, r1["capture"]) if "air" in r])
    for c in dec_raw:
        if c["kind"] == "corrupted-capture":
            idx = captures.index(c["src"])
            c["_air_set"] = set(r1["capture"][idx].get("air", []))
            c["_plain"] = r1["capture"][idx].get("plain")
    r2 = C.run_impl("C13.py", {"dec": [{"keys": c["keys"], "mats": c["mats"], "pdus": c["pdus"]} for c in dec_raw]})

    # ---- oracle: the property on the real code ------------------------------------
    nviol = 0
    for c, res in zip(mgr_cases, r1["mgr"]):
        nviol += judge_mgr(ctx, c, res)
    nbits = 0
    for s, res in zip(sweeps, r1["sweep"]):
        nviol += judge_sweep(ctx, s, res)
        nbits += len(res.get("ct", "")) * 4
    for p, res in zip(pairs, r1["pair"]):
        nviol += judge_pair(ctx, p, res)
    for l, res in zip(links, r1["link"]):
        nviol += judge_link(ctx, l, res)
    for c, res in zip(captures, r1["capture"]):
        nviol += judge_capture(ctx, c, res)
    for c, res in zip(dec_raw, r2["dec"]):
        nviol += judge_dec_raw(ctx, c, res)
    for c, res in zip(stack_cases, r1["stack"]):
        nviol += judge_stack(ctx, c, res)
    for c, res in zip(multicaps, r1["multicapture"]):
        nviol += judge_multicapture(ctx, c, res)
    rs = r1["stack"][n_plain_stack:]
    nviol += judge_roles(ctx, role_pairs, list(zip(rs[0::2], rs[1::2])))
    ctx.log("oracle: %d failing cases (%d replay files, %d more not written); %d single-bit corruptions swept on the implementation"
            % (nviol, len(ctx.violations), ctx.suppressed, nbits))

    # ---- correspondence inside Coq ---------------------------------------------
    pre = "From Whad Require Import Lib.Bytes C13.Model.\nOpen Scope N_scope."
    # order manager cases by cost so that shards are balanced
    order = sorted(range(len(mgr_cases)), key=lambda i: -blocks_of_case(mgr_cases[i]))
    shards = [[] for _ in range(max(1, min(48, len(order) // 4)))]
    for j, i in enumerate(order):
        shards[j % len(shards)].append(i)
    flat = [i for sh in shards for i in sh]
    mgr_terms = [mgr_term(mgr_cases[i], r1["mgr"][i]) for i in flat]
    per = max(1, (len(flat) + len(shards) - 1) // len(shards))
    from concurrent.futures import ThreadPoolExecutor
    pool = ThreadPoolExecutor(3)
    fut_m = pool.submit(C.run_cases, PID, "mgr", pre, "mgr_case", mgr_terms, "check_mgr", shard=per)
    dec_inputs = [(c["keys"], [c["mat"]], r["air"], r) for c, r in zip(captures, r1["capture"]) if "air" in r] + \
                 [(c["keys"], c["mats"], c["pdus"], r) for c, r in zip(dec_raw, r2["dec"]) if "obs" in r] + \
                 [(c["keys"], [x["mat"] for x in c["sessions"]], r["air"], r) for c, r in zip(multicaps, r1["multicapture"]) if "air" in r]
    # balance the decryptor shards by cost (bytes to decrypt), heaviest first, round robin over 16 shards
    dorder = sorted(range(len(dec_inputs)), key=lambda i: -sum(len(x) for x in dec_inputs[i][2]))
    nsh = max(1, min(16, len(dorder)))
    dsh = [[] for _ in range(nsh)]
    for j, i in enumerate(dorder):
        dsh[j % nsh if (j // nsh) % 2 == 0 else nsh - 1 - j % nsh].append(i)
    dflat = [i for sh in dsh for i in sh]
    dec_inputs = [dec_inputs[i] for i in dflat]
    dec_terms = [dec_term(k, m, p, r) for k, m, p, r in dec_inputs]
    fut_d = pool.submit(C.run_cases, PID, "dec", pre, "dec_case", dec_terms, "check_dec", shard=max(1, (len(dec_terms) + nsh - 1) // nsh))
    st_idx = [i for i, r in enumerate(r1["stack"]) if "out" in r]
    st_terms = [stack_term(stack_cases[i], r1["stack"][i]) for i in st_idx]
    fut_s = pool.submit(C.run_cases, PID, "stack", pre, "stack_case", st_terms, "check_stack", shard=max(1, len(st_terms) // 16 + 1))
    bad_m, logs_m = fut_m.result()
    bad_d, logs_d = fut_d.result()
    bad_st, logs_st = fut_s.result()
    pool.shutdown()
    bad_m = [flat[i] for i in bad_m]
    bad_st = [st_idx[i] for i in bad_st]
    ctx.notes += logs_m[:3] + logs_d[:3] + logs_st[:2]
    ctx.log("correspondence: manager %d cases %d bad; decryptor %d cases %d bad; stack %d cases %d bad"
            % (len(mgr_terms), len(bad_m), len(dec_terms), len(bad_d), len(st_terms), len(bad_st)))

    # ---- coverage ---------------------------------------------------------------
    nops = sum(len(c["ops"]) for c in mgr_cases)
    kinds = {}
    for c in mgr_cases:
        kinds[c["kind"]] = kinds.get(c["kind"], 0) + 1
    obs_kinds = {0: 0, 1: 0, 2: 0, 3: 0}
    retry_success = 0
    for c, res in zip(mgr_cases, r1["mgr"]):
        prev = None
        for o, r in zip(c["ops"], res["obs"]):
            obs_kinds[r["k"]] += 1
            if o[0] == "declast" and r["k"] == 1 and prev is not None and (r["mc"], r["sc"]) != prev:
                retry_success += 1
            prev = (r["mc"], r["sc"])
    lens = sorted({len(o[2]) // 2 - 2 for c in mgr_cases for o in c["ops"] if o[0] == "enc" and len(o[2]) >= 4})
    stack_kinds = {}
    for c in stack_cases:
        stack_kinds[c["kind"]] = stack_kinds.get(c["kind"], 0) + 1
    stack_outs = {}
    for r in r1["stack"]:
        for o in r.get("out", []):
            stack_outs[o["k"]] = stack_outs.get(o["k"], 0) + 1
    ctx.cov["evaluations"] = sum(len(c["events"]) for c in stack_cases) + nops + nbits + len(pairs) + sum(len(l["events"]) for l in links) + sum(len(p) for _k, _m, p, _r in dec_inputs)
    ctx.cov["traces_validated_against_impl"] = len(mgr_terms) + len(dec_terms) + len(st_terms)
    ctx.cov["distinct_nontrivial"] = C.distinct_count([[c["ltk"], c["mat"], c["ops"]] for c in mgr_cases if len(c["ops"]) >= 2]
                                                      + [[k, m, p] for k, m, p, _r in dec_inputs if p]
                                                      + [[c["handles"], c["events"]] for c in stack_cases if c["procs"]])
    ctx.cov["rule"] = ("manager cases = operation sequences (set counters / encrypt / decrypt the last output intact or with one bit flipped / garbage) "
                       "on the real LinkLayerCryptoManager, compared op by op with the model in Coq; decryptor cases = PDU streams from a reference "
                       "encryptor written from the specification, with sniffer losses, corrupted copies, wrong keys first. Non-trivial = at least one "
                       "encrypt+decrypt or one PDU; distinct by content hash")
    ctx.cov["distribution"] = {
        "manager_cases": len(mgr_cases), "manager_ops": nops, "case_kinds": kinds,
        "payload_lengths_covered": len(lens), "payload_length_max": max(lens) if lens else 0,
        "observations": {"encrypt_or_set": obs_kinds[0], "decrypt_success": obs_kinds[1], "decrypt_failure": obs_kinds[2], "exception": obs_kinds[3]},
        "decrypt_success_after_retry": retry_success,
        "single_bit_corruptions_on_impl": nbits, "sweep_pdus": len(sweeps), "pairs_one_thing_wrong": len(pairs),
        "links": len(links), "link_events": sum(len(l["events"]) for l in links),
        "captures": len(captures), "captured_pdus": sum(len(r.get("air", [])) for r in r1["capture"]),
        "decryptor_raw_streams": len(dec_raw),
        "multi_session_captures": len(multicaps), "multi_session_kinds": {k: sum(1 for c in multicaps if c["kind"] == k) for k in sorted({c["kind"] for c in multicaps})},
        "multi_session_pdus": sum(len(r.get("air", [])) for r in r1["multicapture"]),
        "captured_payload_lengths": sorted({len(e[1]) // 2 - 2 for c in captures for e in c["events"] if e[2]}),
        "captured_pdus_with_payload_ge_248": sum(1 for c in captures for e in c["events"] if e[2] and len(e[1]) // 2 - 2 >= 248),
        "stack_cases": len(stack_cases), "stack_case_kinds": stack_kinds, "stack_procedures": sum(len(c["procs"]) for c in stack_cases),
        "stack_same_handle_repeated": sum(1 for c in stack_cases if len(c["procs"]) > 1 and len({p["h"] for p in c["procs"]}) < len(c["procs"])),
        "stack_event_outcomes": stack_outs, "stack_role_pairs": len(role_pairs),
        "uncovered_branches": ["24/32-byte LTK (AES-192/256 through e()) is outside the model",
                               "decryptor: BTLE_DATA absent from the packet (input is always a data PDU)"],
    }
    ctx.cov["samples"] = [
        {"manager_case": {"ltk": mgr_cases[0]["ltk"], "mat": mgr_cases[0]["mat"], "ops": mgr_cases[0]["ops"][:4]}, "impl": r1["mgr"][0]["obs"][:4]},
        {"sweep": sweeps[0], "ct": r1["sweep"][0].get("ct"), "not_rejected_bits": r1["sweep"][0].get("not_rejected")},
        {"capture": captures[0].get("kind"), "air": r1["capture"][0].get("air", [])[:2], "decryptor": r1["capture"][0].get("obs", [])[:2]},
    ]
    ctx.cov["source_ties"] = ctx.cov.get("source_ties", []) + [C.source_tie("whad/ble/crypto.py", 198, 310), C.source_tie("whad/ble/crypto.py", 390, 480),
                              C.source_tie("whad/ble/crypto.py", 31, 38), C.source_tie("whad/ble/stack/llm/__init__.py", 656, 930),
                              C.source_tie("whad/ble/stack/llm/__init__.py", 231, 345), C.source_tie("whad/ble/stack/llm/__init__.py", 511, 526)]
    ctx.cov["correspondence"] = {"manager_cases": len(mgr_terms), "manager_bad": len(bad_m), "decryptor_cases": len(dec_terms), "decryptor_bad": len(bad_d),
                                 "stack_cases": len(st_terms), "stack_bad": len(bad_st)}

    # ---- verdict -------------------------------------------------------------------
    if bad_m or bad_d or bad_st or not proofs_ok:
        if not ctx.violations:
            first = None
            if bad_st:
                i = bad_st[0]
                first = {"op": "stack", "handles": stack_cases[i]["handles"], "events": stack_cases[i]["events"], "procs": stack_cases[i]["procs"], "impl": r1["stack"][i]}
            elif bad_m:
                i = bad_m[0]
                first = {"op": "mgr", "ltk": mgr_cases[i]["ltk"], "mat": mgr_cases[i]["mat"], "ops": mgr_cases[i]["ops"], "impl": r1["mgr"][i]}
            elif bad_d:
                k, m, p, r = dec_inputs[bad_d[0]]
                first = {"op": "dec", "keys": k, "mats": m, "pdus": p, "impl": r}
            what = ("correspondence C13.Model vs LinkLayerCryptoManager/LinkLayerDecryptor/LinkLayer (%d manager, %d decryptor, %d stack disagreements)" % (len(bad_m), len(bad_d), len(bad_st))
                    if (bad_m or bad_d or bad_st) else "proof obligations of theories/C13: " + detail.splitlines()[0][:200])
            ctx.broken_obligation(what, detail if not proofs_ok else "\n".join(logs_m + logs_d + logs_st), first)


def replay(payload):
    case = payload.get("case") or payload.get("first_disagreeing_case")
    print(json.dumps(case)[:3000])
    if not case:
        return 0
    op = case.get("op")
    if op == "mgr":
        r = C.run_impl("C13.py", {"mgr": [{"ltk": case["ltk"], "mat": case["mat"], "ops": case["ops"]}]})
        print("implementation now returns:", json.dumps(r["mgr"][0]))
    elif op == "sweep":
        r = C.run_impl("C13.py", {"sweep": [{k: case[k] for k in ("ltk", "mat", "mc", "sc", "d", "tol", "pdu")}]})
        print("implementation now: base", r["sweep"][0]["base"], "bits not rejected", r["sweep"][0]["not_rejected"], "counters changed at", r["sweep"][0]["cnt_changed"][:20])
    elif op == "pair":
        r = C.run_impl("C13.py", {"pair": [{k: case[k] for k in ("tx", "rx", "d_tx", "d_rx", "tol", "pdu")}]})
        print("implementation now returns:", json.dumps(r["pair"][0]))
    elif op == "link":
        r = C.run_impl("C13.py", {"link": [{k: case[k] for k in ("ltk", "mat", "tol", "events")}]})
        print("implementation now returns:", json.dumps(r["link"][0])[:3000])
    elif op == "capture":
        r = C.run_impl("C13.py", {"capture": [{k: case[k] for k in ("ltk", "mat", "keys", "events", "esi") if k in case}]})
        print("implementation now returns:", json.dumps(r["capture"][0])[:3000])
    elif op == "multicapture":
        r = C.run_impl("C13.py", {"multicapture": [{k: case[k] for k in ("keys", "way", "sessions", "events")}]})
        print("implementation now returns:", json.dumps(r["multicapture"][0])[:3000])
    elif op == "stack":
        r = C.run_impl("C13.py", {"stack": [{"handles": case["handles"], "events": case["events"],
                                             "procs": [{k: p[k] for k in ("key", "skdm", "ivm", "skds", "ivs")} for p in case.get("procs", [])]}]})
        print("implementation now hands to the PHY:", json.dumps(r["stack"][0])[:3000])
    elif op == "dec":
        r = C.run_impl("C13.py", {"dec": [{k: case[k] for k in ("keys", "mats", "pdus")}]})
        print("implementation now returns:", json.dumps(r["dec"][0])[:3000])
    return 0
