"""C04 — commands get their own answer; notifications exactly once, in order; timeout bound.
See DESIGN.md §2 C04 + Appendix A, design/C04.md.

Pipeline: (1) proofs of theories/C04 (invariants over every schedule of the interleaving
model); (2) cases = device history x script x forced schedule (corpus first, random
schedules, systematic <= 2 pre-emptions); (3) the REAL Device / VirtualDevice / Connector
code and thread loops under those schedules (harness/impl/C04.py + C04_sched.py, no source
hook); (4) oracle = the property on what the real code did; (5) the same schedule + history
evaluated in the Coq model, observables compared inside Coq; (6) verdict.
"""
import json, os, itertools
from harness import common as C
from harness.props import C04_util as U
from harness.props.C04_util import A, W, R, CIO, TICK, EMIT

PID = "C04"

ALL_LABELS = None


# ---------------------------------------------------------------------------------------
# case generation
# ---------------------------------------------------------------------------------------

def mk_case(cfg, script, spont, prefix=None, policy=None, preempt=None, cap=3000, kind="", meta=None):
    c = {"cfg": cfg, "script": script, "spont": spont, "locked0": False, "cap": cap, "kind": kind,
         "meta": meta or []}
    if policy:
        c["policy"] = policy
        c["preempt"] = preempt or []
    else:
        c["prefix"] = prefix or []
        c["tail"] = True
    return c


def gen_history(rng, cfg, flavour):
    uid = U.Uid()
    if flavour == "clean":
        ncmd = rng.choice([1, 1, 2, 2, 3])
        script, meta = U.gen_cmd_script(rng, uid, ncmd, kinds=["ok"] * ncmd)
    elif flavour == "silent":
        ncmd = rng.choice([1, 2, 2, 3])
        kinds = [rng.choice(["ok", "silent", "undec"]) for _ in range(ncmd)]
        if all(k == "ok" for k in kinds):
            kinds[rng.randrange(ncmd)] = "silent"
        fcs = rng.sample(U.FILTER_CLASSES, k=ncmd)          # distinct filters: a late answer cannot be mistaken
        script, meta = [], kinds
        for i in range(ncmd):
            script.append(["cmd", fcs[i], U.gen_reaction(rng, uid, fcs[i], kinds[i])])
    else:                                                    # "dirty": H2 violated on purpose (correspondence only)
        ncmd = rng.choice([1, 2])
        script, meta = U.gen_cmd_script(rng, uid, ncmd)
        fc = script[0][1]
        script[rng.randrange(ncmd)][2].append([[fc, uid.next(), False]])
    nsp = rng.choice([0, 0, 1, 2, 3])
    spont = [] if (cfg["virt"] and rng.random() < 0.5) else [U.gen_chunk(rng, uid, rng.choice([1, 1, 2])) for _ in range(nsp)]
    if flavour == "dirty" and spont and rng.random() < 0.5:
        spont[0].append([script[0][1], uid.next(), False])
    return script, spont, meta


def gen_cases(ctx):
    rng = ctx.rng
    cases = []
    n_random = 2500 if ctx.thorough else 420
    cfgs = [{"conn": c, "virt": v, "tmo": t} for c in (True, False) for v in (False, True) for t in (1, 2, 3)]
    for i in range(n_random):
        cfg = dict(rng.choice(cfgs))
        flavour = rng.choice(["clean"] * 5 + ["silent"] * 3 + ["dirty"])
        script, spont, meta = gen_history(rng, cfg, flavour)
        n = rng.choice([0, 5, 10, 20, 40, 80, 120])
        prefix = U.gen_prefix(rng, n, virt=cfg["virt"], conn=cfg["conn"])
        if flavour != "clean" or rng.random() < 0.6:
            prefix = [a for a in prefix if a != TICK or rng.random() < 0.3]
        cases.append(mk_case(cfg, script, spont, prefix=prefix, kind="random-" + flavour, meta=meta))
    # virtual devices: interleaved send_command / send_message(no filter) / send_message(filter) with
    # handler answers of matching and non matching kinds
    for i in range(400 if ctx.thorough else 70):
        uid = U.Uid()
        cfg = {"conn": rng.random() < 0.85, "virt": True, "tmo": rng.choice([1, 2, 3])}
        script = []
        for _ in range(rng.choice([2, 3, 3, 4, 5])):
            k = rng.choice(["cmd", "cmd", "send-none", "send-none", "send-filter"])
            fc = rng.choice(U.FILTER_CLASSES[:3])
            other = lambda: [rng.choice([c for c in U.FILTER_CLASSES[:3] + [0, 7, 12] if c != fc]), uid.next(), False]
            def fix(f):
                return [f[0], f[1], f[0] == 0]
            if k == "cmd":
                ms = [fix(other()) for _ in range(rng.choice([0, 1, 2]))] + [[fc, uid.next(), False]] + [fix(other()) for _ in range(rng.choice([0, 1]))]
                script.append(["cmd", fc, [ms]])
            elif k == "send-none":
                ms = [fix([rng.choice(U.FILTER_CLASSES[:3] + [0, 7]), uid.next(), False]) for _ in range(rng.choice([1, 1, 2]))]
                script.append(["send", None, [ms]])
            else:
                ms = [fix(other()) for _ in range(rng.choice([0, 1, 2]))]
                script.append(["send", fc, [ms] if ms else []])
        prefix = U.gen_prefix(rng, rng.choice([0, 10, 30, 60]), virt=True, conn=cfg["conn"])
        cases.append(mk_case(cfg, script, [], prefix=prefix, kind="virtual-sequence", meta=[]))
    # native devices: the same operations (correspondence; the answers arrive asynchronously)
    for i in range(200 if ctx.thorough else 30):
        uid = U.Uid()
        cfg = {"conn": rng.random() < 0.7, "virt": False, "tmo": rng.choice([1, 2, 3])}
        script = []
        for _ in range(rng.choice([2, 3, 4])):
            fc = rng.choice(U.FILTER_CLASSES[:3])
            if rng.random() < 0.5:
                script.append(["cmd", fc, U.gen_reaction(rng, uid, fc, rng.choice(["ok", "ok", "silent"]))])
            else:
                script.append(["send", rng.choice([None, None, fc]), [U.gen_chunk(rng, uid, rng.choice([1, 2]))]])
        prefix = U.gen_prefix(rng, rng.choice([0, 20, 60]), virt=False, conn=cfg["conn"])
        cases.append(mk_case(cfg, script, [], prefix=prefix, kind="native-send", meta=[]))
    # an unrelated message arrives while the command waits, the clock moves, the answer comes later but
    # well inside the timeout: the command must return it (and must not time out early)
    for tmo in (2, 3):
        for nt in range(1, tmo):
            for spin in (30, 60):
                cfg = {"conn": False, "virt": False, "tmo": tmo}
                script = [["cmd", 3, [[[3, 2, False]]]]]
                prefix = [A] * 5 + [EMIT] + [R] * 3 + [TICK] * nt + [A] * spin + [W] * 4 + [R] * 4
                cases.append(mk_case(cfg, script, [[[0, 1, True]]], prefix=prefix, kind="late-answer", meta=["ok"]))
    # a chatty interface and no connector: the reader runs far ahead of the caller (the response is queued,
    # then hundreds of notifications, before the caller dequeues anything)
    for nn in ((260, 600) if ctx.thorough else (260,)):
        cfg = {"conn": False, "virt": False, "tmo": 3}
        script = [["cmd", 3, [[[3, 1, False]]]]]
        spont = [[[0, i + 2, True]] for i in range(nn)]
        prefix = [A] * 3 + [W] * 4 + [R] * 3 + ([EMIT] + [R] * 3) * nn
        cases.append(mk_case(cfg, script, spont, prefix=prefix, kind="chatty-no-connector", meta=["ok"], cap=40 * nn + 3000))
    # the queue-not-empty timeout scenario in every configuration (the defect repaired by `fix:`)
    for conn in (True, False):
        for virt in (False, True):
            for tmo in (1, 3):
                cfg = {"conn": conn, "virt": virt, "tmo": tmo}
                script = [["cmd", 3, [[[0, 1, True], [7, 2, False]]]]]
                cases.append(mk_case(cfg, script, [], prefix=[], kind="unrelated-queued", meta=["silent"]))
                script = [["cmd", 3, [[[0, 1, True]], [[7, 2, False]]]], ["cmd", 4, [[[0, 3, True], [4, 4, False]]]]]
                cases.append(mk_case(cfg, script, [[[0, 9, True]]], prefix=[EMIT], kind="unrelated-queued", meta=["silent", "ok"]))
    # systematic: non pre-emptive base schedule + every single pre-emption (+ sampled pairs)
    sys_hist = []
    for conn, virt in ((True, False), (False, False), (True, True)):
        cfg = {"conn": conn, "virt": virt, "tmo": 2}
        sys_hist.append((cfg, [["cmd", 3, [[[0, 1, True], [3, 2, False]]]]], [[[0, 3, True]]], ["ok"]))
        if ctx.thorough:
            sys_hist.append((cfg, [["cmd", 3, [[[0, 1, True]]]], ["cmd", 4, [[[4, 2, False], [0, 3, True]]]]], [], ["silent", "ok"]))
            sys_hist.append((cfg, [["cmd", 3, [[[3, 1, False]], [[0, 2, True]]]], ["cmd", 3, [[None, [3, 3, False]]]]], [[[0, 4, True]]], ["ok", "ok"]))
    targets = [A, W, R, CIO, EMIT]
    for cfg, script, spont, meta in sys_hist:
        base = mk_case(cfg, script, spont, policy="np", preempt=[], kind="systematic", meta=meta)
        cases.append(base)
        L = 60 if not ctx.thorough else 110
        step = 3 if not ctx.thorough else 1
        singles = [(k, t) for k in range(0, L, step) for t in targets]
        if not ctx.thorough:
            early = [(k, t) for k in range(0, 14) for t in (W, R, CIO)]     # every pre-emption of the send phase
            singles = early + rng.sample(singles, 30)
        for k, t in singles:
            cases.append(mk_case(cfg, script, spont, policy="np", preempt=[[k, t]], kind="systematic", meta=meta))
        npairs = 400 if ctx.thorough else 25
        for _ in range(npairs):
            k1, k2 = sorted(rng.sample(range(L), 2))
            cases.append(mk_case(cfg, script, spont, policy="np",
                                 preempt=[[k1, rng.choice(targets)], [k2, rng.choice(targets)]], kind="systematic", meta=meta))
    return cases


def corpus_cases():
    out = []
    d = os.path.join(C.VERIF, "corpus", PID)
    for fn in sorted(os.listdir(d)) if os.path.isdir(d) else []:
        if fn.endswith(".json"):
            w = json.load(open(os.path.join(d, fn)))
            c = w["case"]
            c["kind"] = "corpus:" + fn
            c.setdefault("meta", [])
            out.append(c)
    return out


# ---------------------------------------------------------------------------------------
# oracle: the property evaluated on what the real code did
# ---------------------------------------------------------------------------------------

def virt_sequential(script):
    """Only send_command / send_message; each command's reaction holds exactly one message of its
    filter class; a message sent WITH a filter is not answered by a message of that class (it would
    legitimately stay queued for a later wait)."""
    for op in script:
        if op[0] == "cmd":
            if len([f for f in U.msgs_of(op[2]) if f[0] == op[1]]) != 1:
                return False
        elif op[0] == "send":
            if op[1] is not None and [f for f in U.msgs_of(op[2]) if f[0] == op[1]]:
                return False
        else:
            return False
    return True


def timed_before(returned, i):
    return any(r[0] != "ok" for r in returned[:i])


def oracle(case, res):
    """Returns a list of (what, expected, observed)."""
    out = []
    if "error" in res:
        return [("driver error: " + res["error"], None, res.get("tb"))]
    obs, info, cfg = res["obs"], res["info"], case["cfg"]
    script = case["script"]
    fcs = U.filter_classes(script)
    cmds = [op for op in script if op[0] == "cmd"]
    tmo = cfg["tmo"]
    nticks_prefix = sum(1 for a in case.get("prefix", []) if a == TICK)
    if info["crashed"]:
        out.append(("a thread died with an exception", {}, info["crashed"]))
    clean = U.h1h2(case)
    # filters pairwise distinct, at most one message per filter class in the whole history, and it
    # sits in the reaction of the command that waits for it: an answer cannot be mistaken even
    # after a timeout
    allm = [f for op in script if op[0] in ("cmd", "send") for f in U.msgs_of(op[2])] + U.msgs_of(case.get("spont", []))
    distinct = (len({op[1] for op in cmds}) == len(cmds)
                and all(sum(1 for f in allm if f[0] == op[1]) == sum(1 for f in U.msgs_of(op[2]) if f[0] == op[1]) <= 1 for op in cmds))
    timed_out = False
    for i, r in enumerate(obs["returned"]):
        op = cmds[i]
        exp = U.expected_response(op, fcs)
        if r[0] == "ok":
            # H1/H2 hold (or the filters are pairwise distinct): the answer must be the command's own
            if (clean and not timed_out) or distinct:
                if exp is None or list(r[1:4]) != list(exp):
                    out.append(("command %d returned a message that is not its own response" % i, exp, r))
        elif r[0] == "timeout":
            timed_out = True
        else:
            out.append(("command %d ended with %r instead of its response or the timeout error" % (i, r), "ok|timeout", r))
    # a response must not be handed to the connector while its command is still waiting for it
    if clean and cfg["conn"]:
        for i, op in enumerate(cmds[:len(obs["returned"])]):
            exp = U.expected_response(op, fcs)
            for p_, m in enumerate(obs["delivered"]):
                if exp is not None and list(m) == list(exp) and not timed_before(obs["returned"], i) \
                        and info["delivered_at"][p_] < info["returned_at"][i]:
                    out.append(("the response to command %d was forwarded to the connector while the command was waiting for it" % i,
                                "returned by send_command", {"delivered": m, "result": obs["returned"][i]}))
    # timeouts: bounded virtual duration, at most one wait started after the deadline
    k = 0
    for j, op in enumerate(script):
        if op[0] != "cmd":
            continue
        if k < len(obs["returned"]) and j < len(info["spans"]) and info["spans"][j][1] is not None:
            dur = info["spans"][j][1] - info["spans"][j][0]
            if obs["returned"][k][0] == "timeout" and dur <= tmo:
                out.append(("command %d raised the timeout error after only %d ticks, before its timeout (%d) had elapsed" % (k, dur, tmo),
                            "> %d ticks, or its response" % tmo, dur))
            if obs["returned"][k][0] == "timeout" and dur > 2 * tmo + 2 + nticks_prefix:
                out.append(("command %d timed out after %d ticks (timeout %d)" % (k, dur, tmo), "<= %d" % (2 * tmo + 2 + nticks_prefix), dur))
            if obs["returned"][k][0] == "ok" and dur > 2 * tmo + 2 + nticks_prefix:
                out.append(("command %d returned after %d ticks (timeout %d)" % (k, dur, tmo), "<= %d" % (2 * tmo + 2 + nticks_prefix), dur))
        k += 1
    if obs["late"] > 1:
        out.append(("the caller started %d waits after the deadline of a command" % obs["late"], "<= 1", obs["late"]))
    if res["capped"] and not obs["adone"]:
        pend = info["pending"].get("A", "")
        out.append(("a command call did not end (schedule cut after %d actions, caller at %s, clock %d)"
                    % (len(res["sched"]), pend, obs["clock"]), "timeout error within a small multiple of %d" % tmo, "still waiting"))
    # notifications: exactly once, in order
    if cfg["conn"]:
        emitted_n = U.notifs(info["emitted"], fcs)
        delivered_n = U.notifs(obs["delivered"], fcs)
        quiet = (not res["capped"]) and obs["adone"] and not obs["events"] and info["wire_left"] == 0 \
            and info["spont_left"] == 0 and info["pending"].get("R", "dev.read") == "dev.read" \
            and info["pending"].get("C", "").endswith(".get")
        if clean or distinct:
            if cfg["virt"] and case.get("spont"):
                # two producers (the handler in the caller's thread, the device's own thread): the
                # emission order is defined per producer; exactly-once is global
                sp = [list(f) for f in U.msgs_of(case["spont"])]
                for name, sel in (("handler", lambda f: list(f) not in sp), ("device thread", lambda f: list(f) in sp)):
                    d = [f for f in delivered_n if sel(f)]
                    e = [f for f in emitted_n if sel(f)]
                    if d != e[:len(d)] or (quiet and clean and d != e):
                        out.append(("notifications of the %s reached process_message duplicated / lost / out of order" % name, e, d))
            else:
                if delivered_n != emitted_n[:len(delivered_n)]:
                    out.append(("notifications reached process_message duplicated / lost / out of order", emitted_n, delivered_n))
                if quiet and clean and delivered_n != emitted_n:
                    out.append(("at quiescence some notification never reached process_message", emitted_n, delivered_n))
    # virtual device, connector attached, no concurrent producer: the handler answers synchronously,
    # so whatever the schedule: every command returns its own response, and everything else the
    # handlers emitted (incl. the answers to messages sent WITHOUT a filter, whatever they look like)
    # reaches the connector, in order
    if cfg["virt"] and cfg["conn"] and not case.get("spont") and virt_sequential(script) and obs["adone"] and not res["capped"]:
        exp_ret, exp_deliv = [], []
        for op in script:
            ms = [list(f) for f in U.msgs_of(op[2])]
            if op[0] == "cmd":
                own = [f for f in ms if f[0] == op[1]][0]
                exp_ret.append(["ok"] + own)
                exp_deliv += [f for f in ms if f is not own]
            else:
                exp_deliv += ms
        if obs["returned"] != exp_ret:
            out.append(("virtual device: a command did not return its own response", exp_ret, obs["returned"]))
        quiet_v = not obs["events"] and info["pending"].get("C", "").endswith(".get")
        if obs["delivered"] != exp_deliv[:len(obs["delivered"])] or (quiet_v and obs["delivered"] != exp_deliv):
            out.append(("virtual device: what the handlers emitted (other than the commands' own responses) did not reach the connector exactly once in order",
                        exp_deliv, obs["delivered"]))
    # nothing is ever discarded: at quiescence every message the interface emitted has been returned by a
    # command, handed to the connector, or is still pending in the device's queue
    settled = (not res["capped"]) and obs["adone"] and not obs["events"] and info["wire_left"] == 0 \
        and info["spont_left"] == 0 and info["pending"].get("R", "dev.read") == "dev.read" and info["in_q"] == 0 \
        and (not cfg["conn"] or info["pending"].get("C", "").endswith(".get"))
    if settled:
        acc = [list(r[1:4]) for r in obs["returned"] if r[0] == "ok"] + obs["delivered"] + obs["out_q"]
        em = [list(f) for f in info["emitted"]]
        if sorted(map(tuple, acc)) != sorted(map(tuple, em)):
            lost = [m for m in em if m not in acc]
            out.append(("a message the interface emitted was discarded: neither returned by a command, nor handed to the connector, nor pending in the device queue",
                        "every emitted message accounted for", {"missing": lost[:10], "extra": [m for m in acc if m not in em][:10]}))
    # a silent command must end with the timeout error
    if distinct:
        for i, r in enumerate(obs["returned"]):
            if U.expected_response(cmds[i], fcs) is None and r[0] != "timeout":
                out.append(("command %d has no response in the history but did not time out" % i, ["timeout"], r))
    return out


# ---------------------------------------------------------------------------------------
# run
# ---------------------------------------------------------------------------------------

def strip(case):
    return {k: v for k, v in case.items() if k not in ("kind", "meta")}


def shrink(case, res, fails):
    """Schedule shrinking: drop halves / single actions of the prefix while the oracle still fails."""
    if "prefix" not in case or not case["prefix"]:
        return case, res
    best, best_res = case, res
    pre = list(case["prefix"])
    chunk = max(1, len(pre) // 2)
    budget = 24
    while chunk >= 1 and budget > 0:
        i = 0
        while i < len(pre) and budget > 0:
            cand = pre[:i] + pre[i + chunk:]
            c2 = dict(best, prefix=cand)
            r2 = C.run_impl("C04.py", {"cases": [strip(c2)]})["results"][0]
            budget -= 1
            if "error" not in r2 and fails(c2, r2):
                pre, best, best_res = cand, c2, r2
            else:
                i += chunk
        chunk //= 2
    return best, best_res


def run(ctx):
    C.build_dir(PID, clean=True)
    ctx.cov["trusted_base"] = [
        "Coq 8.16.1 kernel + vm_compute; every theorem of C04/Property.v closed under the global context (Print Assumptions checked each run)",
        "hand-written interleaving model coq/theories/C04/Model.v (one atomic step per shared access, DESIGN Appendix A), tied to whad/device/device.py and connector.py by forced-schedule correspondence of this run (sampled schedules; not a proof about the Python)",
        "CPython facts: one attribute load/store is atomic under the GIL; queue.Queue put/get/empty are linearizable; threading.Lock is a mutex; pre-emption inside C code and between bytecodes of thread-local code is not modelled",
        "the harness replaces Queue/Lock/time in the namespaces of whad.device.device and whad.device.connector by cooperative look-alikes with a virtual clock (harness/impl/C04_sched.py); sys.monitoring INSTRUCTION events (the 3.12 mechanism under sys.settrace) make LOAD_ATTR/STORE_ATTR of __connector/__msg_filter/__opened/__locked/__sync_mode yield points; Connector.__callbacks_lock is not a yield point",
        "real time is not modelled: the timeout bound is stated on the virtual clock (Tick is a scheduler action)",
        "protobuf / hub.parse only through the messages used by the harness (DomainInfoQueryResp, BlePduReceived, ble Disconnected; undecodable payloads b'', 08 01, ff ff ff, 0a 00, 12 00)",
    ]
    ctx.assumptions = [
        "H1: the device's reaction to each command holds exactly one message kept by a command filter; H2: notifications match no command filter (response_routing, notifications)",
        "one caller thread issues the commands sequentially; the device stays open; the connector is attached before the run and not replaced (Bridge: see C05)",
        "routing is claimed for the commands completed before the first timeout (a late answer to a timed-out command is indistinguishable from the next answer when filters coincide)",
        "virtual devices: exactly-once-in-order is claimed for the synchronous handler path (no concurrent asynchronous producer)",
    ]
    proofs_ok, detail = ctx.check_proofs()
    ctx.log("proofs:", proofs_ok, detail.splitlines()[0][:200])

    cases = corpus_cases() + gen_cases(ctx)
    ctx.log("cases:", len(cases))
    results = U.run_driver([strip(c) for c in cases], batch=30 if ctx.thorough else 14)
    ctx.log("implementation ran %d schedules" % len(results))

    # ---- oracle ------------------------------------------------------------------------------
    nviol = 0
    for case, res in zip(cases, results):
        fails = oracle(case, res)
        if fails:
            c2, r2 = shrink(case, res, lambda c, r: bool(oracle(c, r)))
            f2 = oracle(c2, r2) or fails
            what, exp, obsd = f2[0]
            payload = dict(strip(c2), kind=case["kind"], schedule=r2.get("sched"))
            nviol += bool(ctx.violation(what, payload, expected=exp, observed={"observed": obsd, "obs": r2.get("obs")}))
            if nviol >= 5:
                break

    # ---- correspondence inside Coq ---------------------------------------------------------------
    terms, idx, skipped = [], [], 0
    for i, (case, res) in enumerate(zip(cases, results)):
        if "error" in res:
            continue
        t = U.c_case(case, res)
        if t is None or len(t) > 200000:
            skipped += 1
            continue
        terms.append(t)
        idx.append(i)
    bad, logs = C.run_cases(PID, "sched", U.PRE, U.CASE_TYPE, terms, "check_case", shard=60)
    ctx.notes += logs[:4]
    ctx.log("correspondence: %d cases, %d bad, %d skipped" % (len(terms), len(bad), skipped))

    # ---- evidence --------------------------------------------------------------------------------
    ok_res = [r for r in results if "error" not in r]
    ctx.cov["evaluations"] = len(cases)
    ctx.cov["traces_validated_against_impl"] = len(terms) - len(bad)
    nontrivial = [[c["cfg"], c["script"], c.get("spont"), r["sched"]] for c, r in zip(cases, results)
                  if "error" not in r and len(set(r["sched"])) >= 3 and len(r["sched"]) >= 20]
    ctx.cov["distinct_nontrivial"] = C.distinct_count(nontrivial)
    ctx.cov["rule"] = ("case = (connector?, virtual?, timeout) x script of 1-3 send_command with device reactions (notifications, "
                       "undecodable frames, response / silence) x spontaneous chunks x forced schedule (random prefix + fair tail; "
                       "non pre-emptive base + every single pre-emption + sampled pairs). Non-trivial = >= 20 actions over >= 3 "
                       "distinct actors; distinct by hash of (config, history, executed schedule)")
    labels = sorted({l for r in ok_res for l in r["info"]["labelset"]})
    kinds = {}
    for c in cases:
        kinds[c["kind"].split(":")[0]] = kinds.get(c["kind"].split(":")[0], 0) + 1
    outcomes = {"ok": 0, "timeout": 0, "other": 0}
    for r in ok_res:
        for x in r["obs"]["returned"]:
            outcomes[x[0] if x[0] in outcomes else "other"] += 1
    expected_labels = EXPECTED_LABELS
    ctx.cov["distribution"] = {
        "cases_by_kind": kinds,
        "configs": {"%s/%s" % ("conn" if c else "noconn", "virt" if v else "native"):
                    sum(1 for x in cases if x["cfg"]["conn"] == c and x["cfg"]["virt"] == v) for c in (True, False) for v in (True, False)},
        "command_outcomes": outcomes,
        "schedule_len": {"min": min(len(r["sched"]) for r in ok_res), "max": max(len(r["sched"]) for r in ok_res),
                         "mean": round(sum(len(r["sched"]) for r in ok_res) / max(1, len(ok_res)), 1)},
        "histories_with_undecodable": sum(1 for c in cases if any(f is None for op in c["script"] if op[0] == "cmd" for ch in op[2] for f in ch)
                                          or any(f is None for ch in c.get("spont", []) for f in ch)),
        "capped": sum(1 for r in ok_res if r["capped"]),
        "yield_points_seen": len(labels),
        "uncovered_branches": sorted(set(expected_labels) - set(labels)),
    }
    ctx.cov["samples"] = [{"cfg": c["cfg"], "script": c["script"], "spont": c.get("spont"), "schedule": r["sched"][:60],
                           "returned": r["obs"]["returned"], "delivered": r["obs"]["delivered"]}
                          for c, r in list(zip(cases, results))[:200:70] if "error" not in r]
    ctx.cov["source_ties"] = [C.source_tie("whad/device/device.py", 124, 270), C.source_tie("whad/device/device.py", 748, 930),
                              C.source_tie("whad/device/device.py", 1104, 1125), C.source_tie("whad/device/connector.py", 94, 127),
                              C.source_tie("whad/device/connector.py", 396, 520), C.source_tie("whad/device/connector.py", 736, 775),
                              C.source_tie("whad/device/connector.py", 843, 910), C.source_tie("whad/helpers.py", 9, 16)]
    ctx.cov["correspondence"] = {"cases": len(terms), "bad": len(bad), "skipped": skipped}

    # ---- verdict -----------------------------------------------------------------------------------
    errs = [r for r in results if "error" in r]
    if (bad or not proofs_ok or errs) and not ctx.violations:
        first = None
        if bad:
            i = idx[bad[0]]
            first = dict(strip(cases[i]), schedule=results[i]["sched"], impl=results[i]["obs"])
            try:
                first["model"] = C.coq_eval(PID, "first_bad", U.PRE, ["run_case %s" % terms[bad[0]]])[0][:1500]
            except Exception as e:      # noqa
                first["model"] = "n/a: %s" % e
        what = ("correspondence C04.Model vs Device/Connector under forced schedules (%d of %d disagree)" % (len(bad), len(terms))
                if bad else ("driver errors: " + errs[0]["error"] if errs else "proof obligations of theories/C04: " + detail.splitlines()[0][:200]))
        ctx.broken_obligation(what, detail if not proofs_ok else "\n".join(logs), first)


EXPECTED_LABELS = [
    "A load opened @Device.is_open", "A store msg_filter @Device.set_queue_filter", "A time",
    "A load msg_filter @Device.wait_for_message", "A load connector @Device.put_message",
    "A load msg_filter @Device.put_message", "A load connector @Device.connector",
    "R dev.read", "R load connector @Device.put_message", "R load msg_filter @Device.put_message",
    "R load connector @Device.connector", "W dev.write",
    "C load sync_mode @Connector.on_device_event", "C load locked @Connector.is_locked",
]


def replay(payload):
    case = payload.get("case") or payload.get("first_disagreeing_case")
    if not case:
        print("nothing to replay:", payload.get("what"))
        return 0
    c = {k: case[k] for k in ("cfg", "script", "spont", "locked0", "cap") if k in case}
    c["prefix"] = case.get("schedule") or case.get("prefix", [])
    c["tail"] = False
    r = C.run_impl("C04.py", {"cases": [c]})["results"][0]
    print("case:", json.dumps(c)[:3000])
    print("implementation now:", json.dumps(r.get("obs", r))[:3000])
    print("oracle:", oracle(dict(c, kind="replay", meta=[]), r) if "obs" in r else r)
    return 0
