"""C05 — connector lock/unlock, synchronous mode, bridge: exactly-once, in-order relay.
See DESIGN.md §2 C05 + Appendix A, design/C05.md.

Same machinery as C04 (harness/impl/C04_sched.py): the real Connector / Bridge code under
forced schedules, the same schedules evaluated in the Coq model (C04/Model.v for lock,
unlock, synchronous mode; C05/Model.v for Bridge.__init__), invariants proved over every
schedule in theories/C05.
"""
import json, os
from harness import common as C
from harness.props import C04_util as U
from harness.props.C04_util import A, W, R, CIO, TICK, EMIT

PID = "C05"
XIO = 6
KEY_BRIDGE = "bridge-created-under-traffic"
PRE = "From Whad Require Import C04.Model C05.Model.\nOpen Scope N_scope."


# ---------------------------------------------------------------------------------------
# generation
# ---------------------------------------------------------------------------------------

def pkt_chunks(rng, uid, n, nonpkt_p=0.0):
    out = []
    for _ in range(n):
        ch = []
        for _ in range(rng.choice([1, 1, 2])):
            if rng.random() < nonpkt_p:
                ch.append([rng.choice([7, 8, 12]), uid.next(), False])
            else:
                ch.append([0, uid.next(), True])
        out.append(ch)
    return out


def conn_case(cfg, script, spont, locked0, prefix=None, policy=None, preempt=None, kind="", cap=2500, order=None):
    c = {"cfg": cfg, "script": script, "spont": spont, "locked0": locked0, "cap": cap, "kind": kind}
    if policy:
        c["policy"], c["preempt"] = policy, preempt or []
        if order:
            c["order"] = order
    else:
        c["prefix"], c["tail"] = prefix or [], True
    return c


def gen_lock_script(rng):
    """lock()/unlock() sequences in which lock() is never called on a locked connector."""
    locked0 = rng.random() < 0.5
    script, b = [], locked0
    for _ in range(rng.choice([1, 2, 2, 3, 4])):
        if b:
            script.append(["unlock"]); b = False
        else:
            if rng.random() < 0.75:
                script.append(["lock"]); b = True
            else:
                script.append(["unlock"])
    if b and rng.random() < 0.8:
        script.append(["unlock"])
    return script, locked0


def gen_conn_cases(ctx):
    rng, cases = ctx.rng, []
    n_lock = 1200 if ctx.thorough else 220
    n_sync = 900 if ctx.thorough else 140
    n_mixed = 500 if ctx.thorough else 60
    for _ in range(n_lock):
        uid = U.Uid()
        cfg = {"conn": True, "virt": rng.random() < 0.3, "tmo": 3}
        script, locked0 = gen_lock_script(rng)
        spont = pkt_chunks(rng, uid, rng.choice([1, 2, 3, 4]), nonpkt_p=0.15)
        prefix = [a for a in U.gen_prefix(rng, rng.choice([0, 10, 20, 40, 80]), virt=cfg["virt"]) if a != W]
        cases.append(conn_case(cfg, script, spont, locked0, prefix=prefix, kind="lock"))
    for _ in range(n_sync):
        uid = U.Uid()
        cfg = {"conn": True, "virt": rng.random() < 0.3, "tmo": 3}
        nw = rng.choice([1, 2, 3, 4])
        script = [["sync", 1]] + [["wait", rng.choice([1, 2, None])] for _ in range(nw)]
        spont = pkt_chunks(rng, uid, rng.choice([1, 2, 3, 4]))
        prefix = [a for a in U.gen_prefix(rng, rng.choice([0, 10, 20, 40, 80]), virt=cfg["virt"]) if a != W]
        cases.append(conn_case(cfg, script, spont, False, prefix=prefix, kind="sync"))
    for _ in range(n_mixed):                # anything goes (correspondence + conservation only)
        uid = U.Uid()
        cfg = {"conn": True, "virt": rng.random() < 0.3, "tmo": 2}
        script = []
        for _ in range(rng.choice([2, 3, 4, 5])):
            k = rng.choice(["lock", "unlock", "sync", "wait", "cmd"])
            if k == "sync":
                script.append(["sync", rng.choice([0, 1, 1, 2])])
            elif k == "wait":
                script.append(["wait", rng.choice([1, 2])])
            elif k == "cmd":
                fc = rng.choice(U.FILTER_CLASSES)
                script.append(["cmd", fc, U.gen_reaction(rng, uid, fc, rng.choice(["ok", "ok", "silent"]))])
            else:
                script.append([k])
        spont = pkt_chunks(rng, uid, rng.choice([1, 2, 3]), nonpkt_p=0.2)
        prefix = U.gen_prefix(rng, rng.choice([0, 10, 30, 60]), virt=cfg["virt"])
        cases.append(conn_case(cfg, script, spont, rng.random() < 0.3, prefix=prefix, kind="mixed"))
    # systematic: non pre-emptive base + pre-emptions, on the race windows
    targets = [A, R, CIO, EMIT]
    sysh = [({"conn": True, "virt": False, "tmo": 3}, [["unlock"]], [[[0, 1, True]], [[0, 2, True]]], True, "lock"),
            ({"conn": True, "virt": False, "tmo": 3}, [["lock"], ["unlock"]], [[[0, 1, True]], [[0, 2, True]]], False, "lock"),
            ({"conn": True, "virt": False, "tmo": 3}, [["sync", 1], ["wait", 1], ["wait", 1]], [[[0, 1, True]], [[0, 2, True]]], False, "sync")]
    PRODUCER_FIRST = [EMIT, R, CIO, A]
    for cfg, script, spont, l0, kind in sysh:
        L = 70
        cases.append(conn_case(cfg, script, spont, l0, policy="np", preempt=[], kind=kind))
        singles = [(k, t) for k in range(0, L) for t in targets]
        if not ctx.thorough:
            singles = rng.sample(singles, 40)
        for k, t in singles:
            cases.append(conn_case(cfg, script, spont, l0, policy="np", preempt=[[k, t]], kind=kind))
        for _ in range(600 if ctx.thorough else 30):
            k1, k2 = sorted(rng.sample(range(L), 2))
            cases.append(conn_case(cfg, script, spont, l0, policy="np",
                                   preempt=[[k1, rng.choice(targets)], [k2, rng.choice(targets)]], kind=kind))
        # the packets first, then the application: every point at which the application cuts in
        # (one pre-emption), and every point at which it cuts in for ONE step before the I/O
        # thread resumes (two adjacent pre-emptions) -- the check-then-act windows
        cases.append(conn_case(cfg, script, spont, l0, policy="np", preempt=[], kind=kind, order=PRODUCER_FIRST))
        for k in range(0, 36):
            cases.append(conn_case(cfg, script, spont, l0, policy="np", preempt=[[k, A]], kind=kind, order=PRODUCER_FIRST))
            cases.append(conn_case(cfg, script, spont, l0, policy="np", preempt=[[k, A], [k + 1, CIO]], kind=kind, order=PRODUCER_FIRST))
            if ctx.thorough:
                cases.append(conn_case(cfg, script, spont, l0, policy="np", preempt=[[k, A], [k + 2, CIO]], kind=kind, order=PRODUCER_FIRST))
                cases.append(conn_case(cfg, script, spont, l0, policy="np", preempt=[[k, CIO], [k + 1, A]], kind=kind, order=PRODUCER_FIRST))
    # synchronous mode transitions under traffic: for each of OFF->PKT, OFF->ALL, PKT->ALL, ALL->PKT,
    # PKT->OFF, ALL->OFF the I/O thread is stopped after k steps of its handling of a packet (between
    # every pair of its mode loads) and the application performs j steps of the switch
    cfgs = {"conn": True, "virt": False, "tmo": 3}
    for a_, b_ in ((0, 1), (0, 2), (1, 2), (2, 1), (1, 0), (2, 0)):
        script = ([["sync", a_]] if a_ else []) + [["sync", b_], ["wait", 1], ["wait", 1], ["wait", 1]]
        sp2 = [[[0, 1, True]], [[0, 2, True]]]
        na = 2 if a_ else 0
        for k in range(0, 9):
            for j in range(0, 4):
                prefix = [A] * na + [EMIT, EMIT] + [R] * 12 + [CIO] * k + [A] * j + [CIO] * 7 + [A] * 3
                cases.append(conn_case(cfgs, script, sp2, False, prefix=prefix, kind="sync-trans"))
    for _ in range(300 if ctx.thorough else 40):
        uid = U.Uid()
        script = []
        for _ in range(rng.choice([2, 3, 4, 5])):
            script.append(["sync", rng.choice([0, 1, 2, 1, 2])] if rng.random() < 0.5 else ["wait", rng.choice([1, 2])])
        spont = pkt_chunks(rng, uid, rng.choice([1, 2, 3, 4]))
        prefix = [a for a in U.gen_prefix(rng, rng.choice([10, 30, 60, 100]), virt=False) if a != W]
        cases.append(conn_case(cfgs, script, spont, False, prefix=prefix, kind="sync-trans"))
    # long locked phases: many packets received while locked, then unlock() (the model's holding queue
    # is unbounded; a bounded one makes the I/O thread block in put() with the internal lock held)
    for n_held in ((129, 200, 520, 1000) if ctx.thorough else (129, 200)):
        spn = [[[0, 10 * c + i + 1, True] for i in range(10) if 10 * c + i < n_held] for c in range((n_held + 9) // 10)]
        cases.append(conn_case({"conn": True, "virt": False, "tmo": 3}, [["unlock"]], spn, True, policy="np", preempt=[],
                               kind="lock-long", order=PRODUCER_FIRST, cap=60 * n_held + 500))
    for n_held in ((300,) if ctx.thorough else (140,)):
        spn = [[[0, i + 1, True]] for i in range(n_held)]
        prefix = [a for a in U.gen_prefix(rng, 12 * n_held, virt=False) if a not in (W, A)]
        cases.append(conn_case({"conn": True, "virt": False, "tmo": 3}, [["lock"], ["unlock"], ["lock"], ["unlock"]], spn, False,
                               prefix=[A, A] + prefix, kind="lock-long", cap=60 * n_held + 500))
    # unlock() running while packets keep arriving: three packets, the application cuts in after k
    # producer steps and the I/O thread cuts back in j steps later (between two dispatches of unlock)
    cfg3 = {"conn": True, "virt": False, "tmo": 3}
    sp3 = [[[0, 1, True]], [[0, 2, True]], [[0, 3, True]], [[0, 4, True]]]
    ks = range(20, 62) if ctx.thorough else range(24, 60, 2)
    js = (1, 2, 3, 4, 5, 6, 7, 8, 10, 12) if ctx.thorough else (2, 4, 5, 6, 8)
    for k in ks:
        for j in js:
            cases.append(conn_case(cfg3, [["unlock"]], sp3, True, policy="np", preempt=[[k, A], [k + j, CIO]],
                                   kind="lock", order=PRODUCER_FIRST))
    return cases


SIDE_ACTS = {"in": {"R": 2, "C": 3, "X": 6, "E": 5}, "out": {"R": 12, "C": 13, "X": 16, "E": 15}}


def gen_side(rng, uid, quiet, locked=None):
    """One side of a bridge: what the old connector holds (packet-type messages only: ordinary
    PDUs and class-13 messages whose to_packet() is None), what is still pending in its events
    queue, what the device emits (any kind)."""
    locked = (rng.random() < 0.75) if locked is None else locked
    def pk():
        return [13, uid.next(), True] if rng.random() < 0.3 else [0, uid.next(), True]
    def anym():
        r = rng.random()
        if r < 0.2:
            return [rng.choice([7, 8, 12]), uid.next(), False]
        return pk()
    # the filter an earlier send_command / send_message(keep=...) left on the device, and "command
    # results" (messages that filter would keep) among what the device emits afterwards
    filt = rng.choice([None, None, 3, 4, 0])
    def anyf():
        if filt is not None and rng.random() < 0.4:
            return [filt, uid.next(), filt == 0]
        return anym()
    held = [pk() for _ in range(rng.choice([0, 1, 2, 3]))] if locked else []
    ev0 = [] if quiet else [anym() for _ in range(rng.choice([0, 0, 1, 2]))]
    spont = [[anyf() for _ in range(rng.choice([1, 1, 2]))] for _ in range(rng.choice([0, 1, 2, 3]))]
    return {"locked": locked, "filt": filt, "held": held, "ev0": ev0, "spont": spont}


def gen_bridge_cases(ctx):
    rng, cases = ctx.rng, []
    n = 1500 if ctx.thorough else 200
    acts = [A] * 6 + [2] * 4 + [3] * 3 + [6] * 3 + [12] * 4 + [13] * 3 + [16] * 3 + [5, 15] * 2
    for i in range(n):
        uid = U.Uid()
        quiet = (i % 3 == 0)
        one_way = (i % 5 == 4)
        case = {"kind": "bridge",
                "in": gen_side(rng, uid, quiet, locked=True if one_way else None),
                "out": gen_side(rng, uid, quiet) if not one_way else {"locked": False, "filt": None, "held": [], "ev0": [], "spont": []},
                "tail": True}
        if quiet:
            # created on a quiet link: Bridge.__init__ runs to completion before any emission
            case["prefix"] = [A] * 90 + [rng.choice(acts) for _ in range(rng.choice([0, 20, 60, 120]))]
        else:
            case["prefix"] = [rng.choice(acts) for _ in range(rng.choice([0, 10, 30, 60, 100, 150]))]
        cases.append(case)
    return cases


def corpus_cases():
    out = []
    d = os.path.join(C.VERIF, "corpus", PID)
    for fn in sorted(os.listdir(d)) if os.path.isdir(d) else []:
        if fn.endswith(".json"):
            w = json.load(open(os.path.join(d, fn)))
            c = w["case"]
            c["corpus"] = fn
            out.append(c)
    return out


# ---------------------------------------------------------------------------------------
# oracles
# ---------------------------------------------------------------------------------------

def lock_wf(script, locked0):
    b = locked0
    for op in script:
        if op[0] == "lock":
            if b:
                return False
            b = True
        elif op[0] == "unlock":
            b = False
    return True


def conn_quiet(case, res):
    obs, info = res["obs"], res["info"]
    return (not res["capped"]) and not obs["events"] and info["wire_left"] == 0 and info["spont_left"] == 0 \
        and info["pending"].get("R", "dev.read") == "dev.read" and info["pending"].get("C", "").endswith(".get") \
        and info["in_q"] == 0


def oracle_conn(case, res):
    out = []
    if "error" in res:
        return [("driver error: " + res["error"], None, res.get("tb"))]
    obs, info, script = res["obs"], res["info"], case["script"]
    if info["crashed"]:
        out.append(("a thread died with an exception", {}, info["crashed"]))
    pk = lambda l: [m for m in l if m[2]]
    has_sync = any(op[0] == "sync" for op in script)
    has_cmd = any(op[0] == "cmd" for op in script)
    quiet = conn_quiet(case, res)
    # liveness: lock() / unlock() / enable_synchronous() always return; nobody blocks for ever
    if not res["capped"] and not obs["adone"]:
        pend = info["pending"].get("A", "")
        if not pend.endswith(".get"):           # (an untimed wait_packet may legitimately wait for ever)
            out.append(("the application thread is blocked for ever at `%s` (I/O thread at `%s`): unlock()/lock() never returns, held packets are never dispatched"
                        % (pend, info["pending"].get("C", "")), "every operation returns",
                        {"held": len(obs["locked_q"]), "dispatched": len(obs["dispatched"]), "received": len(obs["delivered"])}))
    if not res["capped"] and info["pending"].get("C", "").endswith(".put"):
        out.append(("the connector I/O thread is blocked for ever in a queue put() (`%s`)" % info["pending"].get("C"), "queues never block their producer",
                    {"held": len(obs["locked_q"]), "queue_bounds": info.get("queue_bounds")}))
    if obs.get("on_packets") is not None and obs["on_packets"] != [m[:2] + [True] for m in obs["dispatched"] if m[0] != 13]:
        out.append(("on_packet calls differ from the packets handed to the dispatch routine", obs["dispatched"], obs["on_packets"]))
    # dispatch order / exactly once (lock mode): holds at every state when lock() is not called twice
    if lock_wf(script, bool(case.get("locked0"))):
        d, q, dl = obs["dispatched"], obs["locked_q"], pk(obs["delivered"])
        io_idle = info["pending"].get("C", "").endswith(".get")
        if not obs["adone"]:
            pass            # unlock() may hold a packet it has taken and not dispatched yet
        elif io_idle and d + q != dl:
            out.append(("packets dispatched + packets held are not the packets received, in order", dl, {"dispatched": d, "held": q}))
        if obs["adone"] and not io_idle and (d + q) != dl[:len(d + q)]:
            out.append(("packets dispatched + packets held are not a prefix of the packets received", dl, {"dispatched": d, "held": q}))
        if not obs["locked"] and q and obs["adone"] and io_idle:
            out.append(("packets stranded in the holding queue of an unlocked connector", [], q))
    # synchronous mode: [sync 1, wait...]
    if script and script[0] == ["sync", 1] and all(op[0] == "wait" for op in script[1:]) \
            and all(f[2] for f in U.msgs_of(case.get("spont", []))):
        e = [list(f) for f in info["emitted"]]
        got = [m for m in obs["retrieved"] if m is not None]
        seen = obs["delivered"] + got + obs["sync_q"]
        if seen != e[:len(seen)]:
            out.append(("processed + retrieved + waiting packets are not the emitted packets, in order", e, {"delivered": obs["delivered"], "retrieved": got, "sync_q": obs["sync_q"]}))
        if quiet and seen != e:
            out.append(("a packet received in synchronous mode can neither be retrieved nor was it processed", e, {"delivered": obs["delivered"], "retrieved": got, "sync_q": obs["sync_q"]}))
        both = [m for m in got if m in obs["dispatched"]]
        if both:
            out.append(("a packet retrieved with wait_packet was also dispatched to on_packet", [], both))
    # synchronous mode across transitions: only enable_synchronous / wait_packet, packets only
    if script and all(op[0] in ("sync", "wait") for op in script) and all(f[2] and f[0] != 13 for f in U.msgs_of(case.get("spont", []))):
        e = [list(f) for f in info["emitted"]]
        got = [m for m in obs["retrieved"] if m is not None]
        acc = obs["delivered"] + got + obs["sync_q"] + obs.get("cleared", [])
        if len({tuple(m) for m in acc}) != len(acc) or any(m not in e for m in acc):
            out.append(("a packet is accounted for twice (processed / retrieved / queued / cleared)", e, acc))
        if [m for m in e if m in got] != got:
            out.append(("wait_packet did not return the packets in arrival order", e, got))
        both = [m for m in got if m in obs["dispatched"]]
        if both:
            out.append(("a packet retrieved with wait_packet was also dispatched to on_packet", [], both))
        if quiet and not any(op == ["sync", 0] for op in script) and sorted(map(tuple, acc)) != sorted(map(tuple, e)):
            out.append(("a packet was silently lost across a synchronous-mode transition: neither processed, nor retrievable, nor discarded by an explicit clear",
                        e, {"delivered": obs["delivered"], "retrieved": got, "sync_q": obs["sync_q"], "cleared": obs.get("cleared", [])}))
    return out


def side_msgs(side):
    return [list(f) for f in side.get("held", [])] + [list(f) for f in side.get("ev0", [])] \
        + [list(f) for f in U.msgs_of(side.get("spont", []))]


def bridge_class(case, res):
    """The failing case belongs to the known class iff the bridge was created under traffic:
    an event was pending in an old connector's queue, or a device emitted before
    Bridge.__init__ returned.  (Held messages alone do not put a case in the class: on a
    quiet link they must be relayed first, in order -- C05_bridge_quiet_link.)"""
    sched = res["sched"]
    done_at = res["info"].get("done_at")
    last_a = done_at if done_at is not None else len(sched)      # index at which Bridge.__init__ returned
    first_emit = min([i for i, a in enumerate(sched) if a in (5, 15)], default=None)
    pending = any(case.get(k, {}).get("ev0") for k in ("in", "out"))
    under_traffic = pending or (first_emit is not None and first_emit < last_a)
    return KEY_BRIDGE if under_traffic else None


def oracle_bridge(case, res):
    out = []
    if "error" in res:
        return [("driver error: " + res["error"], None, res.get("tb"), None)]
    obs, info = res["obs"], res["info"]
    dead_known = set()
    if info["crashed"] or obs["in"]["dead"] or obs["out"]["dead"]:
        key = None
        out.append(("a thread died while the bridge was being created", {}, info["crashed"], key))
    quiet = (not res["capped"]) and obs["done"] and info["wire_left"] == 0 and info["spont_left"] == 0 \
        and all(not obs[k]["ev_o"] and not obs[k]["ev_w"] for k in ("in", "out")) \
        and all(l.endswith(".get") or l.endswith(".read") for l in info["pending"].values())
    for k in ("in", "out"):
        if k in dead_known:
            continue
        o = obs[k]
        allm = side_msgs(case.get(k, {}))
        peer = o["peer"]
        if len({tuple(m) for m in peer}) != len(peer):
            out.append(("%s side: a message was relayed twice" % k, None, peer, None))
        if o["on_packets"] != [m[:2] + [True] for m in o["lost"] if m[0] != 13]:
            out.append(("%s side: on_packet calls of the old connector differ from its packet dispatches" % k, o["lost"], o["on_packets"], None))
        if quiet:
            handled = [m for m in o["deliv_o"] if not m[2]]          # non-packet messages processed by the old connector
            everything = sorted(map(tuple, peer + o["lost"] + handled + o["lq"] + o.get("kept", [])))
            if everything != sorted(map(tuple, allm)):
                out.append(("%s side: a message vanished or appeared (relayed + handled by the old connector + held != emitted)" % k, allm,
                            {"peer": peer, "old connector": o["lost"] + handled, "held": o["lq"], "kept by a device filter": o.get("kept", [])}, None))
            if peer != allm:
                out.append(("%s side: the bridge did not relay every message exactly once in order" % k, allm,
                            {"peer": peer, "handled by the old connector instead": o["lost"] + handled, "left in the holding queue": o["lq"],
                             "kept by the device's message filter": o.get("kept", [])},
                            bridge_class(case, res)))
        else:
            sub = [m for m in allm if m in peer]
            if sub != peer and bridge_class(case, res) is None:
                out.append(("%s side: messages relayed out of order" % k, sub, peer, None))
    return out


# ---------------------------------------------------------------------------------------
# Coq literals of bridge cases
# ---------------------------------------------------------------------------------------

def c_side(side, default_locked):
    ml = lambda l: C.clist([U.c_msg(m) for m in l])
    f = side.get("filt")
    return "(%s, %s, %s, %s, %s)" % (C.cbool(side.get("locked", default_locked)), "None" if f is None else "(Some %d)" % f,
                                     ml(side.get("held", [])), ml(side.get("ev0", [])), U.c_chunks(side.get("spont", [])))


def c_sobs(o):
    ml = lambda l: C.clist([U.c_msg(m) for m in l])
    return "(mkSO %s %s %s %s %s %s %s %s %s %s)" % (ml(o["peer"]), ml(o["lost"]), ml(o["lq"]), ml(o["deliv_o"]), ml(o["deliv_w"]),
                                                   ml(o["ev_o"]), ml(o["ev_w"]), C.cbool(o["locked"]), C.cbool(o["dead"]), ml(o.get("kept", [])))


def c_bcase(case, res, legacy_ctor=False):
    o = res["obs"]
    return "(%s, %s, %s, %s, (%s, %s, %s))" % (
        C.cbool(legacy_ctor), c_side(case.get("in", {}), True), c_side(case.get("out", {}), False),
        C.clist(["%d" % a for a in res["sched"]]), c_sobs(o["in"]), c_sobs(o["out"]), C.cbool(o["done"]))


def strip(case):
    return {k: v for k, v in case.items() if k not in ("corpus",)}


# ---------------------------------------------------------------------------------------
# run
# ---------------------------------------------------------------------------------------

def run(ctx):
    C.build_dir(PID, clean=True)
    ctx.cov["trusted_base"] = [
        "Coq 8.16.1 kernel + vm_compute; every theorem of C05/Property.v closed under the global context (Print Assumptions checked each run)",
        "hand-written interleaving models coq/theories/C04/Model.v (lock, unlock, synchronous mode) and C05/Model.v (Bridge.__init__, one direction), tied to whad/device/connector.py and bridge.py by forced-schedule correspondence of this run (sampled schedules)",
        "CPython facts: one attribute load/store is atomic under the GIL; queue.Queue operations are linearizable; deque.clear() is atomic; threading.Lock is a mutex",
        "cooperative scheduler of harness/impl/C04_sched.py (replaced Queue/Lock/time names, sys.monitoring INSTRUCTION events on LOAD_ATTR/STORE_ATTR of __locked/__sync_mode/__connector/__msg_filter/__opened); Connector.__callbacks_lock is not a yield point",
        "bridge: both directions; held messages are packet-type (ordinary PDUs, and class-13 messages whose to_packet() is None), pending / emitted messages of any kind; the packet dispatch routine Connector.__process_pkt_message is observed (and made a yield point) by an override in the harness connector subclass",
    ]
    ctx.assumptions = [
        "every queue of Device / Connector is unbounded (checked each run on constructed objects: structural obligation)",
        "lock() is not called on a connector that is already locked (it discards what is held, by design)",
        "synchronous mode: the application enables packet mode and then only calls wait_packet (disabling the mode discards what is queued, by design); packets only",
        "one application thread; one connector I/O thread per connector; the device stays open",
    ]
    proofs_ok, detail = ctx.check_proofs(extra_targets=C.prop_targets("C04")[:2])
    ctx.log("proofs:", proofs_ok, detail.splitlines()[0][:200])

    corp = corpus_cases()
    cases = corp + gen_conn_cases(ctx) + gen_bridge_cases(ctx)
    ctx.log("cases:", len(cases), "(bridge: %d)" % sum(1 for c in cases if c.get("kind") == "bridge"))
    results = U.run_driver([strip(c) for c in cases], script="C05.py", batch=30 if ctx.thorough else 14)
    ctx.log("implementation ran %d schedules" % len(results))

    # ---- structural obligation: the models take every queue as unbounded ----------------------------
    bounds = {}
    for r in results:
        if "error" not in r and r["info"].get("queue_bounds"):
            bounds = r["info"]["queue_bounds"]
            break
    bounded = {k: v for k, v in bounds.items() if v}
    ctx.cov["obligations"] += 1
    if not bounded and bounds:
        ctx.cov["discharged"] += 1
    ctx.cov["queue_bounds"] = bounds
    ctx.log("structural obligation (unbounded queues):", "ok" if not bounded and bounds else "BROKEN %r" % (bounded or "not observed"))

    # ---- oracle ---------------------------------------------------------------------------------
    nviol = 0
    for case, res in zip(cases, results):
        if case.get("kind") == "bridge":
            for what, exp, obsd, key in oracle_bridge(case, res):
                payload = dict(strip(case), schedule=res.get("sched"))
                nviol += bool(ctx.violation(what, payload, key=key, expected=exp, observed=obsd))
        else:
            for what, exp, obsd in oracle_conn(case, res):
                payload = dict(strip(case), schedule=res.get("sched"))
                nviol += bool(ctx.violation(what, payload, expected=exp, observed={"observed": obsd, "obs": res.get("obs")}))
                break
        if nviol >= 5:
            break

    # ---- correspondence inside Coq ----------------------------------------------------------------
    t_conn, i_conn, t_br, i_br = [], [], [], []
    for i, (case, res) in enumerate(zip(cases, results)):
        if "error" in res:
            continue
        if case.get("kind") == "bridge":
            t_br.append(c_bcase(case, res)); i_br.append(i)
        else:
            t = U.c_case(case, res)
            if t is not None and len(t) < 200000:
                t_conn.append(t); i_conn.append(i)
    bad_c, logs_c = C.run_cases(PID, "conn", PRE, "case", t_conn, "check_case", shard=60)
    bad_b, logs_b = C.run_cases(PID, "bridge", PRE, "bcase", t_br, "bcheck_case", shard=80)
    ctx.notes += logs_c[:3] + logs_b[:3]
    ctx.log("correspondence: connector %d cases %d bad; bridge %d cases %d bad" % (len(t_conn), len(bad_c), len(t_br), len(bad_b)))

    # ---- evidence -----------------------------------------------------------------------------------
    ok = [(c, r) for c, r in zip(cases, results) if "error" not in r]
    ctx.cov["evaluations"] = len(cases)
    ctx.cov["traces_validated_against_impl"] = len(t_conn) + len(t_br) - len(bad_c) - len(bad_b)
    ctx.cov["distinct_nontrivial"] = C.distinct_count(
        [[c.get("cfg"), c.get("script"), c.get("in"), c.get("out"), c.get("spont"), r["sched"]] for c, r in ok
         if len(set(r["sched"])) >= 3 and len(r["sched"]) >= 15])
    ctx.cov["rule"] = ("connector cases: lock()/unlock() sequences, [enable_synchronous, wait_packet...] and mixed scripts x packet streams x forced "
                       "schedule (random prefix + fair tail; non pre-emptive base + single / double pre-emptions). Bridge cases: held packets x "
                       "pending events x packet stream x forced schedule of application / reader / old connector I/O / wrapper I/O. Non-trivial = "
                       ">= 15 actions over >= 3 actors; distinct by hash of (history, executed schedule)")
    labels = sorted({l for c, r in ok for l in r["info"]["labelset"]})
    kinds = {}
    for c in cases:
        kinds[c.get("kind", "?")] = kinds.get(c.get("kind", "?"), 0) + 1
    quiet_br = [(c, r) for c, r in ok if c.get("kind") == "bridge"]
    ctx.cov["distribution"] = {
        "cases_by_kind": kinds,
        "schedule_len": {"min": min(len(r["sched"]) for _, r in ok), "max": max(len(r["sched"]) for _, r in ok),
                         "mean": round(sum(len(r["sched"]) for _, r in ok) / max(1, len(ok)), 1)},
        "bridge_perfect_relay": sum(1 for c, r in quiet_br if all(r["obs"][k]["peer"] == side_msgs(c.get(k, {})) for k in ("in", "out"))),
        "bridge_held_kinds": {"pdu": sum(1 for c, _ in quiet_br for k in ("in", "out") for f in c.get(k, {}).get("held", []) if f[0] == 0),
                              "no_scapy_counterpart": sum(1 for c, _ in quiet_br for k in ("in", "out") for f in c.get(k, {}).get("held", []) if f[0] == 13)},
        "bridge_both_directions": sum(1 for c, _ in quiet_br if side_msgs(c.get("out", {}))),
        "bridge_in_known_class": sum(1 for c, r in quiet_br if bridge_class(c, r)),
        "bridge_outside_known_class": sum(1 for c, r in quiet_br if not bridge_class(c, r)),
        "lock_cases_ending_unlocked": sum(1 for c, r in ok if c.get("kind") == "lock" and not r["obs"]["locked"]),
        "waits_returning_a_packet": sum(1 for c, r in ok if c.get("kind") in ("sync", "mixed") for x in r["obs"]["retrieved"] if x),
        "waits_returning_none": sum(1 for c, r in ok if c.get("kind") in ("sync", "mixed") for x in r["obs"]["retrieved"] if not x),
        "capped": sum(1 for _, r in ok if r["capped"]),
        "yield_points_seen": len(labels),
        "uncovered_branches": sorted(set(EXPECTED_LABELS) - set(labels)),
    }
    ctx.cov["samples"] = [{"case": {k: v for k, v in c.items() if k != "prefix"}, "schedule": r["sched"][:60], "obs": r["obs"]}
                          for c, r in ok[::max(1, len(ok) // 3)][:3]]
    ctx.cov["source_ties"] = [C.source_tie("whad/device/connector.py", 140, 200), C.source_tie("whad/device/connector.py", 363, 520),
                              C.source_tie("whad/device/connector.py", 736, 775), C.source_tie("whad/device/connector.py", 843, 910),
                              C.source_tie("whad/device/bridge.py", 16, 125), C.source_tie("whad/device/bridge.py", 204, 292)]
    ctx.cov["correspondence"] = {"connector_cases": len(t_conn), "connector_bad": len(bad_c), "bridge_cases": len(t_br), "bridge_bad": len(bad_b)}

    # ---- verdict --------------------------------------------------------------------------------------
    errs = [r for r in results if "error" in r]
    if (bounded or not bounds) and not ctx.violations:
        ctx.broken_obligation("model hypothesis broken: the queues of Device / Connector are taken as unbounded by the models, observed maxsize %r"
                              % (bounded or bounds), json.dumps(bounds), None)
    if (bad_c or bad_b or not proofs_ok or errs) and not ctx.violations:
        first = None
        if bad_c:
            i = i_conn[bad_c[0]]
            first = dict(strip(cases[i]), schedule=results[i]["sched"], impl=results[i]["obs"])
            try:
                first["model"] = C.coq_eval(PID, "first_bad", PRE, ["run_case %s" % t_conn[bad_c[0]]])[0][:1500]
            except Exception as e:      # noqa
                first["model"] = "n/a: %s" % e
        elif bad_b:
            i = i_br[bad_b[0]]
            first = dict(strip(cases[i]), schedule=results[i]["sched"], impl=results[i]["obs"])
            try:
                first["model"] = C.coq_eval(PID, "first_bad", PRE, ["brun_case %s" % t_br[bad_b[0]]])[0][:1500]
            except Exception as e:      # noqa
                first["model"] = "n/a: %s" % e
        what = ("correspondence model vs Connector/Bridge under forced schedules (%d connector, %d bridge cases disagree)" % (len(bad_c), len(bad_b))
                if (bad_c or bad_b) else ("driver errors: " + errs[0]["error"] if errs else "proof obligations of theories/C05: " + detail.splitlines()[0][:200]))
        ctx.broken_obligation(what, detail if not proofs_ok else "\n".join(logs_c + logs_b), first)


EXPECTED_LABELS = [
    "A store locked @Connector.lock", "A store locked @Connector.unlock", "A dispatch", "C dispatch", "C0 dispatch", "A store sync_mode @Connector.enable_synchronous",
    "A load sync_mode @Connector.wait_packet", "C load locked @Connector.is_locked", "C load locked @Connector.add_locked_pdu",
    "C load sync_mode @Connector.add_sync_event", "C load sync_mode @Connector.on_device_event",
    "A store connector @Device.set_connector", "A store msg_filter @Device.set_queue_filter", "A load locked @Connector.is_locked",
    "R0 load connector @Device.connector", "X0 load opened @Device.is_open", "A load opened @Device.is_open",
]


def replay(payload):
    case = payload.get("case") or payload.get("first_disagreeing_case")
    if not case:
        print("nothing to replay:", payload.get("what"))
        return 0
    c = {k: v for k, v in case.items() if k not in ("schedule", "impl", "model", "policy", "preempt")}
    c["prefix"] = case.get("schedule") or case.get("prefix", [])
    c["tail"] = False
    r = C.run_impl("C05.py", {"cases": [c]})["results"][0]
    print("case:", json.dumps(c)[:3000])
    print("implementation now:", json.dumps(r.get("obs", r))[:3000])
    if "obs" in r:
        print("oracle:", oracle_bridge(c, r) if c.get("kind") == "bridge" else oracle_conn(c, r))
    return 0
