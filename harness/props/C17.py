"""C17 — Zigbee frame security (CCM* round trip, tamper evidence, NWK freshness).  DESIGN.md §2 C17.

Pipeline: (1) build + Print Assumptions of theories/C17; (2) generate NWK / APS secured
frames (python3 stdlib only, own header builders) and NWK receive histories; (3) run the real
NetworkLayerCryptoManager / ApplicationSubLayerCryptoManager / NWKManager (harness/impl/C17.py,
two driver processes: encrypt+round trip, then tampered / wrong-key decrypts and histories built
from the frames the real code encrypted); (4) oracle = the property on the real code's outputs;
(5) correspondence model vs implementation inside Coq (E := aes128_enc); (6) verdict.
"""
import json, os
from harness import common as C
from harness.common import cbytes, cbool, clist, cpair, cstr
from harness.props import pyfun_util

PID = "C17"
KEY_APS_DATA = "aps-data-request-secured-raises"
KEY_NOEXT = "no-extended-nonce-source-from-payload"
IN_SCOPE = (0, 1, 2, 3, 5, 6, 7)      # integrity-providing levels: 5..7 and on-air 0 (the quantifier) + the MIC-only levels 1..3 (extension)
M_OF = {0: 4, 1: 4, 2: 8, 3: 16, 4: 0, 5: 4, 6: 8, 7: 16}
SPLIT_OF = {0: 0, 1: 4, 2: 8, 3: 16, 4: 0, 5: 4, 6: 8, 7: 16}   # scapy util_mic_len
SVC = {"data": 0, "management": 1, "interpan": 2}

# frames of tests/domain/zigbee/test_zigbee_crypto.py: (mgr, key, aps input, encrypted frame, decrypted frame)
TEST_VECTORS = [
    ("nwk", "ad8ebbc4f96ae7000506d3fcd1627fb8", None,
     "618864472400008a5c480200008a5c1e5d28e1000000013ce801008d150001ea59de1f960eea8aee185a11893096414e05a243",
     "618864472400008a5c480200008a5c1e5d28e1000000013ce801008d150001000112000401016218c30a5500210100ac4c76af"),
    ("nwk", "44819751b602049181dc8bc2714df09d", None,
     "6188f73acb73e523ed480273e523ed1e7228a3b2890283b6a90101881700007657e59a7002fac5e9b7315bf67d5f9afc",
     "6188f73acb73e523ed480273e523ed1e7228a3b2890283b6a9010188170000000b0800040140a300860000002e22fb48"),
    ("aps", "814286865dc1c8b2c8cbc52e5d65d1b8", 0,
     "61887c803104000100080004000100013521b83001000200ce99430501881700f47c78a38c74072b1380763ae007df4346c92f7f127eba41be454ebdbe106c37ae161efe4d3718",
     "61887c803104000100080004000100013521b83001000200ce99430501881700050102398409245156e31d98a92157a8a66f0033d1b90401881700ffffffffffffffff2a117c60"),
]


# ---------------------------------------------------------------------------
# frame construction (python side, no scapy)
# ---------------------------------------------------------------------------

def rb(rng, n):
    return bytes(rng.randrange(256) for _ in range(n))


def mac_hdr(rng):
    return b"\x61\x88" + rb(rng, 1) + rb(rng, 2) + rb(rng, 2) + rb(rng, 2)


def nwk_hdr(rng, ft, security, rich=True):
    flags = (0x02 if security else 0)
    ext = b""
    if rich and rng.random() < 0.3:
        flags |= 0x08; ext += rb(rng, 8)
    if rich and rng.random() < 0.4:
        flags |= 0x10; ext += rb(rng, 8)
    if rich and rng.random() < 0.15:
        n = rng.randrange(0, 3)
        flags |= 0x04; ext += bytes([n, 0]) + rb(rng, 2 * n)
    b0 = ft | (2 << 2) | (rng.randrange(0, 4) << 6)
    return bytes([b0, flags]) + rb(rng, 2) + rb(rng, 2) + bytes([rng.randrange(1, 31)]) + rb(rng, 1) + ext


def aps_hdr(rng, kind):
    if kind == "data":
        fcb = 0x20 | (0x40 if rng.random() < 0.3 else 0)
        exthdr = rng.random() < 0.2
        if exthdr:
            fcb |= 0x80
        return bytes([fcb]) + rb(rng, 1) + rb(rng, 2) + rb(rng, 2) + rb(rng, 1) + rb(rng, 1) + (b"\x00" if exthdr else b"")
    return bytes([0x20 | 0x01 | (0x40 if rng.random() < 0.3 else 0)]) + rb(rng, 1)     # command: counter only


class Fr:
    """Python-side secured frame: lower part (not protected), base header, security header fields."""
    def __init__(self, mgr, low, pre, res, kt, lvl, fc, src, kseq, data, mic, ext=1):
        self.mgr, self.low, self.pre, self.res, self.kt, self.lvl = mgr, low, pre, res, kt, lvl
        self.fc, self.src, self.kseq, self.data, self.mic, self.ext = fc, src, kseq, data, mic, ext

    def ctrl(self):
        return self.lvl | (self.kt << 3) | (0x20 if self.ext else 0) | (self.res << 6)

    def sec_fixed(self):
        return (bytes([self.ctrl()]) + self.fc.to_bytes(4, "little") + (self.src if self.ext else b"")
                + (bytes([self.kseq]) if self.kt == 1 else b""))

    def hdr(self):
        return self.pre + self.sec_fixed()

    def base(self):
        return self.hdr() + self.data + self.mic

    def frame(self):
        return self.low + self.base()

    def asdict(self):
        return {"pre": self.pre.hex(), "res": self.res, "ext": self.ext, "kt": self.kt, "lvl": self.lvl, "fc": self.fc,
                "src": self.src.hex() if self.ext else None, "kseq": self.kseq if self.kt == 1 else None,
                "data": self.data.hex(), "mic": self.mic.hex()}


def coq_frame(d):
    return "(mkFrame %s %d %d %d %d %s %s %d %s %s)" % (
        cbytes(bytes.fromhex(d["pre"])), d["res"], d["kt"], d["lvl"], d["fc"], cbool(bool(d["ext"])), cbytes(bytes.fromhex(d["src"] or "")),
        d["kseq"] if d["kseq"] is not None else 0, cbytes(bytes.fromhex(d["data"])), cbytes(bytes.fromhex(d["mic"])))


def in_model(d):
    """The dissection is inside the model: a security header directly above the base layer, nothing after mic."""
    return (d is not None and not d.get("nosec") and d.get("tail", "") == "" and ((d.get("src") is not None) == (d.get("ext") == 1))
            and ((d["kseq"] is not None) == (d["kt"] == 1)))


def same_dis(a, b):
    return all(a[k] == b[k] for k in ("pre", "res", "ext", "kt", "lvl", "fc", "src", "kseq", "data", "mic"))


PAYLOAD_LENS = [0, 1, 1, 2, 2, 3, 4, 5, 7, 8, 12, 15, 16, 17, 20, 31, 32, 33, 48, 64, 79, 80]


def gen_payload(rng, hdr, n=None, kind=None):
    kind = kind or rng.choice(["random", "random", "hdrsub", "hdrsub", "hdrbyte", "zeros", "short"])
    if n is None:
        n = rng.choice(PAYLOAD_LENS)
    if kind == "short":
        return rng.choice([b"\x00", b"\x8a", b"\x01", b"\x5c\x1e", b"", bytes([hdr[rng.randrange(len(hdr))]])]), kind
    if kind == "hdrsub" and n <= len(hdr):
        o = rng.randrange(0, len(hdr) - n + 1)
        return hdr[o:o + n], kind
    if kind == "hdrbyte":
        return bytes([hdr[rng.randrange(len(hdr))]]) * min(n, 3), kind
    if kind == "zeros":
        return b"\x00" * n, kind
    return rb(rng, n), "random"


def gen_secured(rng, mgr, lvl=None, n=None, pkind=None, kt=None, ft=None, fc=None, src=None, kseq=None, rich=True, ext=1):
    lvl = rng.choice([0, 0, 5, 5, 6, 7, 1, 2, 3]) if lvl is None else lvl
    if mgr == "nwk":
        low = mac_hdr(rng)
        pre = nwk_hdr(rng, rng.choice([0, 0, 1]) if ft is None else ft, True, rich)
        kt = (1 if rng.random() < 0.85 else rng.choice([0, 2, 3])) if kt is None else kt
    else:
        low = mac_hdr(rng) + nwk_hdr(rng, 0, False, rich)
        kt = rng.choice([0, 2, 2, 3, 1]) if kt is None else kt
        pre = aps_hdr(rng, "data" if kt in (0, 1) and rng.random() < 0.7 else "command")
    f = Fr(mgr, low, pre, rng.choice([0, 0, 0, 1, 2, 3]) if rich else 0, kt, lvl,
           fc if fc is not None else rng.choice([0, 1, 0xFFFFFFFF, 0xFFFFFFFE, rng.randrange(1 << 32), rng.randrange(1 << 16)]),
           src if src is not None else rb(rng, 8), kseq if kseq is not None else rng.randrange(256), b"", b"", ext)
    pl, pk = gen_payload(rng, f.hdr(), n, pkind)
    f.payload, f.pkind = pl, pk
    return f


def aps_input_for(rng, kt):
    if rng.random() < 0.15:
        return rng.choice([None, 0, 1, 2])
    return {0: None, 1: None, 2: 0, 3: 2}[kt]


def expected_plaintext(d):
    """what encrypt protects (the property's 'original payload') for an input dissection"""
    data = bytes.fromhex(d["data"])
    if d["lvl"] == 0 and d["mic"] == "":
        return data[:-4] if len(data) > 4 else b""
    return data


# ---------------------------------------------------------------------------
# case generation
# ---------------------------------------------------------------------------

def gen_roundtrip_cases(ctx):
    """phase-1 cases: encrypt (and decrypt back) frames in the conventions the stack uses."""
    rng, cases = ctx.rng, []

    def add(f, key, inp, conv, dec_via, tag):
        M = M_OF[f.lvl]
        if conv == "bytes":       # frame bytes as dissected: payload followed by M placeholder bytes
            g = Fr(f.mgr, f.low, f.pre, f.res, f.kt, f.lvl, f.fc, f.src, f.kseq, f.payload + rb(rng, M), b"", f.ext)
            frame, setf, via = g.frame().hex(), None, "bytes"
            all_ = g.data
            k = SPLIT_OF[f.lvl]
            din = dict(g.asdict(), data=(all_[:-k] if k else all_).hex(), mic=(all_[-k:] if k else b"").hex())
        else:                     # packet object: data = payload, mic empty (stack-built) or an old MIC still in place ("built-mic")
            g = Fr(f.mgr, f.low, f.pre, f.res, f.kt, f.lvl, f.fc, f.src, f.kseq, b"", b"", f.ext)
            oldmic = rb(rng, M) if conv == "built-mic" else b""
            frame, setf, via = g.frame().hex(), {"data": f.payload.hex(), "mic": oldmic.hex()}, "obj"
            din = dict(g.asdict(), data=f.payload.hex(), mic=oldmic.hex())
        steps = [{"op": "enc", "key": key.hex(), "inp": inp, "via": via}]
        if dec_via:
            steps.append({"op": "dec", "key": key.hex(), "inp": inp, "via": dec_via, "reuse": rng.random() < 0.3})
        cases.append({"mgr": f.mgr, "frame": frame, "set": setf, "steps": steps,
                      "meta": {"tag": tag, "conv": conv, "lvl": f.lvl, "ext": f.ext, "plen": len(f.payload), "pkind": f.pkind,
                               "payload": f.payload.hex(), "din": din, "low": len(f.low), "key": key.hex(), "inp": inp}})

    # corpus first: witnesses of known findings (replayed on the implementation on every run) ...
    cdir = os.path.join(C.VERIF, "corpus", PID)
    for fn in sorted(os.listdir(cdir)) if os.path.isdir(cdir) else []:
        w = json.load(open(os.path.join(cdir, fn)))
        if "crypt" in w:
            c = w["crypt"]
            cases.append({"mgr": c["mgr"], "frame": c["frame"], "set": c.get("set"), "steps": c["steps"],
                          "meta": {"tag": "corpus:" + fn, "conv": "bytes", "lvl": c["lvl"], "ext": c["ext"], "plen": c["plen"], "pkind": "corpus",
                                   "payload": None, "din": None, "low": c["low"], "key": c["steps"][0]["key"], "inp": c["steps"][0].get("inp")}})
    # ... then the test-suite vectors: the captured frames, re-encrypted from their decrypted form
    for mgr, key, inp, ct, pt in TEST_VECTORS:
        cases.append({"mgr": mgr, "frame": pt, "set": None,
                      "steps": [{"op": "enc", "key": key, "inp": inp, "via": "bytes"}, {"op": "dec", "key": key, "inp": inp, "via": "bytes"}],
                      "meta": {"tag": "test-vector", "conv": "bytes", "lvl": 0, "ext": 1, "plen": -1, "pkind": "captured", "expect_frame": ct,
                               "din": None, "low": 9 if mgr == "nwk" else 17, "key": key, "inp": inp, "payload": None}})
        # ... and the captured (encrypted) frame itself must be accepted and give the expected bytes
        cases.append({"mgr": mgr, "frame": ct, "set": None,
                      "steps": [{"op": "dec", "key": key, "inp": inp, "via": "bytes"}],
                      "meta": {"tag": "test-vector-dec", "conv": "bytes", "lvl": 0, "ext": 1, "plen": -1, "pkind": "captured", "expect_frame": pt,
                               "din": None, "low": 9 if mgr == "nwk" else 17, "key": key, "inp": inp, "payload": None}})
    # the witnesses of the repaired defect (DESIGN §3 row 14): test frame 1, explicit levels, short colliding payloads
    hdr = bytes.fromhex("618864472400008a5c480200008a5c1e5d28e1000000013ce801008d150001")
    for lvl in (5, 6, 7, 0):
        for pl in ("00", "8a", "01", "5c1e", "", "e1", "2d", "00" * 17, "000112000401016218c30a5500210100ac4c76af"):
            f = Fr("nwk", hdr[:9], hdr[9:17], 0, 1, lvl, 0xe1, hdr[22:30], 1, b"", b"")
            f.payload, f.pkind = bytes.fromhex(pl), "witness"
            add(f, bytes.fromhex(TEST_VECTORS[0][1]), None, "bytes", "bytes", "witness")
            if lvl != 0:
                add(f, bytes.fromhex(TEST_VECTORS[0][1]), None, "built", "bytes", "witness")
    n = 900 if ctx.thorough else 110
    for i in range(n):
        mgr = "nwk" if rng.random() < 0.6 else "aps"
        f = gen_secured(rng, mgr)
        key = rb(rng, 16)
        inp = aps_input_for(rng, f.kt) if mgr == "aps" else None
        conv = "built-mic" if rng.random() < 0.12 else "bytes" if (f.lvl == 0 or rng.random() < 0.5) else "built"
        add(f, key, inp, conv, rng.choice(["bytes", "bytes", "obj"]), "random")
    # every payload length 0..80 at each level (contents colliding with the header half of the time)
    lens = range(0, 81) if ctx.thorough else list(range(0, 9)) + [15, 16, 17, 31, 32, 33, 47, 48, 49, 64, 79, 80]
    for lvl in (0, 5, 6, 7, 1, 2, 3):
        for ln in (lens if lvl in (0, 5, 6, 7) or ctx.thorough else [0, 1, 2, 3, 4, 5, 8, 15, 16, 17, 33, 80]):
            f = gen_secured(rng, "nwk" if ln % 2 else "aps", lvl=lvl, n=ln, pkind=rng.choice(["random", "hdrsub", "zeros"]))
            add(f, rb(rng, 16), aps_input_for(rng, f.kt) if f.mgr == "aps" else None,
                "bytes" if lvl == 0 or ln % 3 else "built", "bytes", "length-sweep")
    # level 4 (encryption only): the code raises ValueError (AES.new(mac_len=0)); modelled, compared, never accepted
    for ln in (0, 1, 18, 40):
        for mgr in ("nwk", "aps"):
            f = gen_secured(rng, mgr, lvl=4, n=ln, pkind="random")
            add(f, rb(rng, 16), aps_input_for(rng, f.kt) if mgr == "aps" else None, rng.choice(["bytes", "built"]), "bytes", "level4")
    # frames WITHOUT the extended-nonce flag (known finding: the nonce takes payload bytes as the source)
    for i in range(60 if ctx.thorough else 16):
        mgr = "aps" if i % 2 else "nwk"
        f = gen_secured(rng, mgr, lvl=[0, 5, 6, 7, 1, 2, 3, 5][i % 8], n=[0, 1, 2, 3, 6, 7, 8, 9, 20, 40][i % 10], ext=0)
        add(f, rb(rng, 16), aps_input_for(rng, f.kt) if mgr == "aps" else None,
            "bytes" if f.lvl == 0 or i % 3 else "built", "bytes", "no-ext")
    # sequences through ONE manager instance: frames of one key, on-air level 0 and explicit levels interleaved
    seq_plans = []
    for si in range(24 if ctx.thorough else 6):
        mgr = "aps" if si % 3 == 2 else "nwk"
        key = rb(rng, 16)
        kt = rng.choice([0, 2, 3]) if mgr == "aps" else None
        inp = aps_input_for(rng, kt) if mgr == "aps" else None
        idx = []
        for j in range(rng.randrange(5, 9)):
            lvl = 0 if j % 2 == (si % 2) else rng.choice([5, 5, 6, 7, 6, 7, 1, 2, 3, 4] if rng.random() < 0.35 else [5, 6, 7])
            f = gen_secured(rng, mgr, lvl=lvl, kt=kt, n=rng.choice([0, 1, 3, 5, 8, 17, 40]), ext=0 if rng.random() < 0.05 else 1)
            conv = "bytes" if lvl == 0 else rng.choice(["built", "built", "bytes", "built-mic"])
            idx.append(len(cases))
            add(f, key, inp, conv, "bytes", "seq-item")
        seq_plans.append({"mgr": mgr, "key": key.hex(), "inp": inp, "idx": idx})
    return cases, seq_plans


def flips_for(rng, frame_hex, low, nbits=None):
    b = bytes.fromhex(frame_hex)
    bits = list(range(low * 8, len(b) * 8))
    if nbits is not None and nbits < len(bits):
        bits = sorted(rng.sample(bits, nbits))
    out = []
    for i in bits:
        m = bytearray(b); m[i // 8] ^= 1 << (i % 8)
        out.append((i - low * 8, bytes(m).hex()))
    return out


# ---------------------------------------------------------------------------
# NWK histories
# ---------------------------------------------------------------------------

def gen_history_plans(ctx):
    """A plan = configuration + list of genuine events to encrypt in phase 1 + a delivery schedule."""
    rng, plans = ctx.rng, []
    n = 60 if ctx.thorough else 14
    for hi in range(n):
        nkeys = rng.choice([1, 2, 2])
        seqs = rng.sample(range(0, 256), 3)
        keys = [(rb(rng, 16), seqs[i]) for i in range(nkeys)]
        rogue = (rb(rng, 16), seqs[0])                 # unregistered key announcing a registered sequence number
        senders = [rb(rng, 8) for _ in range(rng.choice([1, 2, 3]))]
        level = 5 if hi % 7 else 0
        cfg = {"level": level if hi != 3 else rng.choice([6, 7]), "all_fresh": (hi % 5 != 4), "secure_all": bool(hi % 2),
               "keys": [[k.hex(), s] for k, s in keys]}
        events = []
        base = rng.choice([0, 1, 5, 1000, 0xFFFFFFF0, 0xFFFFFFFD])
        counters = {}
        for _ in range(rng.randrange(4, 10)):
            s = rng.randrange(len(senders))
            ki = rng.randrange(nkeys)
            c = counters.get((s, ki), base + rng.randrange(0, 3))
            r = rng.random()
            if r < 0.55:
                c2 = c + 1
            elif r < 0.75:
                c2 = c + rng.randrange(2, 50)
            elif r < 0.9:
                c2 = max(0, c - rng.randrange(1, 4))
            else:
                c2 = c
            c2 = min(c2, 0xFFFFFFFF)
            counters[(s, ki)] = max(c, c2)
            events.append({"sender": s, "key": ki, "fc": c2, "lvl": rng.choice([0, 5, 5, 5, 6, 7, 1, 2, 3]),
                           "ft": rng.choice([0, 0, 1, 1, 2] if rng.random() < 0.3 else [0, 1])})
        if base >= 0xFFFFFFF0:
            events.append({"sender": 0, "key": 0, "fc": 0xFFFFFFFF, "lvl": 5, "ft": 0})
            events.append({"sender": 0, "key": 0, "fc": 0, "lvl": 5, "ft": 0})
            events.append({"sender": 0, "key": 0, "fc": 1, "lvl": 5, "ft": 1})
        events.append({"sender": 0, "key": "rogue", "fc": min(counters.get((0, 0), base) + 7, 0xFFFFFFFF), "lvl": 5, "ft": 0})
        events.append({"sender": 0, "key": 0, "fc": min(counters.get((0, 0), base) + 9, 0xFFFFFFFF), "lvl": 5, "ft": 0, "kseq": seqs[2]})   # unknown sequence number
        # a key that is not provisioned at the start: added by a management operation in the schedule; one time in three it
        # announces the sequence number of an already provisioned key (then it stays shadowed by that key)
        late = (rb(rng, 16), seqs[0] if hi % 3 == 0 else seqs[1] if nkeys == 1 else rng.choice([s_ for s_ in range(256) if s_ not in seqs]))
        for _ in range(2):
            events.append({"sender": rng.randrange(len(senders)), "key": "late", "fc": min(base + rng.randrange(1, 40), 0xFFFFFFFF), "lvl": rng.choice([0, 5, 6]), "ft": rng.choice([0, 1])})
        # key material REPLACED under the same sequence number (NLME-SET / cold NLME-RESET + new key): frames under the new key
        repl = (rb(rng, 16), seqs[0])
        for _ in range(2):
            events.append({"sender": rng.randrange(len(senders)), "key": "repl", "fc": min(base + rng.randrange(1, 60), 0xFFFFFFFF), "lvl": rng.choice([0, 5, 5, 6]), "ft": rng.choice([0, 1])})
        plans.append({"cfg": cfg, "keys": keys, "rogue": rogue, "late": late, "repl": repl, "senders": senders, "events": events})
    # many distinct senders between a frame and its replay (the counter table must not forget a silent device):
    # victim frame, one authentic frame from each of N other devices under the same key, replay of the victim frame
    for nothers in ([70, 130, 64, 65, 200] if ctx.thorough else [70]):
        k, sq = rb(rng, 16), rng.randrange(256)
        senders = [rb(rng, 8) for _ in range(nothers + 1)]
        events = ([{"sender": 0, "key": 0, "fc": 10, "lvl": 5, "ft": 0, "n": 1}]
                  + [{"sender": j, "key": 0, "fc": rng.choice([0, 1, 7]), "lvl": 5, "ft": rng.choice([0, 1]), "n": rng.choice([0, 1, 2])} for j in range(1, nothers + 1)]
                  + [{"sender": 0, "key": 0, "fc": 11, "lvl": 5, "ft": 0, "n": 2}])
        plans.append({"cfg": {"level": 5, "all_fresh": True, "secure_all": False, "keys": [[k.hex(), sq]]}, "keys": [(k, sq)],
                      "rogue": (rb(rng, 16), sq), "late": (rb(rng, 16), (sq + 1) % 256), "senders": senders, "events": events, "many": nothers})
    return plans


def plan_enc_cases(rng, plan):
    """phase-1 encrypt cases for the genuine events of a plan (built the way NWKDataService builds them)."""
    out = []
    for ev in plan["events"]:
        key, seq = (plan["rogue"] if ev["key"] == "rogue" else plan["late"] if ev["key"] == "late" else plan["repl"] if ev["key"] == "repl"
                    else plan["keys"][ev["key"]])
        f = gen_secured(rng, "nwk", lvl=ev["lvl"], kt=1, ft=ev["ft"], fc=ev["fc"], src=plan["senders"][ev["sender"]],
                        kseq=ev.get("kseq", seq), n=ev.get("n", rng.choice([0, 1, 2, 5, 20])), rich=False)
        M = M_OF[f.lvl]
        if f.lvl == 0:
            g = Fr("nwk", f.low, f.pre, 0, 1, 0, f.fc, f.src, f.kseq, f.payload + rb(rng, M), b"")
            out.append({"mgr": "nwk", "frame": g.frame().hex(), "set": None,
                        "steps": [{"op": "enc", "key": key.hex(), "inp": None, "via": "bytes"}], "payload": f.payload.hex()})
        else:
            g = Fr("nwk", f.low, f.pre, 0, 1, f.lvl, f.fc, f.src, f.kseq, b"", b"")
            out.append({"mgr": "nwk", "frame": g.frame().hex(), "set": {"data": f.payload.hex(), "mic": ""},
                        "steps": [{"op": "enc", "key": key.hex(), "inp": None, "via": "obj"}], "payload": f.payload.hex()})
    return out


def plan_schedule(rng, plan, enc_frames):
    """delivery schedule: genuine frames in order with replays, reorderings, tampered and unsecured frames.
    Each entry: (frame hex, kind, event index or None)"""
    idx = list(range(len(enc_frames)))
    if plan.get("many"):
        n = plan["many"]
        return ([(enc_frames[0], "genuine", 0)] + [(enc_frames[i], "genuine", i) for i in range(1, n + 1)]
                + [(enc_frames[0], "replay", 0), (enc_frames[n + 1], "genuine", n + 1), (enc_frames[1], "replay", 1), (enc_frames[0], "old", 0)])
    sched = []
    for i in idx:
        sched.append((enc_frames[i], "genuine", i))
        r = rng.random()
        if r < 0.3:
            sched.append((enc_frames[i], "replay", i))
        elif r < 0.45 and i > 0:
            j = rng.randrange(0, i)
            sched.append((enc_frames[j], "old", j))
        elif r < 0.6:
            b = bytearray(bytes.fromhex(enc_frames[i]))
            k = rng.randrange(17 * 8, len(b) * 8)     # security header, payload or MIC (MAC 9 + NWK 8 header bytes before)
            b[k // 8] ^= 1 << (k % 8)
            sched.append((bytes(b).hex(), "tampered", i))
        elif r < 0.7:
            low = mac_hdr(rng)
            ft = rng.choice([0, 1])
            sched.append(((low + nwk_hdr(rng, ft, False, False) + rb(rng, rng.randrange(3, 12))).hex(), "unsecured", None))
    if rng.random() < 0.5:
        rng.shuffle(sched)
    if rng.random() < 0.5:   # a level-4 frame (AES.new raises for mac_len 0)
        b = bytearray(bytes.fromhex(enc_frames[0]))
        b[17] = (b[17] & 0xF8) | 4
        sched.insert(rng.randrange(len(sched) + 1), (bytes(b).hex(), "level4", 0))
    # truncated copies of genuine frames: everything after the security header removed, and the MIC cut short
    for _ in range(2):
        i = rng.randrange(len(enc_frames))
        b = bytes.fromhex(enc_frames[i])
        cut = 31 if rng.random() < 0.5 else max(31, len(b) - rng.randrange(1, M_OF[plan["events"][i]["lvl"]] + 1))   # 9 MAC + 8 NWK + 14 security header bytes
        sched.insert(rng.randrange(len(sched) + 1), (b[:cut].hex(), "truncated", i))
    # ---- management operations on the NWK manager, interleaved with the frames ----
    def mg(op, **kw):
        return (dict(kw, mgmt=op), "mgmt", None)
    def genuine_of(keyref):
        return [(enc_frames[i], "replay", i) for i, ev in enumerate(plan["events"]) if ev["key"] == keyref and "kseq" not in ev]
    late_k, late_s = plan["late"]
    first_late = min([j for j, e in enumerate(sched) if e[2] is not None and plan["events"][e[2]]["key"] == "late"] or [len(sched)])
    sched.insert(rng.randrange(0, first_late + 1) if rng.random() < 0.7 else min(len(sched), first_late + 1), mg("add_key", key=late_k.hex(), seq=late_s))
    k0, s0 = plan["keys"][0]
    half = len(sched) // 2
    # an already provisioned key again (same sequence number, then another one): must change nothing ...
    sched.insert(rng.randrange(half, len(sched) + 1), mg("add_key", key=k0.hex(), seq=s0))
    sched.insert(rng.randrange(0, len(sched) + 1), mg("add_key", key=k0.hex(), seq=(s0 + 1 + rng.randrange(200)) % 256))
    sched.insert(rng.randrange(0, len(sched) + 1), mg("set_active", seq=rng.choice([s0, late_s, rng.randrange(256)])))
    # ... in particular not the counters: everything accepted so far is replayed after one more add_key of the known key
    sched.append(mg("add_key", key=k0.hex(), seq=s0))
    sched += genuine_of(0)[:6]
    if len(plan["keys"]) > 1 and rng.random() < 0.7:
        # remove a key (its frames are then refused), provision it again (empty counter table: earlier frames are acceptable again, once)
        k1, s1 = plan["keys"][1]
        sched.append(mg("remove_key", key=k1.hex()))
        sched += genuine_of(1)[:2]
        sched.append(mg("add_key", key=k1.hex(), seq=s1))
        sched += genuine_of(1)[:2] + genuine_of(1)[:1]
    if rng.random() < 0.5:
        sched.append(mg("set_active", seq=late_s))
        sched += genuine_of("late")[:1] + genuine_of(0)[:1]
    if "repl" in plan:
        # the material of key 0 replaced by another key under the SAME sequence number: afterwards the frames under the new key must be
        # delivered and every frame under the old key refused
        kr, sr = plan["repl"]
        how = rng.choice(["remove", "set", "reset"])
        sched += [mg("remove_key", key=k0.hex())] if how == "remove" else [mg("clear_keys", how=how)]
        sched.append(mg("add_key", key=kr.hex(), seq=sr))
        sched += genuine_of("repl") + genuine_of(0)[:3] + genuine_of("repl")[:1]
    return sched


# ---------------------------------------------------------------------------
# APS receive histories (EXTENSION: APSManager.decrypt / on_nlde_data)
# ---------------------------------------------------------------------------
CANON_INPUT = {0: None, 2: 0, 3: 2}


def gen_aps_plans(ctx):
    rng, plans = ctx.rng, []
    for hi in range(40 if ctx.thorough else 10):
        senders = [rb(rng, 8) for _ in range(2)]
        stranger = rb(rng, 8)
        amap = [[senders[0].hex(), 1], [senders[1].hex(), 2]] if hi % 4 else [[senders[0].hex(), 1]]
        k1, k2, kpre, krogue = rb(rng, 16), rb(rng, 16), rb(rng, 16), rb(rng, 16)
        kps = [[None, kpre.hex()], [1, k1.hex()]] + ([[2, k2.hex()]] if hi % 3 else []) + ([[1, rb(rng, 16).hex()]] if hi % 2 else [])
        if hi % 5 == 4:
            kps = [kps[1], kps[0]] + kps[2:]
        if hi % 4 == 1:       # a wrong candidate key for sender 1 BEFORE the right one: the same NSDU object is tried under both
            kps = [[1, rb(rng, 16).hex()]] + kps
        events = []
        for _ in range(rng.randrange(4, 9)):
            who = rng.choice([0, 0, 1, 2])
            src = (senders + [stranger])[who]
            key = rng.choice({0: [k1, k1, kpre], 1: [k2, kpre], 2: [kpre, kpre, k1]}[who] + [krogue])
            kt = rng.choice([0, 2, 2, 3, 3, 1])
            inp = CANON_INPUT.get(kt, None)
            if rng.random() < 0.15:
                inp = rng.choice([None, 0, 2, 1])
            events.append({"src": src, "key": key, "kt": kt, "inp": inp, "lvl": rng.choice([0, 5, 5, 6, 7, 1, 2, 3, 4] if rng.random() < 0.3 else [0, 5]),
                           "ext": 0 if rng.random() < 0.1 else 1, "cmd": rng.random() < 0.5})
        plans.append({"map": amap, "kps": kps, "events": events})
    return plans


def aps_plan_enc_cases(rng, plan):
    out = []
    for ev in plan["events"]:
        f = gen_secured(rng, "aps", lvl=ev["lvl"], kt=ev["kt"], src=ev["src"], n=rng.choice([0, 1, 3, 9, 30]), rich=False, ext=ev["ext"])
        f.pre = aps_hdr(rng, "command" if ev["cmd"] else "data")
        M = M_OF[f.lvl]
        if f.lvl == 0:
            g = Fr("aps", f.low, f.pre, 0, f.kt, 0, f.fc, f.src, f.kseq, f.payload + rb(rng, M), b"", f.ext)
            out.append({"mgr": "aps", "frame": g.frame().hex(), "set": None,
                        "steps": [{"op": "enc", "key": ev["key"].hex(), "inp": ev["inp"], "via": "bytes"}]})
        else:
            g = Fr("aps", f.low, f.pre, 0, f.kt, f.lvl, f.fc, f.src, f.kseq, b"", b"", f.ext)
            out.append({"mgr": "aps", "frame": g.frame().hex(), "set": {"data": f.payload.hex(), "mic": ""},
                        "steps": [{"op": "enc", "key": ev["key"].hex(), "inp": ev["inp"], "via": "obj"}]})
        ev["low"] = len(f.low)
    return out


def aps_schedule(rng, plan, encs):
    sched = []
    for i, fh in enumerate(encs):
        if fh is None:
            continue
        sched.append((fh, "genuine", i))
        r = rng.random()
        if r < 0.4:
            sched.append((fh, "replay", i))
        elif r < 0.6:
            b = bytearray(bytes.fromhex(fh))
            low = plan["events"][i]["low"]
            k = rng.randrange(low * 8, len(b) * 8)
            b[k // 8] ^= 1 << (k % 8)
            sched.append((bytes(b).hex(), "tampered", i))
        elif r < 0.75:
            low = mac_hdr(rng) + nwk_hdr(rng, 0, False, False)
            kind = rng.choice(["data", "command", "ack"])
            hdr = {"data": bytes([0x00]) + rb(rng, 7), "command": bytes([0x01]) + rb(rng, 1), "ack": bytes([0x02]) + rb(rng, 7)}[kind]
            sched.append(((low + hdr + rb(rng, rng.randrange(1, 9))).hex(), "plain", None))
    if rng.random() < 0.5:
        rng.shuffle(sched)
    return sched


def aps_candidates(plan, d):
    """APSKeyPairSet.select as a specification of which keys may authenticate the sender"""
    short = None
    if d.get("ext") == 1:
        for a, sh in plan["map"]:
            if a == d["src"]:
                short = sh
    match = [k for a, k in plan["kps"] if a == short]
    return match if match else [k for a, k in plan["kps"] if a is None]


def coq_aps_history(plan, steps):
    st = "(mkAps %s %s)" % (clist(["(%s, %d)" % (cbytes(bytes.fromhex(a)), sh) for a, sh in plan["map"]]),
                            clist(["(mkKp %s %s)" % ("None" if a is None else "(Some %d)" % a, cbytes(bytes.fromhex(k))) for a, k in plan["kps"]]))
    items = []
    for r in steps:
        d = r["in"]
        if d.get("nosec"):
            raw = bytes.fromhex(r["in_raw"])
            p = "(ApsPlain %d %s)" % (raw[0] & 3, cbytes(raw))
        else:
            p = "(ApsSecured %s)" % coq_frame(d)
        if "exc" in r:
            o = "(ObsARaised %s)" % cstr(r["exc"])
        elif not r["up"]:
            o = "ObsANothing"
        else:
            u = r["up"][0]
            sv = 0 if u["svc"] == "data" else 1
            o = "(ObsAUpSecured %d %s)" % (sv, coq_frame(u["dis"])) if u["sec"] else "(ObsAUpPlain %d %s)" % (sv, cbytes(bytes.fromhex(u["raw"])))
        items.append("(%s, %s)" % (p, o))
    return "(%s, %s)" % (st, clist(items))


# ---------------------------------------------------------------------------
# Coq literals
# ---------------------------------------------------------------------------

def coq_crypt_case(step, is_enc):
    d_in, key = step["in"], bytes.fromhex(step["key_used"])
    if "exc" in step:
        obs = "(Some %s, None, %s)" % (cstr(step["exc"]), coq_frame(d_in))
    else:
        st = "None" if step["status"] is None else "(Some %s)" % cbool(step["status"])
        obs = "(None, %s, %s)" % (st, coq_frame(step["out"]))
    return "(%s, %s, %s, %s, %s)" % (cbool(is_enc), cbytes(key), coq_frame(d_in), cbytes(bytes.fromhex(d_in["raw"])), obs)


def coq_table(tables):
    return clist(["(%d, %s)" % (seq, clist(["(%s, %d)" % (cbytes(bytes.fromhex(a or "")), c) for a, c in t])) for seq, t in tables])


def coq_ktables(kt):
    return clist(["(%d, %s, %s)" % (seq, cbytes(bytes.fromhex(key)), clist(["(%s, %d)" % (cbytes(bytes.fromhex(a or "")), c) for a, c in t]))
                  for seq, key, t in kt])


def coq_history(cfg, sched, steps, sparse=False):
    mats = clist(["(mkMat %d %s [])" % (s, cbytes(bytes.fromhex(k))) for k, s in cfg["keys"]])
    st = "((mkNwk %d %s %s %s), 0)" % (cfg["level"], cbool(cfg["all_fresh"]), cbool(cfg["secure_all"]), mats)
    items = []
    for (item, kind, _ei), r in zip(sched, steps):
        if kind == "mgmt":
            m = ("(AddKey %s %d)" % (cbytes(bytes.fromhex(item["key"])), item["seq"]) if item["mgmt"] == "add_key" else
                 "(SetActive %d)" % item["seq"] if item["mgmt"] == "set_active" else "ClearKeys" if item["mgmt"] == "clear_keys"
                 else "(RemoveKey %s)" % cbytes(bytes.fromhex(item["key"])))
            items.append("(HMgmt %s, ObsNone, %d, (Some %s))" % (m, r["active"], coq_ktables(r["ktables"])))
            continue
        d = r["in"]
        if d.get("nosec"):
            raw = bytes.fromhex(r["in_raw"])
            p = "(Unsecured %d %s %s)" % (raw[0] & 3, cbool(bool(d.get("other_sec"))), cbytes(raw))
        else:
            p = "(Secured %s)" % coq_frame(d)
        if "exc" in r:
            o = "(ObsRaised %s)" % cstr(r["exc"])
        elif not r["up"]:
            o = "ObsNone"
        else:
            u = r["up"][0]
            if u["sec"]:
                o = "(ObsUpSecured %d %s)" % (SVC[u["svc"]], coq_frame(u["dis"]))
            else:
                o = "(ObsUpPlain %d %s)" % (SVC[u["svc"]], cbytes(bytes.fromhex(u["raw"])))
        # long many-sender histories: the (large) tables are compared after every 16th item and after the last three
        kt = "None" if sparse and len(items) % 16 and len(items) < len(steps) - 3 else "(Some %s)" % coq_ktables(r["ktables"])
        items.append("(HPdu %s, %s, %d, %s)" % (p, o, r["active"], kt))
    return "(%s, %s)" % (st, clist(items))


PRE = "From Whad Require Import Lib.Bytes Lib.Xor Lib.Aes Lib.Ccm C17.Model.\nOpen Scope string_scope.\nOpen Scope N_scope."


# ---------------------------------------------------------------------------
# run
# ---------------------------------------------------------------------------

def run(ctx):
    C.build_dir(PID, clean=True)
    ctx.cov["trusted_base"] = [
        "Coq 8.16.1 kernel + vm_compute (no native_compute); every theorem closed under the global context (Print Assumptions checked each run)",
        "hand-written model coq/theories/C17/Model.v tied to whad/zigbee/crypto.py and NWKManager.decrypt/on_mcps_data by the correspondence of this run",
        "Section variable E (block cipher) with hypothesis E_length: forall k b, length (E k b) = 16 — instantiated by Lib/Aes.aes128_enc (aes128_enc_length proved; FIPS-197 vectors) for the evaluation; Cryptodome AES/CCM/CBC compared bit for bit on every case",
        "scapy build/dissect of ZigbeeNWK / ZigbeeAppDataPayload / ZigbeeSecurityHeader (modelled: field layout of the security header, post_dissect mic split, frametype bits); every case re-checks raw(base layer) against the model's serialisation",
        "tag collisions: acceptance of a modified frame or under another key is equivalent to equality of CCM tags (not excluded for an arbitrary E); formatting injectivity is proved, MAC unforgeability is not a theorem",
    ]
    ctx.assumptions = ["inverse / injectivity theorems: security header carries the 8-byte source (extended_nonce = 1); frames without it are modelled, their round trip is refuted (known finding)",
                       "key is 16 bytes (AES-128), frame counter < 2^32, lengths < 65536 for the injectivity statements",
                       "freshness theorems assume nwkAllFresh = True (the NWKIB default is False)"]
    proofs_ok, detail = ctx.check_proofs(lib_targets=["theories/Lib/Bytes.vo", "theories/Lib/Xor.vo", "theories/Lib/Aes.vo", "theories/Lib/Ccm.vo"])
    # generateNonce / generateAuth / extractCiphertextPayload regenerated from the source and proved equal to the
    # model (harness/translators/pyfun.py, theories/C17/{Gen,GenEq,PropertyGen}.v, design/PYTRANS.md)
    gen = pyfun_util.check_generated(ctx, PID)
    if not gen["ok"]:
        proofs_ok, detail = False, (detail if not proofs_ok else str(gen["what"])) + gen["detail"]
    ctx.log("proofs:", proofs_ok, detail.splitlines()[0][:200])
    rng = ctx.rng
    nviol = 0

    # ---- phase 1: encrypt + round trip on the real code ---------------------------------
    rt_cases, seq_plans = gen_roundtrip_cases(ctx)
    plans = gen_history_plans(ctx)
    plan_cases = []
    for p in plans:
        pc = plan_enc_cases(rng, p)
        p["first"], p["n"] = len(plan_cases), len(pc)
        plan_cases += pc
    aps_plans = gen_aps_plans(ctx)
    aps_plan_cases = []
    for p in aps_plans:
        pc = aps_plan_enc_cases(rng, p)
        p["first"], p["n"] = len(aps_plan_cases), len(pc)
        aps_plan_cases += pc
    hash_cases = []
    for n in list(range(0, 40)) + [47, 48, 49, 63, 64, 65]:
        hash_cases.append(["hash", rb(rng, n).hex()])
    for _ in range(12):
        hash_cases.append(["hash_key", rb(rng, 16).hex(), rng.choice([0, 1, 2, 0, 2, 255])])
    # known-finding witnesses of the corpus are replayed on the implementation on every run
    aps_data_cases = []
    cdir = os.path.join(C.VERIF, "corpus", PID)
    for fn in sorted(os.listdir(cdir)) if os.path.isdir(cdir) else []:
        w = json.load(open(os.path.join(cdir, fn)))
        if "aps_data" in w:
            aps_data_cases.append(dict(w["aps_data"], file=fn))
    for n in (0, 4, 5, 40):
        aps_data_cases.append({"asdu": rb(rng, n).hex(), "secured": True})
    req1 = {"crypt": [{k: c[k] for k in ("mgr", "frame", "set", "steps")} for c in rt_cases + plan_cases + aps_plan_cases], "hash": hash_cases,
            "aps_data": aps_data_cases}
    r1 = C.run_impl("C17.py", req1)
    aps_terms = []
    for c, r in zip(aps_data_cases, r1["aps_data"]):
        case = {"op": "aps-data-request", "aps_data": {k: c[k] for k in ("asdu", "secured")}}
        if "exc" in r:
            # class of the finding: the secured request raises IndexError out of CryptoManager.generateAuth
            key = KEY_APS_DATA if (r["exc"] == "IndexError" and r.get("where", "").endswith("crypto.py:generateAuth")) else None
            nviol += ctx.violation("APSDataService.data with security_enabled_transmission raised " + r["exc"], case, key=key,
                                   expected="an encrypted APS frame handed to the NWK layer", observed=r)
        # default link key of the APSIB (first pre-installed key), counter 0, no extended nonce: the model only needs the shape
        aps_terms.append("(%s, 0, [], %s, %s)" % (cbytes(bytes.fromhex("814286865dc1c8b2c8cbc52e5d65d1b8")), cbytes(bytes.fromhex(c["asdu"])),
                                                   "Some %s" % cstr(r["exc"]) if "exc" in r else "None"))
    res_rt = r1["crypt"][:len(rt_cases)]
    res_plan = r1["crypt"][len(rt_cases):len(rt_cases) + len(plan_cases)]
    res_aps_plan = r1["crypt"][len(rt_cases) + len(plan_cases):]
    ctx.log("phase 1: %d round-trip cases, %d history frames, %d hash cases" % (len(rt_cases), len(plan_cases), len(hash_cases)))

    crypt_terms, crypt_src = [], []     # Coq cases + where they came from
    dist = {"level": {}, "mgr": {}, "conv": {}, "plen": {}, "pkind": {}, "outcome": {}, "tamper_region": {}, "model_branch": {},
            "nonce_convention": {}, "level_x_nonce": {}}
    def bump(k, v, n=1):
        dist[k][str(v)] = dist[k].get(str(v), 0) + n
    def branch(step, is_enc):
        d = step["in"]
        if "exc" in step:
            bump("model_branch", "raise:" + step["exc"])
        elif is_enc:
            bump("model_branch", "enc:" + ("patched-mic-absent" if d["lvl"] == 0 and d["mic"] == "" else "patched-mic-present" if d["lvl"] == 0 else "level%d" % d["lvl"])
                 + (":kseq" if d["kt"] == 1 else ":nokseq"))
        else:
            bump("model_branch", "dec:" + ("patched-mic-absent" if d["lvl"] == 0 and d["mic"] == "" else "patched-mic-present" if d["lvl"] == 0 else "level%d" % d["lvl"])
                 + (":accept" if step["status"] else ":reject"))
    def add_terms(steps, ops, src):
        for st, op in zip(steps, ops):
            if "in" in st and in_model(st["in"]) and ("out" not in st or in_model(st["out"])):
                crypt_terms.append(coq_crypt_case(st, op == "enc")); crypt_src.append(src); branch(st, op == "enc")
            else:
                bump("model_branch", "outside-model")

    enc_ok = []     # (case index, encrypted frame hex, low length, key, inp, meta) for phase 2
    key_checks = []
    nontrivial = []
    for i, (c, steps) in enumerate(zip(rt_cases, res_rt)):
        m = c["meta"]
        case = {"op": "roundtrip", "mgr": c["mgr"], "frame": c["frame"], "set": c["set"], "steps": c["steps"], "tag": m["tag"]}
        bump("level", m["lvl"]); bump("mgr", c["mgr"]); bump("conv", m["conv"]); bump("pkind", m["pkind"])
        bump("nonce_convention", "extended-nonce" if m["ext"] else "no-extended-nonce")
        bump("level_x_nonce", "%d/%s" % (m["lvl"], "ext" if m["ext"] else "noext"))
        bump("plen", "0" if m["plen"] == 0 else "1-4" if 0 < m["plen"] <= 4 else "5-16" if m["plen"] <= 16 else ">16" if m["plen"] > 16 else "captured")
        add_terms(steps, [s["op"] for s in c["steps"]], ("rt", i))
        if c["mgr"] == "aps" and steps and "key_used" in steps[0]:
            key_checks.append((m["key"], m["inp"], steps[0]["key_used"]))
        s0 = steps[0]
        if m["tag"] == "test-vector-dec":
            if "exc" in s0 or s0["status"] is not True or s0["out_frame"] != m["expect_frame"]:
                nviol += ctx.violation("a captured frame is not decrypted to the expected bytes", case, expected={"status": True, "frame": m["expect_frame"]},
                                       observed={"exc": s0.get("exc"), "status": s0.get("status"), "frame": s0.get("out_frame")})
            bump("outcome", "captured-decrypt")
            continue
        if m["din"] is not None and "in" in s0 and not same_dis(s0["in"], m["din"]):
            ctx.notes.append("dissection disagreement (generator vs scapy) on case %d" % i)
            bump("outcome", "dissection-disagreement")
        in_scope = m["lvl"] in IN_SCOPE
        # class of the known finding: the security header has no extended-nonce source
        kf = KEY_NOEXT if not m["ext"] else None
        if "exc" in s0:
            bump("outcome", "enc-raise:" + s0["exc"] + ("" if m["ext"] else ":noext"))
            if in_scope:
                nviol += ctx.violation("encrypt raised " + s0["exc"], case, key=kf, observed=s0)
            continue
        if m["lvl"] in (1, 2, 3) and s0["out"]["data"] != expected_plaintext(s0["in"]).hex():
            nviol += ctx.violation("integrity-only level: the payload does not stay in clear", case,
                                   expected=expected_plaintext(s0["in"]).hex(), observed=s0["out"]["data"])
        if m["tag"] == "test-vector" and s0["out_frame"] != m["expect_frame"]:
            nviol += ctx.violation("re-encryption of a captured frame differs from the capture", case, expected=m["expect_frame"], observed=s0["out_frame"])
        if m["plen"] < 0:
            m["plen"] = len(expected_plaintext(s0["in"]))
        if in_scope and m["ext"]:
            enc_ok.append((i, s0["out_frame"], m["low"] if m["low"] is not None else None, m["key"], m["inp"], m))
        if len(steps) < 2:
            continue
        s1 = steps[1]
        if not in_scope:
            bump("outcome", "level4:" + ("raise" if "exc" in s1 else str(s1["status"])))
            continue
        exp = expected_plaintext(s0["in"]).hex()
        if "exc" in s1 or s1["status"] is not True or s1["out"]["data"] != exp:
            bump("outcome", "roundtrip-FAIL" + ("" if m["ext"] else ":noext"))
            nviol += ctx.violation("decrypt(encrypt(frame)) under the same key is not accepted with the original payload", case, key=kf,
                                   expected={"status": True, "data": exp},
                                   observed={"exc": s1.get("exc"), "status": s1.get("status"), "data": (s1.get("out") or {}).get("data")})
        else:
            bump("outcome", "roundtrip-ok" + ("" if m["ext"] else ":noext"))
            if s1["out"]["pre"] != s0["in"]["pre"] or s1["out"]["lvl"] != s0["in"]["lvl"] or s1["out"]["fc"] != s0["in"]["fc"] or s1["out"]["src"] != s0["in"]["src"]:
                nviol += ctx.violation("round trip changed the header", case, expected=s0["in"], observed=s1["out"])
            nontrivial.append(["rt", c["frame"], c["set"], m["key"], m["inp"]])

    # ---- phase 2: tampered / wrong-key decrypts and NWK histories -------------------------
    tam_cases, tam_meta = [], []
    sweep_budget = 70 if ctx.thorough else 7
    pool = [e for e in enc_ok if e[2] is not None]
    rng.shuffle(pool)
    # full single-bit sweeps on a few frames (short ones first so that every header bit is covered), sampled flips on the rest
    pool.sort(key=lambda e: (e[5]["plen"] > 6,))
    seen_combo, full_set = set(), set()
    for e in pool:           # one short frame per level first, then per (level, manager), then whatever comes
        if e[5]["lvl"] not in seen_combo and len(full_set) < sweep_budget:
            seen_combo.add(e[5]["lvl"]); full_set.add(e[0])
    for e in pool:
        combo = (e[5]["lvl"], rt_cases[e[0]]["mgr"])
        if combo not in seen_combo and len(full_set) < sweep_budget:
            seen_combo.add(combo); full_set.add(e[0])
    for e in pool:
        if len(full_set) < sweep_budget:
            full_set.add(e[0])
    corr_full = set(sorted(full_set)[:1])
    for k, (i, fhex, low, key, inp, m) in enumerate(pool):
        full = i in full_set
        nb = None if full else (6 if ctx.thorough else 2)
        mgr = rt_cases[i]["mgr"]
        total = len(bytes.fromhex(fhex)) - low
        M = M_OF[m["lvl"]]
        for bit, mh in flips_for(rng, fhex, low, nb):
            byte = bit // 8
            region = "mic" if byte >= total - M else "payload" if byte >= total - M - m["plen"] else "header"
            tam_cases.append({"mgr": mgr, "frame": mh, "set": None, "steps": [{"op": "dec", "key": key, "inp": inp, "via": "bytes"}]})
            tam_meta.append({"kind": "flip", "bit": bit, "region": region, "src": i, "orig": fhex})
        # wrong key: unrelated, and one bit away
        for wk, kind in ((rb(rng, 16).hex(), "wrong-key"), ((int(key, 16) ^ (1 << rng.randrange(128))).to_bytes(16, "big").hex(), "key-1bit")):
            tam_cases.append({"mgr": mgr, "frame": fhex, "set": None, "steps": [{"op": "dec", "key": wk, "inp": inp, "via": "bytes"}]})
            tam_meta.append({"kind": kind, "src": i, "orig": fhex})
        if mgr == "aps" and inp is not None:    # right link key, wrong derivation input
            tam_cases.append({"mgr": mgr, "frame": fhex, "set": None, "steps": [{"op": "dec", "key": key, "inp": (inp + 1) % 3, "via": "bytes"}]})
            tam_meta.append({"kind": "wrong-input", "src": i, "orig": fhex})
    # tamper class "truncation": the encrypted frame with its MIC shortened by 1..M bytes, and with only 0..M-1 bytes left after the
    # security header (0 = payload and MIC removed entirely); as bytes, and as a packet object whose mic field is short
    trunc_levels = {}
    for (i, fhex, low, key, inp, m) in pool:
        lk = (m["lvl"], rt_cases[i]["mgr"])
        if trunc_levels.get(lk, 0) >= (6 if ctx.thorough else 1):
            continue
        trunc_levels[lk] = trunc_levels.get(lk, 0) + 1
        o = res_rt[i][0]["out"]
        b = bytes.fromhex(fhex)
        trailer = (len(o["data"]) + len(o["mic"])) // 2
        hdr_end = len(b) - trailer
        M = M_OF[m["lvl"]]
        cuts = sorted({len(b) - j for j in range(1, M + 1) if len(b) - j >= hdr_end} | {hdr_end + t for t in range(0, min(M, trailer + 1))})
        for cut in cuts:
            tam_cases.append({"mgr": rt_cases[i]["mgr"], "frame": b[:cut].hex(), "set": None, "steps": [{"op": "dec", "key": key, "inp": inp, "via": "bytes"}]})
            tam_meta.append({"kind": "truncate", "src": i, "orig": fhex, "left": cut - hdr_end})
        for t in sorted({0, 1, M - 1}):
            tam_cases.append({"mgr": rt_cases[i]["mgr"], "frame": b[:hdr_end].hex(), "set": {"data": o["data"], "mic": o["mic"][:2 * t]},
                              "steps": [{"op": "dec", "key": key, "inp": inp, "via": "obj"}]})
            tam_meta.append({"kind": "truncate-object", "src": i, "orig": fhex, "left": t})
    # the SAME packet object decrypted under a wrong key first, then under the right key; and through ZigbeeDecryptor key rings
    redec_cases, redec_meta, ring_reqs, ring_meta = [], [], [], []
    for k, (i, fhex, low, key, inp, m) in enumerate(pool[:(400 if ctx.thorough else 30)]):
        mgr = rt_cases[i]["mgr"]
        wrong = rb(rng, 16).hex()
        redec_cases.append({"mgr": mgr, "frame": fhex, "set": None,
                            "steps": [{"op": "dec", "key": wrong, "inp": inp, "via": "bytes"}, {"op": "dec", "key": key, "inp": inp, "via": "obj"}]})
        redec_meta.append({"src": i})
        if mgr == "nwk" or inp in (0, 1, 2):
            ring = [rb(rng, 16).hex() for _ in range(rng.choice([1, 1, 2]))] + ([key] if k % 5 else [])
            if k % 5:       # reference: the key alone (the decryptor then dissects the payload, which may raise for arbitrary bytes)
                ring_reqs.append({"mgr": mgr, "keys": [key], "frame": fhex})
                ring_meta.append({"src": i, "has_key": True, "ref": None})
            ring_reqs.append({"mgr": mgr, "keys": ring, "frame": fhex})
            ring_meta.append({"src": i, "has_key": bool(k % 5), "ref": len(ring_reqs) - 2 if k % 5 else None})
    hist_reqs, hist_sched = [], []
    for p in plans:
        encs = []
        ok = True
        for st in res_plan[p["first"]:p["first"] + p["n"]]:
            if "exc" in st[0]:
                ok = False
                nviol += ctx.violation("encrypt of a stack-built NWK frame raised " + st[0]["exc"], {"op": "roundtrip", "plan": p["cfg"]}, observed=st[0])
                break
            encs.append(st[0]["out_frame"])
        if not ok:
            continue
        for j, st in enumerate(res_plan[p["first"]:p["first"] + p["n"]]):
            add_terms(st, ["enc"], ("plan", p["first"] + j))
        sched = plan_schedule(rng, p, encs)
        hist_reqs.append(dict(p["cfg"], frames=[f for f, _k, _i in sched], direct=(len(hist_reqs) % 4 == 3)))
        hist_sched.append((p, sched))
    aps_reqs, aps_sched = [], []
    for p in aps_plans:
        encs = []
        for j, st in enumerate(res_aps_plan[p["first"]:p["first"] + p["n"]]):
            add_terms(st, ["enc"], ("aps-plan", p["first"] + j))
            encs.append(None if "exc" in st[0] else st[0]["out_frame"])     # level 4 / short nonce: encrypt raises, nothing to send
        sched = aps_schedule(rng, p, encs)
        aps_reqs.append({"map": p["map"], "kps": p["kps"], "frames": [f for f, _k, _i in sched]})
        aps_sched.append((p, sched))
    # one manager instance per plan: the encrypt calls of its frames and the decrypt calls of what a FRESH manager produced
    # for them in phase 1, interleaved; every call must give what the fresh manager gave (reference = phase 1)
    seq_reqs, seq_refs = [], []
    for sp in seq_plans:
        calls, refs = [], []
        for i in sp["idx"]:
            c, st = rt_cases[i], res_rt[i]
            calls.append({"op": "enc", "frame": c["frame"], "set": c["set"], "via": c["steps"][0]["via"]}); refs.append((i, 0))
        decs = [({"op": "dec", "frame": res_rt[i][0]["out_frame"], "set": None, "via": "bytes"}, (i, 1))
                for i in sp["idx"] if "exc" not in res_rt[i][0] and len(res_rt[i]) > 1]
        for k, (dc, ref) in enumerate(decs):       # spread the decrypts over the sequence
            pos = rng.randrange(0, len(calls) + 1)
            calls.insert(pos, dc); refs.insert(pos, ref)
        seq_reqs.append({"mgr": sp["mgr"], "key": sp["key"], "inp": sp["inp"], "calls": calls})
        seq_refs.append(refs)
    req2 = {"crypt": tam_cases + redec_cases, "nwk": hist_reqs, "aps": aps_reqs, "seq": seq_reqs, "ring": ring_reqs}
    r2 = C.run_impl("C17.py", req2)
    ctx.log("phase 2: %d tampered/wrong-key decrypts, %d NWK histories (%d frames)" % (len(tam_cases), len(hist_reqs), sum(len(h["frames"]) for h in hist_reqs)))

    # oracle: tamper evidence / wrong key
    tam_seen = 0
    n_changed = 0
    for c, steps, m in zip(tam_cases, r2["crypt"], tam_meta):
        st = steps[0]
        case = {"op": "tamper", "mgr": c["mgr"], "frame": c["frame"], "set": c.get("set"), "steps": c["steps"], "kind": m["kind"], "bit": m.get("bit"),
                "original": m["orig"], "bytes_left_after_header": m.get("left")}
        if m["kind"] == "flip":
            bump("tamper_region", m["region"])
        else:
            bump("tamper_region", "kind:" + m["kind"])
        # the oracle below sees every tamper case; the in-Coq correspondence takes all of them in the thorough tier and, in the
        # quick tier, the complete sweep of one frame plus every fifth of the other tamper cases (wall-clock budget)
        tam_seen += 1
        if ctx.thorough or (m["kind"] == "flip" and m["src"] in corr_full) or m["kind"].startswith("truncate") or tam_seen % 5 == 0:
            add_terms(steps, ["dec"], ("tamper", m["kind"]))
        if "exc" in st:
            bump("outcome", "tamper-rejected-by-" + st["exc"])
        elif st["status"] is True:
            bump("outcome", "tamper-ACCEPTED")
            nviol += ctx.violation("a frame modified in one bit / truncated / decrypted under another key is accepted (%s)" % m["kind"], case,
                                   expected={"status": False}, observed={"status": True, "data": st["out"]["data"]})
        else:
            bump("outcome", "tamper-rejected")
            nontrivial.append(["tam", c["frame"], c["steps"][0]["key"]])
            if st["out"].get("raw") != st["in"].get("raw"):
                n_changed += 1
                if n_changed <= 20:      # one replay file per case: the first 20 are enough
                    nviol += ctx.violation("a rejected decryption changed the packet object", case, expected=st["in"].get("raw"), observed=st["out"].get("raw"))

    # oracle: one packet object, wrong key first, then the right key
    rdist = {"redec": 0, "ring-with-key": 0, "ring-without-key": 0}
    for c, steps, m in zip(redec_cases, r2["crypt"][len(tam_cases):], redec_meta):
        case = {"op": "roundtrip", "mgr": c["mgr"], "frame": c["frame"], "set": None, "steps": c["steps"], "tag": "wrong-key-then-right-key-same-object"}
        add_terms(steps, ["dec", "dec"], ("redec", m["src"]))
        exp = expected_plaintext(res_rt[m["src"]][0]["in"]).hex()
        rdist["redec"] += 1
        s0 = steps[0]
        if "exc" in s0 or s0["status"] is not False:
            nviol += ctx.violation("decryption under an unrelated key is not rejected", case, observed={k_: s0.get(k_) for k_ in ("exc", "status")})
            continue
        if s0["out"]["raw"] != s0["in"]["raw"]:
            nviol += ctx.violation("a rejected decryption changed the packet object", case, expected=s0["in"]["raw"], observed=s0["out"]["raw"])
        s1 = steps[1] if len(steps) > 1 else {"exc": "missing"}
        if "exc" in s1 or s1["status"] is not True or s1["out"]["data"] != exp:
            nviol += ctx.violation("after a failed decryption under another key, the same packet object is not decrypted under the right key", case,
                                   expected={"status": True, "data": exp}, observed={"exc": s1.get("exc"), "status": s1.get("status"), "data": (s1.get("out") or {}).get("data")})
        else:
            nontrivial.append(["redec", c["frame"], c["steps"][0]["key"]])
    ring_terms = []
    for q, r, m in zip(ring_reqs, r2["ring"], ring_meta):
        case = {"op": "ring", "ring": q}
        exp = expected_plaintext(res_rt[m["src"]][0]["in"]).hex()
        rdist["ring-with-key" if m["has_key"] else "ring-without-key"] += 1
        if m.get("ref") is not None:
            ref = r2["ring"][m["ref"]]
            if (r.get("exc"), r.get("success"), r.get("object_data")) != (ref.get("exc"), ref.get("success"), ref.get("object_data")):
                nviol += ctx.violation("ZigbeeDecryptor: wrong keys tried first on the same packet object change the result of the right key", case,
                                       expected={k_: ref.get(k_) for k_ in ("exc", "success", "object_data")},
                                       observed={k_: r.get(k_) for k_ in ("exc", "success", "object_data")})
        if "exc" in r:
            rdist["ring-payload-dissection-raised:" + r["exc"]] = rdist.get("ring-payload-dissection-raised:" + r["exc"], 0) + 1
            continue
        if m["has_key"]:
            if not r["success"] or r.get("object_data") != exp:
                nviol += ctx.violation("ZigbeeDecryptor with the right key behind wrong ones does not decrypt the frame", case,
                                       expected={"success": True, "data": exp}, observed={"success": r["success"], "data": r.get("object_data")})
        else:
            if r["success"]:
                nviol += ctx.violation("ZigbeeDecryptor without the key decrypts the frame", case, observed=r)
            elif r["object_after"] != r["object_before"]:
                nviol += ctx.violation("a rejected decryption changed the packet object", case, expected=r["object_before"], observed=r["object_after"])
        if q["mgr"] == "nwk" and in_model(r["in"]):
            ring_terms.append("(%s, %s, %s)" % (clist([cbytes(bytes.fromhex(k_)) for k_ in q["keys"]]), coq_frame(r["in"]),
                                                 "(Some %s)" % cbytes(bytes.fromhex(r["object_data"])) if r["success"] else "None"))
            nontrivial.append(["ring", q])
    dist["same_object_under_several_keys"] = rdist

    # oracle: NWK histories
    hist_terms = []
    hdist = {"genuine-delivered": 0, "replay-dropped": 0, "old-dropped": 0, "old-delivered-fresh": 0, "tampered-dropped": 0, "unsecured-up": 0,
             "unsecured-dropped": 0, "level0-dropped": 0, "raised": 0, "rogue-dropped": 0, "unknown-seq-dropped": 0, "freshness-off-replay-delivered": 0}
    for (p, sched), hreq, steps in zip(hist_sched, hist_reqs, r2["nwk"]):
        cfg = p["cfg"]
        last = {}
        mats = [(s_, k_) for k_, s_ in cfg["keys"]]      # specification of the material set: (sequence number, key) in order
        case_base = {"op": "nwk-history", "cfg": cfg, "frames": hreq["frames"], "direct": hreq.get("direct", False)}
        modelable = True
        for k, ((fhex, kind, ei), r) in enumerate(zip(sched, steps)):
            case = dict(case_base, upto=k, kind=kind)
            if kind == "mgmt":
                op = fhex
                hdist["mgmt:" + op["mgmt"]] = hdist.get("mgmt:" + op["mgmt"], 0) + 1
                if "exc" in r:
                    modelable = False
                    nviol += ctx.violation("management operation on the NWK manager raised " + r["exc"], case, observed=r)
                if op["mgmt"] == "add_key" and op["key"] not in [k_ for _s, k_ in mats]:
                    mats.append((op["seq"], op["key"]))
                elif op["mgmt"] == "remove_key":
                    mats = [x for x in mats if x[1] != op["key"]]
                    last = {t: c for t, c in last.items() if t[0] != op["key"]}      # the table goes with the material
                elif op["mgmt"] == "clear_keys":
                    mats, last = [], {}
                continue
            ev = p["events"][ei] if ei is not None else None
            d = r["in"]
            if not d.get("nosec") and not in_model(d):
                modelable = False
            delivered = [u for u in r["up"]]
            if "exc" in r:
                hdist["raised"] += 1
                if delivered:
                    nviol += ctx.violation("NWK layer delivered a frame and raised", case, observed=r)
                continue
            if kind == "unsecured" or d.get("nosec"):
                if cfg["secure_all"] and delivered and not d.get("other_sec"):
                    nviol += ctx.violation("unsecured frame delivered although nwkSecureAllFrames is set", case, observed=delivered)
                hdist["unsecured-up" if delivered else "unsecured-dropped"] += 1
                continue
            actual = (p["rogue"] if ev["key"] == "rogue" else p["late"] if ev["key"] == "late" else p["repl"] if ev["key"] == "repl"
                      else p["keys"][ev["key"]])[0].hex()
            sel = next((k_ for s_, k_ in mats if s_ == d.get("kseq")), None)      # the material NWKManager.decrypt must select
            genuine = (kind in ("genuine", "replay", "old") and sel is not None and sel == actual and cfg["level"] != 0)
            tk = (sel, d.get("src")) if not d.get("nosec") else None
            fresh = tk is not None and (tk not in last or d["fc"] > last[tk])
            if delivered:
                u = delivered[0]
                if not genuine:
                    nviol += ctx.violation("NWK layer passed up a secured frame that is not authentic (%s)" % kind, case, expected="dropped", observed=u)
                elif cfg["all_fresh"] and not fresh:
                    nviol += ctx.violation("NWK layer passed up a secured frame whose counter is not greater than the last accepted from the same sender",
                                           case, expected="dropped (last accepted %r)" % (last.get(tk),), observed={"fc": d["fc"], "up": u})
                else:
                    if not cfg["all_fresh"] and not fresh:
                        hdist["freshness-off-replay-delivered"] += 1
                    elif kind == "genuine":
                        hdist["genuine-delivered"] += 1
                    else:
                        hdist["old-delivered-fresh"] += 1
                    if u.get("sec") and u["dis"]["data"] != rt_payload(p, ei, res_plan):
                        nviol += ctx.violation("NWK layer delivered a payload different from the one that was encrypted", case,
                                               expected=rt_payload(p, ei, res_plan), observed=u["dis"]["data"])
                if genuine:
                    last[tk] = max(last.get(tk, -1), d["fc"]) if not cfg["all_fresh"] else d["fc"]
            else:
                if genuine and fresh:
                    nviol += ctx.violation("NWK layer dropped an authentic frame with a fresh counter", case, expected="delivered", observed=r)
                key = ("level0-dropped" if cfg["level"] == 0 else "rogue-dropped" if ev and ev["key"] == "rogue" else
                       "unknown-seq-dropped" if ev and "kseq" in ev else "tampered-dropped" if kind in ("tampered", "level4") else
                       "key-not-provisioned-dropped" if not genuine else "replay-dropped" if kind == "replay" else "old-dropped")
                hdist[key] = hdist.get(key, 0) + 1
        if modelable:
            hist_terms.append(coq_history(cfg, sched, steps, sparse=bool(p.get("many"))))
            if p.get("many"):
                hdist["many-senders-history:%d" % p["many"]] = 1
            nontrivial.append(["hist", cfg, hreq["frames"]])
    dist["nwk_history_events"] = hdist

    # oracle: one manager instance — the result of each call must not depend on the calls made before
    seq_terms = []
    sdist = {"calls": 0, "enc": 0, "dec": 0, "after-level0-call": 0, "explicit-after-level0": 0, "raised": 0}
    for q, refs, outs in zip(seq_reqs, seq_refs, r2["seq"]):
        items, modelable, prev_l0 = [], True, False
        for k, (c, (i, which), o) in enumerate(zip(q["calls"], refs, outs)):
            ref = res_rt[i][which]
            case = {"op": "seq", "seq": q, "call": k}
            sdist["calls"] += 1; sdist[c["op"]] += 1
            lvl = o.get("in", {}).get("lvl")
            if prev_l0:
                sdist["after-level0-call"] += 1
                if lvl not in (0, None):
                    sdist["explicit-after-level0"] += 1
            prev_l0 = (lvl == 0)
            if "exc" in o:
                sdist["raised"] += 1
            same = (o.get("exc") == ref.get("exc") and o.get("status") == ref.get("status") and o.get("out_frame") == ref.get("out_frame")
                    and (("out" not in o and "out" not in ref) or ("out" in o and "out" in ref and same_dis(o["out"], ref["out"]))))
            if not same:
                nviol += ctx.violation("a call on a reused manager instance does not give the result of a fresh manager (it depends on the frames processed before)",
                                       case, expected={k_: ref.get(k_) for k_ in ("exc", "status", "out_frame")},
                                       observed={k_: o.get(k_) for k_ in ("exc", "status", "out_frame", "patched_after")})
            if "in" in o and in_model(o["in"]) and ("out" not in o or in_model(o["out"])):
                d_in = o["in"]
                if "exc" in o:
                    ob = "(Some %s, None, %s)" % (cstr(o["exc"]), coq_frame(d_in))
                else:
                    ob = "(None, %s, %s)" % ("None" if o["status"] is None else "(Some %s)" % cbool(o["status"]), coq_frame(o["out"]))
                items.append("(%s, %s, %s, %s)" % (cbool(c["op"] == "enc"), coq_frame(d_in), cbytes(bytes.fromhex(d_in["raw"])), ob))
            else:
                modelable = False
        if modelable and outs and "key_used" in outs[0]:
            seq_terms.append("(%s, %s)" % (cbytes(bytes.fromhex(outs[0]["key_used"])), clist(items)))
            nontrivial.append(["seq", q])
    dist["instance_sequences"] = sdist

    # oracle + observation: APS receive histories (EXTENSION)
    aps_terms_h = []
    adist = {"genuine-delivered": 0, "replay-delivered (no freshness at this layer: observation)": 0, "dropped-not-authentic": 0,
             "dropped-key-not-candidate": 0, "raised": 0, "plain-up": 0, "plain-nothing": 0, "tampered-dropped": 0, "no-ext-dropped": 0}
    for (p, sched), areq, steps in zip(aps_sched, aps_reqs, r2["aps"]):
        modelable = True
        seen = set()
        for k, ((fhex, kind, ei), r) in enumerate(zip(sched, steps)):
            case = {"op": "aps-history", "map": p["map"], "kps": p["kps"], "frames": areq["frames"], "upto": k, "kind": kind}
            if r.get("skip"):
                modelable = False
                continue
            d = r["in"]
            if not d.get("nosec") and not in_model(d):
                modelable = False
            if "exc" in r:
                adist["raised"] += 1
                if r["up"]:
                    nviol += ctx.violation("APS layer delivered a frame and raised", case, observed=r)
                continue
            if d.get("nosec"):
                adist["plain-up" if r["up"] else "plain-nothing"] += 1
                continue
            ev = p["events"][ei]
            cands = aps_candidates(p, d)
            authentic = (kind in ("genuine", "replay") and ev["kt"] in CANON_INPUT and ev["inp"] == CANON_INPUT[ev["kt"]]
                         and ev["key"].hex() in [k_ for _a, k_ in p["kps"]] and ev["lvl"] in IN_SCOPE)
            if r["up"]:
                u = r["up"][0]
                if not authentic:
                    nviol += ctx.violation("APS layer passed up a secured frame that is not authentic (%s)" % kind, case, expected="dropped", observed=u)
                elif u.get("sec") and u["dis"]["data"] != expected_plaintext(res_aps_plan[p["first"] + ei][0]["in"]).hex():
                    nviol += ctx.violation("APS layer delivered a payload different from the one that was encrypted", case, observed=u["dis"]["data"])
                elif fhex in seen:
                    adist["replay-delivered (no freshness at this layer: observation)"] += 1
                else:
                    adist["genuine-delivered"] += 1
                seen.add(fhex)
            else:
                # liveness only for frames with the extended-nonce source (without it acceptance depends on the payload bytes: known finding)
                if authentic and ev["ext"] == 1 and ev["key"].hex() in cands and (int(d["pre"][:2], 16) & 3) in (0, 1):
                    nviol += ctx.violation("APS layer dropped an authentic frame secured with a key of the sender's key-pair set", case, expected="delivered", observed=r)
                adist["tampered-dropped" if kind == "tampered" else "no-ext-dropped" if ev["ext"] == 0 else
                      "dropped-key-not-candidate" if authentic else "dropped-not-authentic"] += 1
        if modelable:
            aps_terms_h.append(coq_aps_history(p, [r for r in steps if not r.get("skip")]))
            nontrivial.append(["aps-hist", p["map"], p["kps"], areq["frames"]])
    dist["aps_history_events"] = adist

    # ---- correspondence inside Coq ------------------------------------------------------------
    # C17_MODEL=old: the original code (generateAuth by bytes.replace); v1: after the first repair, before the repair of levels 1-3
    check_fn = {"old": "check_crypt_old", "v1": "check_crypt_v1"}.get(os.environ.get("C17_MODEL"), "check_crypt")
    bad_c, logs_c = C.run_cases(PID, "crypt", PRE, "bool * bytes * frame * bytes * obs", crypt_terms, check_fn, shard=250, max_chars=300000)
    hk_terms = ["(%s, %s)" % (cbytes(bytes.fromhex(c[1])), cbytes(bytes.fromhex(o))) for c, o in zip(hash_cases, r1["hash"]) if c[0] == "hash" and isinstance(o, str)]
    hkk_terms = ["(%s, %d, %s)" % (cbytes(bytes.fromhex(c[1])), c[2], cbytes(bytes.fromhex(o))) for c, o in zip(hash_cases, r1["hash"]) if c[0] == "hash_key" and isinstance(o, str)]
    hkk_terms += ["(%s, %d, %s)" % (cbytes(bytes.fromhex(k)), i, cbytes(bytes.fromhex(u))) for k, i, u in key_checks if i is not None]
    bad_h, logs_h = C.run_cases(PID, "hash", PRE, "bytes * bytes", hk_terms, "check_hash")
    bad_k, logs_k = C.run_cases(PID, "hashkey", PRE, "bytes * N * bytes", hkk_terms, "check_hash_key")
    for k, i, u in key_checks:
        if i is None and k != u:
            bad_k.append(-1)
    bad_a, logs_a = C.run_cases(PID, "apsdata", PRE, "bytes * N * bytes * bytes * option string", aps_terms, "check_aps_data")
    bad_k += ["aps-data:%d" % i for i in bad_a]
    bad_rg, logs_rg = C.run_cases(PID, "ring", PRE, "list bytes * frame * option bytes", ring_terms, "check_ring", shard=40)
    bad_k += ["key-ring:%d" % i for i in bad_rg]
    bad_sq, logs_sq = C.run_cases(PID, "seq", PRE, "bytes * list (bool * frame * bytes * obs)", seq_terms, "check_calls", shard=4)
    bad_k += ["instance-sequence:%d" % i for i in bad_sq]
    bad_ah, logs_ah = C.run_cases(PID, "apshist", PRE, "aps * list (nsdu * obs_aps)", aps_terms_h, "check_aps", shard=8)
    bad_k += ["aps-history:%d" % i for i in bad_ah]
    bad_n, logs_n = C.run_cases(PID, "nwk", PRE, "hstate * list (hitem * obs_up * N * option (list (N * bytes * list (bytes * N))))", hist_terms, "check_nwk_mgmt", shard=4)
    ctx.notes += logs_c[:2] + logs_h[:1] + logs_k[:1] + logs_n[:2]
    ctx.log("correspondence: crypt %d cases %d bad; hash %d/%d bad %d/%d; nwk histories %d bad %d; aps histories %d bad %d; instance sequences %d bad %d"
            % (len(crypt_terms), len(bad_c), len(hk_terms), len(hkk_terms), len(bad_h), len(bad_k), len(hist_terms), len(bad_n), len(aps_terms_h), len(bad_ah),
               len(seq_terms), len(bad_sq)))

    # ---- evidence -------------------------------------------------------------------------------
    n_eval = (len(rt_cases) + len(plan_cases) + len(aps_plan_cases) + len(tam_cases) + sum(len(h["frames"]) for h in hist_reqs)
              + sum(len(h["frames"]) for h in aps_reqs) + sum(len(q["calls"]) for q in seq_reqs) + len(hash_cases))
    ctx.cov["evaluations"] = n_eval
    ctx.cov["traces_validated_against_impl"] = len(crypt_terms) + len(hk_terms) + len(hkk_terms) + len(hist_terms) + len(aps_terms_h) + len(seq_terms)
    ctx.cov["distinct_nontrivial"] = C.distinct_count(nontrivial)
    ctx.cov["rule"] = ("round-trip cases: NWK data/command and APS data/command/key-transport/key-load frames, levels 0 (on-air) and 5..7, both dissection "
                       "conventions (dissected bytes / stack-built packet), payload lengths 0..80 with contents random or taken from the header; tamper cases: every "
                       "single-bit flip of the protected part of the frames the real code encrypted (full sweep on the first frames, sampled on the rest) and wrong keys; "
                       "NWK histories: genuine frames of 1-3 senders under 1-2 keys with replays, lower/equal counters, reorderings, tampered, rogue-key, unknown-sequence, "
                       "unsecured and level-4 frames, counter wrap. Non-trivial = accepted round trip, rejected tamper, or history; distinct by content hash")
    uncovered = [b for b in ("enc:patched-mic-absent:kseq", "enc:level5:kseq", "enc:level6:kseq", "enc:level7:kseq", "dec:patched-mic-absent:accept",
                             "dec:patched-mic-present:accept", "dec:level5:accept", "dec:level6:accept", "dec:level7:accept", "dec:level5:reject",
                             "dec:patched-mic-absent:reject", "raise:ValueError", "enc:patched-mic-present:kseq",
                             "enc:level1:kseq", "enc:level2:kseq", "enc:level3:kseq", "dec:level1:accept", "dec:level2:accept", "dec:level3:accept",
                             "dec:level1:reject", "dec:level2:reject", "dec:level3:reject") if b not in dist["model_branch"]]
    dist["uncovered_branches"] = uncovered
    ctx.cov["distribution"] = dist
    ctx.cov["uncovered_branches"] = uncovered
    ctx.cov["samples"] = [
        {"roundtrip": {k: rt_cases[7][k] for k in ("mgr", "frame", "set")}, "impl": [{k: s.get(k) for k in ("status", "exc", "out_frame")} for s in res_rt[7]]},
        {"tamper": tam_cases[0], "meta": {k: tam_meta[0][k] for k in ("kind", "src")}, "impl_status": r2["crypt"][0][0].get("status")} if tam_cases else {},
        {"nwk_history": hist_reqs[0], "impl": [{"up": [u["svc"] for u in s["up"]], "ktables": s.get("ktables"), "active": s.get("active"), "mgmt": s.get("mgmt"), "exc": s.get("exc")} for s in r2["nwk"][0]]} if hist_reqs else {},
    ]
    ctx.cov["source_ties"] = ctx.cov.get("source_ties", []) + [C.source_tie("whad/zigbee/crypto.py", 15, 48), C.source_tie("whad/zigbee/crypto.py", 51, 245),
                              C.source_tie("whad/zigbee/stack/nwk/__init__.py", 1093, 1203),
                              C.source_tie("whad/zigbee/stack/nwk/security.py", 1, 36)]
    ctx.cov["correspondence"] = {"crypt_cases": len(crypt_terms), "crypt_bad": len(bad_c), "hash_cases": len(hk_terms) + len(hkk_terms),
                                 "hash_bad": len(bad_h) + len(bad_k), "nwk_histories": len(hist_terms), "nwk_bad": len(bad_n),
                                 "aps_histories": len(aps_terms_h), "aps_bad": len(bad_ah),
                                 "instance_sequences": len(seq_terms), "instance_sequences_bad": len(bad_sq)}

    # ---- verdict ------------------------------------------------------------------------------------
    if bad_c or bad_h or bad_k or bad_n or not proofs_ok:
        if not ctx.violations:
            first = None
            if bad_c:
                first = {"group": "crypt", "source": crypt_src[bad_c[0]], "coq_case": crypt_terms[bad_c[0]][:3000]}
            elif bad_n:
                first = {"group": "nwk", "coq_case": hist_terms[bad_n[0]][:3000]}
            elif bad_h or bad_k:
                first = {"group": "hash"}
            what = ("correspondence C17.Model vs whad.zigbee.crypto / NWKManager (%d crypt, %d hash, %d nwk disagreements)"
                    % (len(bad_c), len(bad_h) + len(bad_k), len(bad_n))
                    if (bad_c or bad_h or bad_k or bad_n) else "proof obligations of theories/C17: " + detail.splitlines()[0][:200])
            ctx.broken_obligation(what, detail if not proofs_ok else "\n".join(logs_c + logs_h + logs_k + logs_n), first)


def rt_payload(plan, ei, res_plan):
    """the payload that was encrypted for event ei of a plan (from the phase-1 input dissection)"""
    st = res_plan[plan["first"] + ei][0]
    return expected_plaintext(st["in"]).hex()


def replay(payload):
    case = payload.get("case") or payload.get("first_disagreeing_case")
    print(json.dumps(case)[:3000])
    if not case:
        return 0
    if case.get("op") in ("roundtrip", "tamper") and "frame" in case:
        r = C.run_impl("C17.py", {"crypt": [{"mgr": case["mgr"], "frame": case["frame"], "set": case.get("set"), "steps": case["steps"]}]})
        for st in r["crypt"][0]:
            print("implementation now:", {k: st.get(k) for k in ("exc", "status")}, "data", (st.get("out") or {}).get("data"), "mic", (st.get("out") or {}).get("mic"))
    elif case.get("op") == "aps-data-request":
        r = C.run_impl("C17.py", {"aps_data": [case["aps_data"]]})
        print("implementation now:", r["aps_data"][0])
    elif case.get("op") == "ring":
        print("implementation now:", C.run_impl("C17.py", {"ring": [case["ring"]]})["ring"][0])
    elif case.get("op") == "seq":
        r = C.run_impl("C17.py", {"seq": [case["seq"]]})
        for k, st in enumerate(r["seq"][0]):
            print("call %d%s: %s lvl=%s exc=%s status=%s out=%s patched_after=%s" % (k, " <--" if k == case.get("call") else "", case["seq"]["calls"][k]["op"],
                  st.get("in", {}).get("lvl"), st.get("exc"), st.get("status"), st.get("out_frame"), st.get("patched_after")))
    elif case.get("op") == "aps-history":
        r = C.run_impl("C17.py", {"aps": [{"map": case["map"], "kps": case["kps"], "frames": case["frames"]}]})
        for k, st in enumerate(r["aps"][0]):
            print("frame %d: up=%s exc=%s" % (k, [u["svc"] for u in st.get("up", [])], st.get("exc")))
    elif case.get("op") == "nwk-history":
        r = C.run_impl("C17.py", {"nwk": [dict(case["cfg"], frames=case["frames"], direct=case.get("direct", False))]})
        for k, st in enumerate(r["nwk"][0]):
            print("frame %d: up=%s exc=%s tables=%s" % (k, [u["svc"] for u in st["up"]], st.get("exc"), st["tables"]))
    return 0
