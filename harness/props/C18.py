"""C18 — LoRaWAN, RF4CE, Unifying frame protection: self-inverse and integrity-checked.
See DESIGN.md §2 C18 and design/C18.md.

Pipeline: (1) build + Print Assumptions of theories/C18; (2) generate frames (corpus first);
(3) run the three real managers / functions (harness/impl/C18.py); (4) oracle = the property
itself on the real code's outputs; (5) bit-exact correspondence model vs implementation evaluated
inside Coq (Gallina AES / CMAC / CCM); (6) verdict.

C18_LEGACY=1 selects the model of the code as it was before the fix: commits of this property
(only meaningful against a tree without them).
"""
import json, os
from harness import common as C
from harness.common import cbytes, cbool, clist, cnat, copt
from harness.props import pyfun_util

PID = "C18"
LEGACY = os.environ.get("C18_LEGACY") == "1"

K_MTYPE = "lorawan-unsupported-mtype-not-verified"
K_RESERVED = "rf4ce-reserved-bit-forced"
K_PROFILE = "rf4ce-profile-vendor-unauthenticated"

EXN = {"MissingKeyError": "MissingKeyError", "BadMICError": "BadMICError", "AttributeError": "AttributeError",
       "error": "StructError", "ValueError": "ValueError", "IndexError": "IndexError",
       "MissingEncryptedKeystrokePayload": "MissingPayload", "MissingRF4CESecurityFlag": "MissingSecurityFlag",
       "MissingRF4CEHeader": "MissingHeader"}


def rb(rng, n):
    return bytes(rng.randrange(256) for _ in range(n))


def hx(b):
    return None if b is None else bytes(b).hex()


# --------------------------------------------------------------------------- Coq literals

def c_outcome(r):
    if r is None:
        return "(Raise OtherExn)"
    if "ok" in r:
        return "(Ok %s)" % cbytes(bytes.fromhex(r["ok"]))
    return "(Raise %s)" % EXN.get(r["exc"], "OtherExn")


def c_keys(ks):
    return "(%s, %s, %s)" % tuple(copt(k, lambda v: cbytes(bytes.fromhex(v))) for k in ks)


def c_packet(c):
    mic = cbytes(bytes.fromhex(c.get("mic", "00000000")))
    if c["kind"] == "data":
        return ("(PData {| d_mtype := %d; d_lo := %d; d_addr := %d; d_fhi := %d; d_fcnt := %d; d_fopts := %s; "
                "d_fport := %d; d_payload := %s; d_mic := %s |})"
                % (c["mtype"], c.get("lo", 0), c["addr"], c.get("fhi", 0), c["fcnt"], cbytes(bytes.fromhex(c["fopts"])),
                   c["fport"], cbytes(bytes.fromhex(c["payload"])), mic))
    if c["kind"] == "join":
        return "(PJoin %d %s %s)" % (c.get("lo", 0), cbytes(bytes.fromhex(c["body"])), mic)
    return "(POther %d %d %s %s)" % (c["mtype"], c.get("lo", 0), cbytes(bytes.fromhex(c["body"])), mic)


def rf_model_in(c, res):
    """The rf_in record the model needs for driver case c (see Model.v)."""
    orig, nwk = bytes.fromhex(res["orig"]), bytes.fromhex(res["nwk_orig"])
    fcs = 2 if c["mode"] == "fcs" else 0
    pre = orig[:len(orig) - len(nwk) - fcs]
    sec = (c["fctl"] >> 2) & 1
    redissected = c["mode"] in ("nwk", "fcs")
    mic = bytes.fromhex(c["mic"]) if c.get("mic") is not None else b"\0\0\0\0"
    pl = bytes.fromhex(c["payload"])
    mic_none = (not sec) if redissected else (not sec or c.get("mic") is None)
    has_layer = bool(pl) if redissected else (bool(pl) or bool(c.get("raw_empty")))
    explicit = c.get("explicit", c["mode"] == "nwk")
    gs, gd = c.get("gsrc", explicit), c.get("gdst", explicit)
    if c["mode"] == "nwk":
        hsrc = hdst = None
    else:
        d = 3 if c.get("long", True) else 2
        sm, dm = c.get("smode", d), c.get("dmode", d)
        hsrc = (sm, bytes.fromhex(c["src"]) if sm == 3 else (0x1234).to_bytes(2, "little"))
        hdst = (dm, bytes.fromhex(c["dst"]) if dm == 3 else (0x5678).to_bytes(2, "little"))
    # the effective addresses are NOT computed here: the model resolves them (rf_resolve) from the
    # caller's arguments and the header addressing
    return dict(pre=pre, fctl=c["fctl"], fc=c["fc"].to_bytes(4, "little"), hdr=bytes.fromhex(c["hdr"]), payload=pl,
                mic=mic, mic_none=mic_none, has_layer=has_layer, src=None, dst=None, has_mac=c["mode"] != "nwk",
                asrc=bytes.fromhex(c["src"]) if gs else None, adst=bytes.fromhex(c["dst"]) if gd else None,
                dasrc=bytes.fromhex(c.get("decsrc", c["src"])) if gs else None,
                dadst=bytes.fromhex(c.get("decdst", c["dst"])) if gd else None, hsrc=hsrc, hdst=hdst)


def c_amode(h):
    if h is None:
        return "None"
    m, a = h
    return "(Some %s)" % ("AMNone" if m == 0 else "(AMShort %s)" % cbytes(a) if m == 2 else "(AMLong %s)" % cbytes(a))


def c_addrs(m, dec=False):
    """asrc, adst, hsrc, hdst [, dasrc, dadst] literals"""
    xs = [copt(m["asrc"], cbytes), copt(m["adst"], cbytes), c_amode(m["hsrc"]), c_amode(m["hdst"])]
    if dec:
        xs += [copt(m["dasrc"], cbytes), copt(m["dadst"], cbytes)]
    return ", ".join(xs)


def c_rf_in(m):
    return ("{| r_pre := %s; r_fctl := %d; r_fc := %s; r_hdr := %s; r_payload := %s; r_mic := %s; r_mic_none := %s; "
            "r_has_layer := %s; r_src := %s; r_dst := %s; r_has_mac := %s |}"
            % (cbytes(m["pre"]), m["fctl"], cbytes(m["fc"]), cbytes(m["hdr"]), cbytes(m["payload"]), cbytes(m["mic"]),
               cbool(m["mic_none"]), cbool(m["has_layer"]), copt(m["src"], cbytes), copt(m["dst"], cbytes),
               cbool(m["has_mac"])))


def rf_strip(c, r):
    """Observed encrypt()/decrypt() result -> rf_out literal; FCS (checked separately) removed."""
    if r is None:
        return "(RRaise OtherExn)"
    if "exc" in r:
        return "(RRaise %s)" % EXN.get(r["exc"], "OtherExn")
    if "pkt" in r:
        b = bytes.fromhex(r["pkt"])
        if c["mode"] == "fcs":
            b = b[:-2]
        return "(RPkt %s)" % cbytes(b)
    b, ok = bytes.fromhex(r["tuple"][0]), r["tuple"][1]
    if c["mode"] == "fcs" and ok:
        b = b[:-2]
    return "(RTuple %s %s)" % (cbytes(b), cbool(ok))


def c_un_frame(c):
    return ("{| u_dev := %d; u_ft := %d; u_hid := %s; u_unk := %d; u_ctr := %s; u_unused := %s; u_extra := []; u_cks := %s |}"
            % (c["dev"], c["ft"], cbytes(bytes.fromhex(c["hid"])), c["unk"], cbytes(c["ctr"].to_bytes(4, "big")),
               cbytes(bytes.fromhex(c["unused"])), copt(c.get("cks"), str)))


# --------------------------------------------------------------------------- generators

def lw_data_case(rng, mtype, fport, nfo, npl, keys, **kw):
    c = {"kind": "data", "mtype": mtype, "lo": rng.choice([0, 0, 0, rng.randrange(32)]),
         "addr": rng.choice([0, 1, 0xffffffff, rng.getrandbits(32), rng.getrandbits(32)]), "fhi": rng.randrange(16),
         "fcnt": rng.choice([0, 1, 0xffff, rng.getrandbits(16), rng.getrandbits(16)]), "fopts": rb(rng, nfo).hex(),
         "fport": fport, "payload": rb(rng, npl).hex(), "mic": rng.choice(["00000000", rb(rng, 4).hex()]), "keys": keys}
    c.update(kw)
    return c


def gen_lw(ctx):
    rng, cases = ctx.rng, []
    def keys():
        return [rb(rng, 16).hex(), rb(rng, 16).hex(), rb(rng, 16).hex()]
    ports = [0, 1, 2, 223, 224, 255]
    if ctx.thorough:
        # every payload length 0..222 for every data MType, ports 0 and > 0 alternating, all FOpts lengths
        for mt in (2, 3, 4, 5):
            for n in range(0, 223):
                cases.append(lw_data_case(rng, mt, rng.choice([0, 0, rng.randrange(1, 256)]), n % 16 if n % 3 else rng.randrange(16), n, keys()))
        for mt in (2, 3, 4, 5):
            for p in range(256):
                cases.append(lw_data_case(rng, mt, p, rng.randrange(16), rng.randrange(0, 40), keys()))
        pls, fos, reps = [0, 1, 15, 16, 17, 31, 32, 33, 48, 100, 222], [0, 1, 2, 7, 14, 15], 1
    else:
        pls, fos, reps = [0, 1, 16, 17, 33, 222], [0, 1, 15], 1
    for mt in (2, 3, 4, 5):
        for fport in ports if ctx.thorough else [0, 1, 255]:
            for nfo in fos:
                for npl in pls:
                    if not ctx.thorough and npl == 222 and (nfo != 15 or fport == 255):
                        continue
                    for _ in range(reps):
                        cases.append(lw_data_case(rng, mt, fport, nfo, npl, keys()))
    for _ in range(200 if ctx.thorough else 16):
        cases.append(lw_data_case(rng, rng.choice([2, 3, 4, 5]), rng.choice([0, rng.randrange(256)]), rng.randrange(16),
                                  rng.randrange(0, 223 - 15), keys()))
    # downlink frames with every FOpts length 1..15 (FOpts direction), ports 0 and > 0
    for mt in (3, 5):
        for nfo in range(1, 16):
            for rep in range(3 if ctx.thorough else 1):
                cases.append(lw_data_case(rng, mt, rng.choice([0, rng.randrange(1, 256)]), nfo, rng.choice([0, 1, 5, 17]), keys()))
    # PHY length beyond the 'B' length field of B0 (struct.error, outside the property's 0..222)
    cases.append(lw_data_case(rng, 2, 1, 15, 240, keys()))
    # join accepts: 12-byte body, with CFList (28), non-zero RFU/Major, misaligned bodies
    for nb, lo in [(12, 0), (28, 0), (12, 1), (12, 31), (28, 6), (12, 0), (28, 0)] + ([(12, rng.randrange(32)) for _ in range(20)] if ctx.thorough else []):
        cases.append({"kind": "join", "lo": lo, "body": rb(rng, nb).hex(), "mic": rng.choice(["00000000", rb(rng, 4).hex()]), "keys": keys()})
    for nb in (13, 17, 27):
        cases.append({"kind": "join", "lo": 0, "body": rb(rng, nb).hex(), "keys": keys()})
    # unsupported MTypes are returned as they are
    for mt, nb in ((0, 18), (6, 14), (6, 19), (7, 5), (7, 30)):
        cases.append({"kind": "other", "mtype": mt, "lo": rng.randrange(32) if mt else 0, "body": rb(rng, nb).hex(), "mic": rb(rng, 4).hex(), "keys": keys()})
    # missing keys: every subset that lacks a required key
    for mt in (2, 3, 4, 5):
        for sub in ([None, None, None], [None, "k", None], [None, None, "k"], ["k", None, None], ["k", "k", None], ["k", None, "k"]):
            ks = [rb(rng, 16).hex() if s else None for s in sub]
            cases.append(lw_data_case(rng, mt, rng.choice([0, 5]), rng.randrange(3), rng.randrange(6), ks, expect="missing"))
    for sub in ([None, None, None], [None, "k", "k"], [None, "k", None]):
        ks = [rb(rng, 16).hex() if s else None for s in sub]
        cases.append({"kind": "join", "lo": 0, "body": rb(rng, 12).hex(), "keys": ks, "expect": "missing"})
    # decrypting with a missing key a frame that was encrypted with all of them
    for mt in (1, 2, 3, 4, 5):
        ks = keys()
        for sub in ([0, 1, 1], [1, 0, 1], [1, 1, 0]):
            dk = [k if s else None for k, s in zip(ks, sub)]
            need = (sub[0] == 0) if mt == 1 else (sub[1] == 0 or sub[2] == 0)
            if not need:
                continue
            if mt == 1:
                cases.append({"kind": "join", "lo": 0, "body": rb(rng, 12).hex(), "keys": ks, "deckeys": dk, "expect": "dec-missing"})
            else:
                cases.append(lw_data_case(rng, mt, rng.choice([0, 9]), 2, 7, ks, deckeys=dk, expect="dec-missing"))
    # wrong keys
    for mt in (1, 2, 3, 4, 5):
        for which in ((0,) if mt == 1 else (1, 2)):
            ks = keys()
            dk = list(ks)
            dk[which] = rb(rng, 16).hex()
            if mt == 1:
                cases.append({"kind": "join", "lo": 0, "body": rb(rng, 12).hex(), "keys": ks, "deckeys": dk, "expect": "wrong-key"})
            else:
                cases.append(lw_data_case(rng, mt, rng.choice([0, 9]), 3, 20, ks, deckeys=dk,
                                          expect="wrong-key" if which == 2 else "wrong-appskey"))
    # single-bit corruption sweeps
    sweeps = [(2, 0, 0, 0), (3, 1, 2, 3), (4, 0, 1, 5), (5, 7, 0, 1)]
    if ctx.thorough:
        sweeps += [(2, 1, 15, 40), (3, 0, 3, 17), (4, 200, 0, 33), (5, 0, 15, 16)]
    for mt, fport, nfo, npl in sweeps:
        cases.append(lw_data_case(rng, mt, fport, nfo, npl, keys(), sweep=True))
    cases.append({"kind": "join", "lo": 0, "body": rb(rng, 12).hex(), "keys": keys(), "sweep": True})
    if ctx.thorough:
        cases.append({"kind": "join", "lo": 3, "body": rb(rng, 28).hex(), "keys": keys(), "sweep": True})
    return cases


def rf_case(rng, mode, ft, sec, npl, **kw):
    fctl = (rng.randrange(4) << 6) | (1 << 5) | (rng.randrange(4) << 3) | (sec << 2) | ft
    c = {"mode": mode, "fctl": fctl, "fc": rng.choice([0, 1, 0xffffffff, rng.getrandbits(32), rng.getrandbits(32)]),
         "hdr": (bytes([rng.choice([0x01, 0xc0, 0x55, rng.randrange(256)])]) + rb(rng, 2)).hex() if ft in (1, 3) else "",
         "payload": rb(rng, npl).hex(), "mic": rng.choice([None, rb(rng, 4).hex()]) if sec else None,
         "key": rb(rng, 16).hex(), "src": rb(rng, 8).hex(), "dst": rb(rng, 8).hex()}
    c.update(kw)
    return c


def gen_rf(ctx):
    rng, cases = ctx.rng, []
    pls = [0, 1, 2, 15, 16, 17, 32, 33, 60, 100] if ctx.thorough else [0, 1, 17, 40]
    for mode in ("nwk", "mac", "fcs"):
        for ft in (0, 1, 2, 3):
            for sec in (1, 0):
                for npl in pls:
                    for rep in range(3 if ctx.thorough else 1):
                        c = rf_case(rng, mode, ft, sec, npl)
                        if npl == 0 and rng.random() < 0.5:
                            c["raw_empty"] = True
                        if mode != "nwk" and rng.random() < 0.3:
                            c["explicit"] = True
                        cases.append(c)
    # explicit mic=None with the flag set, scapy-built, no FCS (fixed: cropped 4 bytes short)
    for ft in (1, 2, 3):
        cases.append(rf_case(rng, "mac", ft, 1, 5, mic=None))
    # reserved bit clear (known finding: forced to 1)
    for mode in ("nwk", "mac"):
        c = rf_case(rng, mode, 1, 1, 6)
        c["fctl"] &= ~0x20
        c["expect"] = "reserved0"
        cases.append(c)
    # full product of 802.15.4 addressing modes (source, destination: none / short / long) x caller-supplied
    # source / destination (given / absent) behind a MAC header, with and without FCS. The expectation comes from
    # the case alone: both 8-byte addresses available (argument, else long header address) => round trip;
    # otherwise the missing address must be reported as (packet, False).
    for mode in ("mac", "fcs"):
        for sm in (0, 2, 3):
            for dm in (0, 2, 3):
                for gs in (False, True):
                    for gd in (False, True):
                        c = rf_case(rng, mode, rng.choice([1, 2, 3]), 1, rng.choice([1, 5, 17]), smode=sm, dmode=dm, gsrc=gs, gdst=gd,
                                    mic=rb(rng, 4).hex())
                        if dm == 0:
                            c["expect"] = "nodest"
                        elif not ((gs or sm == 3) and (gd or dm == 3)):
                            c["expect"] = "noaddr"
                        cases.append(c)
    # the same on the decrypt side only, for frames that cannot be produced by encrypt (no usable address)
    for mode in ("mac", "fcs"):
        for sm, dm, gs, gd in ((2, 3, False, False), (3, 2, False, False), (2, 2, True, False), (0, 3, False, True), (2, 3, False, True)):
            cases.append(rf_case(rng, mode, 1, 1, 4, smode=sm, dmode=dm, gsrc=gs, gdst=gd, op="dec", mic="01020304", expect="dec-noaddr"))
    # missing addresses: short MAC addresses and no explicit ones / rf4ce_only without addresses
    cases.append(rf_case(rng, "mac", 1, 1, 4, long=False, expect="noaddr"))
    cases.append(rf_case(rng, "fcs", 2, 1, 4, long=False, expect="noaddr"))
    cases.append(rf_case(rng, "nwk", 1, 1, 4, explicit=False, expect="noaddr"))
    # wrong key / wrong source / wrong destination
    for mode in ("nwk", "mac", "fcs"):
        for what in ("deckey", "decsrc", "decdst"):
            c = rf_case(rng, mode, rng.choice([1, 2, 3]), 1, rng.choice([1, 9, 20]), explicit=True, expect="wrong")
            c[what] = rb(rng, 16 if what == "deckey" else 8).hex()
            cases.append(c)
    # decrypting a frame whose security flag is clear: MissingRF4CESecurityFlag in every mode,
    # also when the addresses are missing as well
    for mode in ("nwk", "mac", "fcs"):
        for ft in (1, 2):
            cases.append(rf_case(rng, mode, ft, 0, rng.choice([0, 4]), op="dec", expect="dec-sec0"))
    cases.append(rf_case(rng, "nwk", 3, 0, 4, op="dec", explicit=False, expect="dec-sec0"))
    # decrypting without usable addresses
    cases.append(rf_case(rng, "nwk", 1, 1, 4, op="dec", explicit=False, mic="01020304", expect="dec-noaddr"))
    cases.append(rf_case(rng, "mac", 2, 1, 4, op="dec", long=False, mic="01020304", expect="dec-noaddr"))
    # packet without RF4CE layer
    cases.append({"mode": "nohdr", "key": rb(rng, 16).hex(), "fctl": 0x2c, "payload": "", "expect": "nohdr"})
    # sweeps
    # every value of the 2-bit frame type (0 = reserved: no profile/vendor header, payload right after the
    # frame counter) with a non-empty payload, so that every payload bit of every frame type is flipped
    sw = [("nwk", 1, 3), ("mac", 2, 2), ("fcs", 3, 1), ("nwk", 0, 4)]
    if ctx.thorough:
        sw += [("nwk", 2, 20), ("nwk", 3, 0), ("mac", 1, 17), ("fcs", 0, 5), ("mac", 0, 18), ("nwk", 0, 1)]
    for mode, ft, npl in sw:
        cases.append(rf_case(rng, mode, ft, 1, npl, sweep=True))
    return cases


def gen_rfctr(ctx):
    """Frame-counter sweeps of secured command and data frames through the parsed-packet paths (Dot15d4FCS and
    rf4ce_only=True): the ciphertext is re-dissected by scapy as if it were plaintext layers, so the round trip must
    hold whatever the first ciphertext bytes happen to be (they change with every counter)."""
    rng, out = ctx.rng, []
    n = 5000 if ctx.thorough else 400
    k0 = bytes(range(16)).hex()
    shapes = [(0x2e, "", "0700" + b"ping".hex()),                 # command: PING request
              (0x2e, "", "06" + "11" * 5),                         # command: key seed (truncated)
              (0x2d, "c03412", b"hello world".hex()),              # data frame, profile 0xc0
              (0x2f, "013412", "01" + "40")]                       # vendor frame, MSO user control pressed
    for mode in ("nwk", "fcs"):
        for fctl, hdr, pl in shapes:
            for key, cnt in ([(k0, n)] if not ctx.thorough else [(k0, n), (rb(rng, 16).hex(), 1000)]):
                out.append({"mode": mode, "fctl": fctl, "hdr": hdr, "payload": pl, "mic": None, "key": key,
                            "src": "8877665544332211", "dst": "00ffeeddccbbaa99", "n": cnt})
    return out


def gen_un(ctx):
    rng, cases = ctx.rng, []
    ctrs = [0, 1, 0xffffffff, 0x01020304, 0x80000000, 0x7fffffff, 0xfffffffe, 0x80000001, 0xdeadbeef, 0xc0000000]
    for i in range(400 if ctx.thorough else 40):
        c = {"dev": rng.choice([0, 3, rng.randrange(256)]), "ft": 0xD3,
             "hid": rng.choice([bytes(7), bytes([rng.choice([0, 2]), rng.randrange(4, 60), 0, 0, 0, 0, 0]), rb(rng, 7)]).hex(),
             "unk": rng.choice([0xC9, 0, rng.randrange(256)]),
             "ctr": ctrs[i] if i < len(ctrs) else (rng.getrandbits(32) | (0x80000000 if i % 2 else 0)),
             "unused": rng.choice([bytes(7), bytes(7), rb(rng, 7)]).hex(), "key": rb(rng, 16).hex(),
             "cks": rng.choice([None, None, rng.randrange(256)])}
        cases.append(c)
    # not an encrypted keystroke frame
    cases.append({"dev": 0, "ft": 0xC1, "hid": bytes(7).hex(), "unk": 0, "ctr": 0, "unused": bytes(7).hex(), "key": rb(rng, 16).hex(), "expect": "not-encrypted"})
    # wrong key
    c = dict(cases[5]); c["deckey"] = rb(rng, 16).hex(); c["expect"] = "wrong-key"
    cases.append(c)
    return cases


# --------------------------------------------------------------------------- oracle

def flip_mtype(w, i):
    return ((w[0] ^ (1 << i)) >> 5) if i < 8 else (w[0] >> 5)


def oracle_lw(ctx, c, r, st):
    case = {"proto": "lw", "case": c}
    if "build_exc" in r:
        return
    kind, exp = c["kind"], c.get("expect")
    orig = bytes.fromhex(r["orig"])
    enc, dec, mem = r.get("enc"), r.get("dec"), r.get("dec_mem")
    ks = c["keys"]
    required = (ks[0] is not None) if kind == "join" else (kind == "other" or (ks[1] is not None and ks[2] is not None))
    if not required:
        st["missing"] += 1
        for nm, o in (("encrypt_packet", enc), ("decrypt_packet", dec)):
            if o is None or o.get("exc") != "MissingKeyError":
                ctx.violation("%s with a required key missing did not raise MissingKeyError" % nm, case,
                              expected="MissingKeyError", observed=o)
        return
    if kind == "join" and (len(c["body"]) // 2 + 4) % 16:
        return   # malformed join accept (outside the property); class compared by the correspondence
    if kind == "data" and 9 + len(c["fopts"]) // 2 + len(c["payload"]) // 2 > 255:
        return   # beyond the PHY length the MIC block can express (outside 0..222)
    if "exc" in enc:
        ctx.violation("encrypt_packet raised " + enc["exc"], case, observed=enc)
        return
    if exp == "dec-missing":
        st["missing"] += 1
        if dec.get("exc") != "MissingKeyError":
            ctx.violation("decrypt_packet with a required key missing did not raise MissingKeyError", case,
                          expected="MissingKeyError", observed=dec)
        return
    if exp == "wrong-key":
        st["wrongkey"] += 1
        if "ok" in dec:
            ctx.violation("frame accepted under a wrong MIC key", case, expected="BadMICError", observed=dec)
        return
    if exp == "wrong-appskey":
        return   # LoRaWAN 1.0 MIC is keyed with NwkSKey only: not detectable by design (design/C18.md)
    st["roundtrip"] += 1
    for nm, o in (("wire", dec), ("in-memory", mem)):
        if o is None or "exc" in o:
            ctx.violation("decrypt_packet of an untampered frame raised %s (%s path)" % ((o or {}).get("exc"), nm), case,
                          expected=orig[:-4].hex() + " + MIC", observed=o)
            return
        d = bytes.fromhex(o["ok"])
        if kind == "other":
            if d != orig:
                ctx.violation("unsupported MType not returned unchanged", case, expected=orig.hex(), observed=o)
        elif d[:-4] != orig[:-4]:
            ctx.violation("decrypt(encrypt(frame)) differs from the frame (%s path)" % nm, case,
                          expected=orig[:-4].hex() + " + MIC", observed=o)
            return
    if kind != "other" and bytes.fromhex(dec["ok"])[-4:] != bytes.fromhex(enc["ok"])[-4:] and kind == "data":
        ctx.violation("MIC changed by decrypt_packet", case, observed=[enc, dec])
    if "sweep" in r:
        w = bytes.fromhex(enc["ok"])
        for i, code in enumerate(r["sweep"]):
            st["flips"] += 1
            if code in (1, 2):
                sub = {"proto": "lw", "case": {"kind": "wire", "wire": bytes(flip_bytes(w, i)).hex(), "keys": c["keys"]}, "bit": i}
                if i < 8 and flip_mtype(w, i) in (0, 6, 7):
                    ctx.violation("corrupted frame returned without any MIC verification (MType became unsupported)", sub,
                                  key=K_MTYPE, expected="an exception", observed="returned")
                else:
                    ctx.violation("single-bit corruption accepted by decrypt_packet", sub, expected="BadMICError", observed="returned")


def flip_bytes(w, i):
    b = bytearray(w)
    b[i // 8] ^= 1 << (i % 8)
    return b


def oracle_rf(ctx, c, r, st):
    case = {"proto": "rf", "case": c}
    if "build_exc" in r:
        return
    exp = c.get("expect")
    enc, dec = r.get("enc"), r.get("dec")
    if exp == "nohdr":
        st["missing"] += 1
        for nm, o in (("encrypt", enc), ("decrypt", dec)):
            if (o or {}).get("exc") != "MissingRF4CEHeader":
                ctx.violation("RF4CE %s of a packet without RF4CE layer did not raise MissingRF4CEHeader" % nm, case,
                              expected="MissingRF4CEHeader", observed=o)
        return
    if exp == "nodest":
        # a frame without destination addressing is not dissected by scapy as a data frame carrying an RF4CE
        # layer: either the missing address or the missing layer must be reported, nothing else
        for o in (enc, dec):
            if o is None:
                continue
            if not (("tuple" in o and o["tuple"][1] is False) or o.get("exc") == "MissingRF4CEHeader" or "pkt" in o):
                ctx.violation("RF4CE frame without destination addressing: unrelated outcome", case,
                              expected="(packet, False) or MissingRF4CEHeader", observed=o)
        if "pkt" in enc and not (dec and (dec.get("exc") == "MissingRF4CEHeader" or ("tuple" in dec))):
            ctx.violation("RF4CE frame without destination addressing: unrelated outcome of decrypt", case, observed=dec)
        return
    if exp == "dec-sec0":
        st["missing"] += 1
        if (dec or {}).get("exc") != "MissingRF4CESecurityFlag":
            ctx.violation("RF4CE decrypt of a frame whose security flag is clear did not raise MissingRF4CESecurityFlag", case,
                          expected="MissingRF4CESecurityFlag", observed=dec)
        return
    if exp == "dec-noaddr":
        st["missing"] += 1
        if not (dec and "tuple" in dec and dec["tuple"][1] is False):
            ctx.violation("RF4CE decrypt without usable addresses did something else than (packet, False)", case,
                          expected="(packet, False)", observed=dec)
        return
    if exp == "noaddr":
        st["missing"] += 1
        if not ("tuple" in enc and enc["tuple"][1] is False):
            ctx.violation("RF4CE encrypt without usable addresses did something else than (packet, False)", case,
                          expected="(packet, False)", observed=enc)
        return
    if "pkt" not in enc:
        ctx.violation("RF4CE encrypt did not return a packet", case, observed=enc)
        return
    if c["mode"] == "fcs" and not r.get("fcs_ok"):
        ctx.violation("RF4CE encrypt produced a wrong 802.15.4 FCS", case, observed=enc)
    if exp == "wrong":
        st["wrongkey"] += 1
        if not ("tuple" in dec and dec["tuple"][1] is False):
            ctx.violation("RF4CE frame accepted under a wrong key / address", case, expected="(packet, False)", observed=dec)
        return
    st["roundtrip"] += 1
    if "tuple" not in dec or not dec["tuple"][1]:
        ctx.violation("RF4CE decrypt(encrypt(frame)) rejected or raised", case, expected="(frame, True)", observed=dec)
        return
    d = bytes.fromhex(dec["tuple"][0])
    orig, nwk = bytes.fromhex(r["orig"]), bytes.fromhex(r["nwk_orig"])
    fcs = 2 if c["mode"] == "fcs" else 0
    pre = orig[:len(orig) - len(nwk) - fcs]
    if fcs:
        d = d[:-2]
    body = c["fc"].to_bytes(4, "little") + bytes.fromhex(c["hdr"]) + bytes.fromhex(c["payload"])
    want = pre + bytes([c["fctl"] | 0x04]) + body      # the frame, secured; MIC follows
    if d[:-4] != want:
        if d[:-4] == pre + bytes([c["fctl"] | 0x24]) + body:
            ctx.violation("RF4CE round trip sets the reserved bit of the frame control field", case, key=K_RESERVED,
                          expected=want.hex(), observed=d.hex())
        else:
            ctx.violation("RF4CE decrypt(encrypt(frame)) differs from the frame", case, expected=want.hex() + " + MIC", observed=d.hex())
    if "sweep" in r:
        hl = 3 if (c["fctl"] & 3) in (1, 3) else 0
        for i, code in enumerate(r["sweep"]):
            st["flips"] += 1
            if code == 1:
                sub = {"proto": "rf", "case": c, "bit": i}
                if i == 5:
                    ctx.violation("flipped reserved bit accepted by RF4CE decrypt", sub, key=K_RESERVED, expected="(packet, False)", observed="accepted")
                elif 40 <= i < 40 + 8 * hl:
                    ctx.violation("flipped profile/vendor id bit accepted by RF4CE decrypt", sub, key=K_PROFILE, expected="(packet, False)", observed="accepted")
                else:
                    ctx.violation("single-bit corruption accepted by RF4CE decrypt", sub, expected="(packet, False)", observed="accepted")


def oracle_un(ctx, c, r, st):
    case = {"proto": "un", "case": c}
    exp = c.get("expect")
    if exp == "not-encrypted":
        if r["enc"].get("exc") != "MissingEncryptedKeystrokePayload":
            ctx.violation("Unifying encrypt of a frame without encrypted keystroke payload", case,
                          expected="MissingEncryptedKeystrokePayload", observed=r["enc"])
        return
    if "ok" not in r["enc"]:
        ctx.violation("Unifying encrypt raised", case, observed=r["enc"])
        return
    fields = [c["dev"], c["ft"], c["hid"], c["unk"], c["ctr"], c["unused"]]
    if exp == "wrong-key":
        return   # no integrity code in this protocol
    st["roundtrip"] += 1
    orig = bytes.fromhex(r["orig"])
    for nm in ("dec_mem", "dec"):
        o = r.get(nm)
        if o is None or "ok" not in o:
            ctx.violation("Unifying decrypt(encrypt(frame)) raised (%s)" % nm, case, observed=o)
            continue
        if r[nm + "_fields"] != fields:
            ctx.violation("Unifying decrypt(encrypt(frame)) does not restore the frame's fields (%s)" % nm, case,
                          expected=fields, observed=r[nm + "_fields"])
            continue
        d = bytes.fromhex(o["ok"])
        if d != orig:
            ctx.violation("Unifying decrypt(encrypt(frame)) differs from the frame (%s)" % nm, case, expected=orig.hex(), observed=d.hex())
    ef = r.get("enc_fields")
    if isinstance(ef, list) and (ef[0], ef[1], ef[4], ef[5]) != (fields[0], fields[1], fields[4], fields[5]):
        ctx.violation("Unifying encrypt altered an unprotected field", case, expected=fields, observed=ef)


# --------------------------------------------------------------------------- run

def load_corpus():
    out = {"lw": [], "rf": [], "un": []}
    d = os.path.join(C.VERIF, "corpus", PID)
    for fn in sorted(os.listdir(d)) if os.path.isdir(d) else []:
        if fn.endswith(".json"):
            w = json.load(open(os.path.join(d, fn)))
            c = dict(w["case"]); c["corpus"] = fn
            out[w["proto"]].append(c)
    return out


def run(ctx):
    C.build_dir(PID, clean=True)
    ctx.cov["trusted_base"] = [
        "Coq 8.16.1 kernel + vm_compute (no native_compute); every theorem closed under the global context (Print Assumptions checked each run)",
        "hand-written model coq/theories/C18/Model.v tied to whad/lorawan/crypto.py, whad/rf4ce/crypto.py, whad/unifying/crypto.py by the bit-exact correspondence of this run (sampled; boundary lengths exhaustive)",
        "theorems are stated for an arbitrary block function E (and D with E k (D k b) = b on 16-byte blocks for the join accept); Cryptodome AES/CMAC/CCM is compared bit for bit with Lib/Aes.v, Lib/Cmac.v, Lib/Ccm.v on every case",
        "scapy build/dissect of PHYPayload/MACPayload*, RF4CE_Hdr (+ sublayers, rebuilt from raw_packet_cache), Dot15d4, Logitech_Unifying_Hdr modelled as byte layouts; exercised on every case",
        "MIC / tag inequality (no collision) is a hypothesis of the tamper theorems: the unconditional statement is probabilistic (2^-32)",
    ]
    ctx.assumptions = ["LoRaWAN: FOptsLen = len(FOpts) <= 15, PHY length <= 255 (payload 0..222 with 15 FOpts bytes), 4-byte MIC field, both session keys given for data frames / AppKey for join accept",
                       "join accept body + MIC is a multiple of 16 bytes (12 or 28 byte body)",
                       "RF4CE: 8-byte source and destination (caller argument, else long 802.15.4 header address; every addressing-mode combination with a destination field is modelled), 4-byte frame counter, frames at least as long as their headers; reserved bit set (else known finding)",
                       "Unifying: encrypted keystroke frames (type 0xD3) with 7-byte hid_data / unused and a counter"]
    libs = ["theories/Lib/Bytes.vo", "theories/Lib/Xor.vo", "theories/Lib/Aes.vo", "theories/Lib/Ccm.vo", "theories/Lib/Cmac.vo"]
    proofs_ok, detail = ctx.check_proofs(lib_targets=libs)
    # LoRaWAN B0 / A_i blocks, xor loops and the Unifying AES input regenerated from the source and proved equal
    # to the model (harness/translators/pyfun.py, theories/C18/{Gen,GenEq,PropertyGen}.v, design/PYTRANS.md)
    gen = pyfun_util.check_generated(ctx, PID)
    if not gen["ok"]:
        proofs_ok, detail = False, (detail if not proofs_ok else str(gen["what"])) + gen["detail"]
    ctx.log("proofs:", proofs_ok, detail.splitlines()[0][:200])

    corpus = load_corpus()
    lw = corpus["lw"] + gen_lw(ctx)
    rf = corpus["rf"] + gen_rf(ctx)
    un = corpus["un"] + gen_un(ctx)
    rfctr = gen_rfctr(ctx)
    # a sample of the swept counters also goes through the Coq correspondence
    for c in rfctr:
        for fc in ctx.rng.sample(range(c["n"]), 3 if not ctx.thorough else 10):
            rf.append({k: v for k, v in dict(c, fc=fc).items() if k != "n"})
    res = C.run_impl("C18.py", {"lw": lw, "rf": rf, "un": un, "rfctr": rfctr, "misc": True})
    ctx.log("impl: %d lorawan, %d rf4ce, %d unifying cases" % (len(lw), len(rf), len(un)))
    ctx.cov["evaluations"] = len(lw) + len(rf) + len(un) + sum(c["n"] for c in rfctr)
    ctx.cov["traces_validated_against_impl"] = len(lw) + len(rf) + len(un)

    # ---- oracle ---------------------------------------------------------------
    st = {"roundtrip": 0, "missing": 0, "wrongkey": 0, "flips": 0}
    for c, r in zip(lw, res["lw"]):
        oracle_lw(ctx, c, r, st)
    for c, r in zip(rf, res["rf"]):
        oracle_rf(ctx, c, r, st)
    for c, r in zip(un, res["un"]):
        oracle_un(ctx, c, r, st)
    st["counter_sweep_frames"] = 0
    for c, r in zip(rfctr, res.get("rfctr", [])):
        st["counter_sweep_frames"] += r["n"]
        for dt in r["detail"][:2]:
            ctx.violation("RF4CE decrypt(encrypt(frame)) of an untampered frame fails for some frame counters (%d of %d swept)"
                          % (len(r["bad"]), r["n"]), {"proto": "rf", "case": {k: v for k, v in dict(c, fc=dt["fc"]).items() if k != "n"}},
                          expected="(frame, True)", observed=dt["observed"])
    if res.get("misc", {}).get("rf4ce_decryptor_no_key") != "MissingCryptographicMaterial":
        ctx.violation("RF4CEDecryptor without keys did not raise MissingCryptographicMaterial", {"proto": "misc"},
                      expected="MissingCryptographicMaterial", observed=res.get("misc"))
    ctx.log("oracle: %r, %d violations" % (st, len(ctx.violations)))

    # ---- correspondence inside Coq ----------------------------------------------
    pre = "From Whad Require Import Lib.Bytes C18.Model.\nOpen Scope N_scope."
    leg = cbool(LEGACY)
    t_lw, i_lw, t_sw, i_sw = [], [], [], []
    for i, (c, r) in enumerate(zip(lw, res["lw"])):
        if "build_exc" in r or c["kind"] == "wire":
            continue
        dk = c.get("deckeys", c["keys"])
        oe, od = r["enc"], r.get("dec")
        if c["kind"] == "other":
            # outcome class only
            continue
        t_lw.append("(%s, %s, %s, %s, %s, %s)" % (leg, c_keys(c["keys"]), c_keys(dk), c_packet(c), c_outcome(oe), c_outcome(od)))
        i_lw.append(i)
        if "sweep" in r:
            t_sw.append("(%s, %s, %s, %s)" % (leg, c_keys(dk), cbytes(bytes.fromhex(oe["ok"])), clist([str(x) for x in r["sweep"]])))
            i_sw.append(i)
    t_rf, i_rf, t_rs, i_rs, t_rd, i_rd = [], [], [], [], [], []
    t_nh, i_nh = [], []
    for i, (c, r) in enumerate(zip(rf, res["rf"])):
        if "build_exc" in r:
            continue
        if c["mode"] == "nohdr":
            t_nh.append("(%s, %s, %s, %s)" % (leg, cbytes(bytes.fromhex(c["key"])), rf_strip(c, r["enc"]), rf_strip(c, r["dec"])))
            i_nh.append(i)
            continue
        m = rf_model_in(c, r)
        if (m["hdst"] or (3, b""))[0] == 0:
            continue   # no destination addressing: scapy re-dissects such a frame without RF4CE layer (oracle only)
        if c.get("op") == "dec":
            t_rd.append("(%s, %s, %s, %s, %s)" % (leg, cbytes(bytes.fromhex(c.get("deckey", c["key"]))), c_rf_in(m), c_addrs(m),
                                                  rf_strip(c, r["dec"])))
            i_rd.append(i)
            continue
        t_rf.append("(%s, %s, %s, %s, %s, %s, %s)" % (leg, cbytes(bytes.fromhex(c["key"])), cbytes(bytes.fromhex(c.get("deckey", c["key"]))),
                                                     c_rf_in(m), c_addrs(m, dec=True), rf_strip(c, r["enc"]), rf_strip(c, r.get("dec"))))
        i_rf.append(i)
        if "sweep" in r:
            w = bytes.fromhex(r["enc"]["pkt"])
            if c["mode"] == "fcs":
                w = w[:-2]
            m2 = dict(m, asrc=m["dasrc"], adst=m["dadst"])
            t_rs.append("(%s, %s, %s, %s, %s, %s)" % (leg, cbytes(bytes.fromhex(c.get("deckey", c["key"]))), cnat(len(m["pre"])),
                                                     c_addrs(m2), cbytes(w), clist([str(x) for x in r["sweep"]])))
            i_rs.append(i)
    t_un, i_un = [], []
    for i, (c, r) in enumerate(zip(un, res["un"])):
        # when encrypt raised, nothing was decrypted: the model propagates the same exception
        t_un.append("(%s, %s, %s, %s, %s, %s, %s)" % (leg, cbytes(bytes.fromhex(c["key"])), cbytes(bytes.fromhex(c.get("deckey", c["key"]))),
                                                  c_un_frame(c), c_outcome(r["enc"]), c_outcome(r.get("dec_mem", r["enc"])),
                                                  c_outcome(r.get("dec", r["enc"]))))
        i_un.append(i)
    groups = [
        ("lw", "bool * keys3 * keys3 * packet * outcome bytes * outcome bytes", t_lw, "check_lw", i_lw, lw, res["lw"], 12),
        ("lwsweep", "bool * keys3 * bytes * list N", t_sw, "check_lw_sweep", i_sw, lw, res["lw"], 1),
        ("rf", "bool * bytes * bytes * rf_in * option bytes * option bytes * option addr_mode * option addr_mode * option bytes * option bytes * rf_out * rf_out", t_rf, "check_rf", i_rf, rf, res["rf"], 12),
        ("rfsweep", "bool * bytes * nat * option bytes * option bytes * option addr_mode * option addr_mode * bytes * list N", t_rs, "check_rf_sweep", i_rs, rf, res["rf"], 1),
        ("rfdec", "bool * bytes * rf_in * option bytes * option bytes * option addr_mode * option addr_mode * rf_out", t_rd, "check_rf_dec", i_rd, rf, res["rf"], 10),
        ("rfnohdr", "bool * bytes * rf_out * rf_out", t_nh, "check_rf_nohdr", i_nh, rf, res["rf"], 10),
        ("un", "bool * bytes * bytes * un_frame * outcome bytes * outcome bytes * outcome bytes", t_un, "check_un", i_un, un, res["un"], 30),
    ]
    corr, first_bad, logs_all = {}, None, []
    for name, ty, terms, fn, idx, cs, rs, shard in groups:
        if not terms:
            corr[name] = {"cases": 0, "bad": 0}
            continue
        bad, logs = C.run_cases(PID, name, pre, ty, terms, fn, shard=shard if not ctx.thorough else max(1, shard // 2))
        logs_all += logs
        corr[name] = {"cases": len(terms), "bad": len(bad)}
        if bad and first_bad is None:
            j = idx[bad[0]]
            first_bad = {"group": name, "case": cs[j], "impl": rs[j]}
    ctx.notes += logs_all[:6]
    ctx.cov["correspondence"] = corr
    nbad = sum(v["bad"] for v in corr.values())
    ctx.log("correspondence:", json.dumps(corr))

    # ---- coverage ------------------------------------------------------------------
    data = [c for c in lw if c["kind"] == "data"]
    ctx.cov["distinct_nontrivial"] = C.distinct_count([["lw", c] for c in lw if c["kind"] != "other"] + [["rf", c] for c in rf] + [["un", c] for c in un])
    ctx.cov["rule"] = ("every case is a frame built with scapy, protected and unprotected by the real code (wire path and in-memory path); "
                       "non-trivial = reaches a cipher/MIC computation; distinct by content hash; sweeps count every flipped bit as an evaluation of the tamper clause")
    ctx.cov["distribution"] = {
        "lorawan": {"cases": len(lw), "data_by_mtype": {str(m): sum(1 for c in data if c["mtype"] == m) for m in (2, 3, 4, 5)},
                    "data_port0": sum(1 for c in data if c["fport"] == 0), "data_port_gt0": sum(1 for c in data if c["fport"] > 0),
                    "fopts_lengths": sorted({len(c["fopts"]) // 2 for c in data}), "payload_lengths": len({len(c["payload"]) // 2 for c in data}),
                    "max_payload": max(len(c["payload"]) // 2 for c in data), "join": sum(1 for c in lw if c["kind"] == "join"),
                    "other_mtypes": sum(1 for c in lw if c["kind"] == "other"), "sweeps": len(t_sw)},
        "rf4ce": {"cases": len(rf), "by_mode": {m: sum(1 for c in rf if c["mode"] == m) for m in ("nwk", "mac", "fcs")},
                  "by_frame_type": {str(t): sum(1 for c in rf if c["fctl"] & 3 == t) for t in range(4)},
                  "security_flag_clear_on_input": sum(1 for c in rf if not c["fctl"] & 4), "empty_payload": sum(1 for c in rf if not c["payload"]),
                  "sweeps": len(t_rs)},
        "unifying": {"cases": len(un)},
        "oracle": st,
        "model_branches": {"lw_join": sum(1 for c in lw if c["kind"] == "join"), "lw_uplink": sum(1 for c in data if c["mtype"] in (2, 4)),
                           "lw_downlink": sum(1 for c in data if c["mtype"] in (3, 5)), "lw_missing_key": st["missing"],
                           "lw_struct_error": sum(1 for c in data if 9 + len(c["fopts"]) // 2 + len(c["payload"]) // 2 > 255),
                           "lw_ecb_misaligned": sum(1 for c in lw if c["kind"] == "join" and (len(c["body"]) // 2 + 4) % 16),
                           "rf_noaddr": sum(1 for c in rf if c.get("expect") in ("noaddr", "dec-noaddr")), "rf_counter_sweep_frames": sum(c["n"] for c in rfctr), "rf_addressing_grid": sum(1 for c in rf if "smode" in c), "rf_no_destination_mode": sum(1 for c in rf if c.get("expect") == "nodest"), "rf_security_flag_clear_on_decrypt": sum(1 for c in rf if c.get("expect") == "dec-sec0"), "rf_no_header": len(t_nh),
                           "un_missing_payload": sum(1 for c in un if c["ft"] != 0xD3)},
        "uncovered_branches": ["un_crypt: IndexError (hid_data shorter than 7 bytes: scapy returns the raw short value)",
                               "rf_parse / dissect: None (frames shorter than their headers are outside the model)"],
    }
    ctx.cov["flipped_bits_evaluated"] = st["flips"]
    s0 = next(i for i, c in enumerate(lw) if c["kind"] == "data" and "expect" not in c)
    ctx.cov["samples"] = [{"lorawan": lw[s0], "impl": {k: v for k, v in res["lw"][s0].items() if k != "sweep"}},
                          {"rf4ce": rf[len(corpus["rf"]) + 1], "impl": {k: v for k, v in res["rf"][len(corpus["rf"]) + 1].items() if k != "sweep"}},
                          {"unifying": un[len(corpus["un"])], "impl": res["un"][len(corpus["un"])]}]
    ctx.cov["source_ties"] = ctx.cov.get("source_ties", []) + [C.source_tie("whad/lorawan/crypto.py", 16, 375), C.source_tie("whad/scapy/layers/lorawan.py", 27, 122),
                              C.source_tie("whad/rf4ce/crypto.py", 29, 245), C.source_tie("whad/scapy/layers/rf4ce.py", 147, 182),
                              C.source_tie("whad/unifying/crypto.py", 14, 82), C.source_tie("whad/scapy/layers/unifying.py", 17, 74)]
    ctx.cov["legacy_model"] = LEGACY

    # ---- verdict ---------------------------------------------------------------------
    if (nbad or not proofs_ok) and not ctx.violations:
        what = ("correspondence C18.Model vs implementation: %s" % json.dumps({k: v for k, v in corr.items() if v["bad"]})
                if nbad else "proof obligations of theories/C18: " + detail.splitlines()[0][:200])
        ctx.broken_obligation(what, detail if not proofs_ok else "\n".join(logs_all), first_bad)


def replay(payload):
    case = payload.get("case") or payload.get("first_disagreeing_case")
    print(json.dumps(case)[:3000])
    if not case:
        return 0
    proto = case.get("proto") or {"lw": "lw", "lwsweep": "lw", "rf": "rf", "rfsweep": "rf", "rfdec": "rf", "rfnohdr": "rf", "un": "un"}.get(case.get("group"))
    c = case.get("case")
    if proto in ("lw", "rf", "un") and c:
        r = C.run_impl("C18.py", {proto: [c]})
        out = r[proto][0]
        if "bit" in case and "sweep" in out:
            print("implementation now, flipped bit %d -> class %s" % (case["bit"], out["sweep"][case["bit"]]))
        else:
            print("implementation now:", json.dumps({k: v for k, v in out.items() if k != "sweep"})[:3000])
    return 0
