"""Shared by the C07 and C08 checks: profile / history generators, ATT encoders, Coq literals for
coq/theories/C07/Model.v, the runner of harness/impl/C07.py and the impl-side oracles."""
import json, os, struct
from harness import common as C
from harness.common import cbytes, cbool, clist

PRE = "From Whad Require Import Lib.Bytes C07.Model.\nOpen Scope N_scope."
CASE_T = "case_t"

P_READ, P_WNR, P_WRITE, P_NOTIFY, P_INDICATE = 2, 4, 8, 16, 32
HOOK_NAMES = ["read", "write", "written", "written2", "sub", "unsub", "notif", "indic"]
EXC_CODE = {None: 0, "AttributeError": 1, "TypeError": 2, "IndexError": 3, "HookBoom": 4,
            "HookReturnValue": 5, "HookReturnAuthentRequired": 5, "HookReturnAuthorRequired": 5,
            "HookReturnAccessDenied": 5, "HookReturnNotFound": 5, "HookReturnGattError": 5, "WouldDeadlock": 6, "WouldBlockForever": 7}


def le16(x):
    return struct.pack("<H", x)


# ---------------------------------------------------------------------------------------------
# profiles
# ---------------------------------------------------------------------------------------------
U16_SVC = [0x1800, 0x1801, 0x180F, 0x180A, 0x1812, 0xFFF0]
U16_CHR = [0x2A00, 0x2A01, 0x2A19, 0x2A29, 0x2A4D, 0xFFF1, 0xFFF2, 0x2901]
U16_DSC = [0x2901, 0x2904, 0x2900, 0x2908, 0x2903]
PROPS = [0, P_READ, P_WRITE, P_WNR, P_READ | P_WRITE, P_READ | P_NOTIFY, P_NOTIFY, P_INDICATE,
         P_READ | P_INDICATE, P_READ | P_WRITE | P_NOTIFY, P_WRITE | P_NOTIFY, P_READ | P_WNR | P_INDICATE | P_NOTIFY,
         0x01, 0x40 | P_READ, 0x80 | P_WRITE, 0xFF]
SECS = [0, 0, 0, 0, 1, 2, 3, 4, 0x10, 0x20, 0x30, 0x40, 0x11, 0x22, 0x12, 0x21, 0x77, 0x05, 0x10, 0x20, 0x30, 0x01]


def rand_bytes(rng, n):
    k = rng.randrange(4)
    if k == 0:
        return bytes(rng.randrange(256) for _ in range(n))
    if k == 1:
        return bytes(rng.choice(b"abcdefgh ") for _ in range(n))
    if k == 2:
        return bytes([rng.randrange(256)]) * n
    return bytes((i * 7 + 1) & 0xFF for i in range(n))


def rand_uuid(rng, pool, p128=0.35):
    if rng.random() < p128:
        return bytes(rng.randrange(256) for _ in range(16))
    return le16(rng.choice(pool))


def rand_vlen(rng):
    r = rng.random()
    if r < 0.45:
        return rng.randrange(0, 9)
    if r < 0.75:
        return rng.choice([19, 20, 21, 22, 23, 24, 25, 44, 45])
    if r < 0.9:
        return rng.randrange(0, 120)
    return rng.choice([180, 246, 247, 300, 511, 512, rng.randrange(120, 513)])


def gen_profile(rng, small=False):
    """Random well-formed profile spec (see harness/impl/C07.py)."""
    services, h = [], 1 + (rng.randrange(3) if rng.random() < 0.2 else 0)
    nsvc = rng.randrange(1, 3 if small else 5)
    used = []      # 16-bit characteristic UUIDs already used (in this or an earlier service)
    for si in range(nsvc):
        svc = {"kind": "primary" if rng.random() < 0.75 else "secondary", "handle": h,
               "uuid": rand_uuid(rng, U16_SVC).hex(), "includes": [], "chars": []}
        last = h
        h += 1
        for _ in range(rng.choice([0, 0, 0, 1, 2])):
            svc["includes"].append({"handle": h, "start": rng.randrange(1, 60), "end": rng.randrange(1, 80),
                                    "uuid": rand_uuid(rng, U16_SVC, 0.4).hex()})
            last = h
            h += 1
        for _ in range(rng.randrange(0, 3 if small else 5)):
            props = rng.choice(PROPS)
            cu = rand_uuid(rng, U16_CHR).hex()
            if used and rng.random() < 0.3:
                # the SAME characteristic UUID again (legal, e.g. HID Report), other properties / security / value
                cu, p0, ch0 = rng.choice(used)
                if (p0 & (P_NOTIFY | P_INDICATE)) and rng.random() < 0.6:
                    props = p0      # homonyms that can both be subscribed to
            else:
                ch0 = None
            ch = {"handle": h, "uuid": cu, "props": props,
                  "sec": rng.choice(SECS), "value": rand_bytes(rng, rand_vlen(rng)).hex(), "descs": []}
            if ch0 is not None and rng.random() < 0.5:
                # homonyms with short values of the same length (several of them fit in one list response)
                L = rng.randrange(0, 9)
                ch0["value"], ch["value"] = rand_bytes(rng, L).hex(), rand_bytes(rng, L).hex()
            if len(cu) == 4:
                used.append((cu, props, ch))
            h += 2
            last = h - 1
            want_cccd = (props & (P_NOTIFY | P_INDICATE)) and rng.random() < 0.9 or rng.random() < 0.08
            if want_cccd:
                ch["descs"].append({"handle": h, "uuid": "0229",
                                    "value": rng.choice(["0000", "0000", "0000", "0100", "0200", "0300"])})
                last = h
                h += 1
            for _ in range(rng.choice([0, 0, 1, 1, 2])):
                ch["descs"].append({"handle": h, "uuid": rand_uuid(rng, U16_DSC, 0.2).hex(),
                                    "value": rand_bytes(rng, rng.choice([0, 1, 2, 4, 10, 22, 23, 40, 100])).hex()})
                last = h
                h += 1
            if rng.random() < 0.3:
                rng.shuffle(ch["descs"])
                hs = sorted(d["handle"] for d in ch["descs"])
                for d, hh in zip(ch["descs"], hs):
                    d["handle"] = hh
            svc["chars"].append(ch)
        svc["end"] = last
        if si == nsvc - 1 and rng.random() < 0.25:
            svc["end"] = 0xFFFF
        services.append(svc)
        h = last + 1 + (rng.randrange(1, 4) if rng.random() < 0.25 else 0)
    spec = {"services": services}
    if rng.random() < 0.5:
        # the order in which the profile is BUILT (= insertion order of its attribute dictionary) differs from the
        # handle order: services added out of order, characteristics of a service added out of order
        order = list(range(len(services)))
        rng.shuffle(order)
        spec["build"] = {"services": order,
                         "chars": [rng.sample(range(len(sv["chars"])), len(sv["chars"])) if rng.random() < 0.5
                                   else list(range(len(sv["chars"]))) for sv in services]}
    return spec


def dup_uuid_rows(rows):
    """characteristic value rows whose 16-bit UUID is used by more than one characteristic"""
    by = {}
    for r in rows:
        if r["kind"] == "KValue" and len(r["type"]) == 2:
            by.setdefault(r["type"], []).append(r)
    return [r for rs in by.values() if len(rs) > 1 for r in rs]


def flatten(spec):
    """attribute rows sorted by handle: dict(handle, kind, type, uuid, value, end, props, sec, istart, iend, decl)"""
    rows = []
    for s in spec["services"]:
        su = bytes.fromhex(s["uuid"])
        rows.append(dict(handle=s["handle"], kind="KPrimary" if s["kind"] == "primary" else "KSecondary",
                         type=le16(0x2800 if s["kind"] == "primary" else 0x2801), uuid=su, value=su,
                         end=s["end"], props=0, sec=0, istart=0, iend=0, decl=None))
        for i in s.get("includes", []):
            iu = bytes.fromhex(i["uuid"])
            val = le16(i["start"]) + le16(i["end"]) + (iu if len(iu) == 2 else b"")
            rows.append(dict(handle=i["handle"], kind="KInclude", type=le16(0x2802), uuid=iu, value=val,
                             end=i["handle"], props=0, sec=0, istart=i["start"], iend=i["end"], decl=None))
        for c in s.get("chars", []):
            cu = bytes.fromhex(c["uuid"])
            cend = max([c["handle"] + 1] + [d["handle"] for d in c["descs"]])
            rows.append(dict(handle=c["handle"], kind="KDecl", type=le16(0x2803), uuid=cu, value=b"",
                             end=cend, props=c["props"], sec=c["sec"], istart=0, iend=0, decl=c["handle"]))
            rows.append(dict(handle=c["handle"] + 1, kind="KValue", type=cu, uuid=b"", value=bytes.fromhex(c["value"]),
                             end=cend, props=c["props"], sec=c["sec"], istart=0, iend=0, decl=c["handle"]))
            for d in c["descs"]:
                du = bytes.fromhex(d["uuid"])
                rows.append(dict(handle=d["handle"], kind="KCccd" if du == le16(0x2902) else "KDesc", type=du,
                                 uuid=b"", value=bytes.fromhex(d["value"]), end=cend, props=c["props"],
                                 sec=c["sec"], istart=0, iend=0, decl=c["handle"]))
    rows.sort(key=lambda r: r["handle"])
    return rows


def db_lit(rows):
    return clist(["(mkAttr %d %s %s %s %s %d %d %d %d %d None None)" % (
        r["handle"], r["kind"], cbytes(r["type"]), cbytes(r["uuid"]), cbytes(r["value"]), r["end"],
        r["props"], r["sec"], r["istart"], r["iend"]) for r in rows])


# ---------------------------------------------------------------------------------------------
# requests / events
# ---------------------------------------------------------------------------------------------
def enc_req(r):
    k = r[0]
    if k == "ExchangeMtu":
        return b"\x02" + le16(r[1])
    if k == "FindInfo":
        return b"\x04" + le16(r[1]) + le16(r[2])
    if k == "FindByTypeValue":
        return b"\x06" + le16(r[1]) + le16(r[2]) + le16(r[3]) + r[4]
    if k == "ReadByType":
        return b"\x08" + le16(r[1]) + le16(r[2]) + le16(r[3])
    if k == "ReadByType128":
        return b"\x08" + le16(r[1]) + le16(r[2]) + r[3]
    if k == "Read":
        return b"\x0a" + le16(r[1])
    if k == "ReadBlob":
        return b"\x0c" + le16(r[1]) + le16(r[2])
    if k == "ReadMultiple":
        return b"\x0e" + b"".join(le16(h) for h in r[1])
    if k == "ReadByGroupType":
        return b"\x10" + le16(r[1]) + le16(r[2]) + le16(r[3])
    if k == "Write":
        return b"\x12" + le16(r[1]) + r[2]
    if k == "WriteCmd":
        return b"\x52" + le16(r[1]) + r[2]
    if k == "SignedWriteCmd":
        return b"\xd2" + le16(r[1]) + r[2]
    if k == "PrepareWrite":
        return b"\x16" + le16(r[1]) + le16(r[2]) + r[3]
    if k == "ExecuteWrite":
        return b"\x18" + bytes([r[1]])
    if k == "Indication":
        return b"\x1d" + le16(r[1]) + r[2]
    if k == "Notification":
        return b"\x1b" + le16(r[1]) + r[2]
    if k == "Confirmation":
        return b"\x1e"
    if k == "UnknownOp":
        return bytes([r[1]]) + r[2]
    raise ValueError(k)


def req_lit(r):
    k = r[0]
    args = []
    for x in r[1:]:
        if isinstance(x, (bytes, bytearray)):
            args.append(cbytes(x))
        elif isinstance(x, list):
            args.append(clist(["%d" % h for h in x]))
        else:
            args.append("%d" % x)
    return "(%s %s)" % (k, " ".join(args)) if args else k


ACT_NAMES = ["read", "write", "written", "written2", "sub", "unsub"]
KNOWN_REQUESTS = [0x02, 0x04, 0x06, 0x08, 0x0A, 0x0C, 0x0E, 0x10, 0x12, 0x16, 0x18]


def req_opcode(op):
    """ATTLayer.on_packet: a PDU no branch took is a request when its opcode is even with the command flag cleared"""
    return (op & 0x41) == 0 and op != 0x1E


def ret_lit(o):
    if o is None or o[0] != "ret" or len(o) < 2:
        return "RNone"
    kind, v = o[1]
    return "(RBytes %s)" % cbytes(bytes.fromhex(v)) if kind == "bytes" else "ROther"


def outcome_lit(o):
    if o is None or o[0] == "ret":
        return "HReturn"
    k = o[0]
    if k == "val":
        return "(HOverride %s)" % cbytes(bytes.fromhex(o[1]))
    if k == "gatterr":
        f = lambda x: "None" if x is None else "(Some %d)" % x
        return "(HGattError %s %s %s)" % (f(o[1]), f(o[2]), f(o[3]))
    return {"authent": "HAuthent", "author": "HAuthor", "denied": "HDenied", "notfound": "HNotFound",
            "raise": "HRaiseOther"}[k]


def hooks_lit(hk, acts=None):
    if not hk and not acts:
        return "no_hooks"
    hk, acts = hk or {}, acts or {}
    a = "no_acts" if not acts else "(mkActs %s)" % " ".join(
        "None" if acts.get(n) is None else "(Some (%d, %s))" % (acts[n][0], cbytes(bytes.fromhex(acts[n][1]))) for n in ACT_NAMES)
    r = "no_rets" if not any(len(o) > 1 for o in hk.values() if o and o[0] == "ret") else \
        "(mkRets %s)" % " ".join(ret_lit(hk.get(n)) for n in HOOK_NAMES)
    return "(mkHooks %s %s %s)" % (" ".join(outcome_lit(hk.get(n)) for n in HOOK_NAMES), a, r)


def event_lit(ev):
    k = ev["op"]
    if k == "req":
        return "(EvReq %s %s)" % (req_lit(ev["req"]), hooks_lit(ev.get("hooks"), ev.get("acts")))
    if k == "sec":
        return "(EvSec %s %s)" % (cbool(ev["enc"]), cbool(ev["auth"]))
    if k == "set":
        return "(EvAppSet %d %s %s)" % (ev["handle"], cbytes(bytes.fromhex(ev["value"])), hooks_lit(ev.get("hooks")))
    return {"disc": "EvDisc", "conn": "EvConn"}[k]


def event_step(ev):
    """event -> driver step"""
    if ev["op"] == "req":
        return {"op": "pdu", "hex": enc_req(ev["req"]).hex(), "hooks": ev.get("hooks") or {}, "acts": ev.get("acts") or {}}
    return ev


def rand_ret(rng):
    """what a hook hands back with a plain return"""
    k = rng.randrange(6)
    if k <= 2:
        return ["bytes", rand_bytes(rng, rng.choice([0, 1, 22, 23, 24, 60, 300, 600])).hex()]
    if k == 3:
        return ["str", "text"]
    if k == 4:
        return ["int", 7]
    return ["bytes", rand_bytes(rng, 520).hex()]


def rand_outcome(rng):
    k = rng.randrange(10)
    if k == 0:
        return ["ret"]
    if k == 1:
        return ["ret", rand_ret(rng)]
    if k <= 3:
        return ["val", rand_bytes(rng, rng.choice([0, 1, 3, 22, 23, 60])).hex()]
    if k == 4:
        return ["authent"]
    if k == 5:
        return ["author"]
    if k == 6:
        return ["denied"]
    if k == 7:
        return ["notfound"]
    if k == 8:
        return ["gatterr", rng.choice([None, 0x0a, 0x12, 0xff]), rng.choice([None, 0, 7, 0xffff]),
                rng.choice([None, 0x0e, 0x80, 0x03])]
    return ["raise"]


def rand_hooks(rng, p=0.3, allow_raise=True):
    if rng.random() > p:
        return {}
    hk = {}
    for n in rng.sample(HOOK_NAMES, rng.randrange(1, 4)):
        o = rand_outcome(rng)
        if o[0] == "raise" and not allow_raise:
            o = ["denied"]
        hk[n] = o
    return hk


class HistoryGen:
    """random history over a profile; tracks the MTU the server will be using (to keep requests
    within it) and the link state."""

    def __init__(self, rng, rows, hooks_p=0.3, allow_raise=True, link_events=True):
        self.rng, self.rows = rng, rows
        self.hooks_p, self.allow_raise, self.link_events = hooks_p, allow_raise, link_events
        self.mtu, self.connected = 23, True
        self.by_kind = {}
        for r in rows:
            self.by_kind.setdefault(r["kind"], []).append(r)
        self.handles = [r["handle"] for r in rows]
        self.maxh = max(self.handles)

    def handle(self, prefer=None):
        rng = self.rng
        x = rng.random()
        if prefer and x < 0.6:
            for k in rng.sample(prefer, len(prefer)):
                if self.by_kind.get(k):
                    return rng.choice(self.by_kind[k])["handle"]
        if x < 0.82:
            return rng.choice(self.handles)
        return rng.choice([0, 0, self.maxh + 1, self.maxh + 2, 0xFFFF, rng.randrange(0, 0x10000),
                           max(1, rng.choice(self.handles) - 1)])

    def range(self):
        rng = self.rng
        k = rng.randrange(10)
        if k <= 3:
            return 1, 0xFFFF
        if k == 4:
            h = rng.choice(self.handles)
            return h, h
        if k == 5:
            h = rng.choice(self.handles)
            return h, min(0xFFFF, h + rng.randrange(0, 12))
        if k == 6:
            return rng.choice([0, 0, 5]), rng.choice([0, 3, 0xFFFF])
        if k == 7:
            a, b = rng.randrange(1, self.maxh + 3), rng.randrange(1, self.maxh + 3)
            return max(a, b), min(a, b)
        if k == 8:
            return rng.choice(self.handles), 0xFFFF
        return self.maxh + 1, 0xFFFF

    def value_for(self, h, cap):
        rng = self.rng
        row = next((r for r in self.rows if r["handle"] == h), None)
        if row is not None and row["kind"] == "KCccd" and rng.random() < 0.85:
            return rng.choice([b"\x00\x00", b"\x01\x00", b"\x01\x00", b"\x02\x00", b"\x03\x00", b"\x01", b"", b"\x01\x00\x00"])
        n = rng.choice([0, 1, 2, 3, 8, 18, 19, 20, cap, cap - 1, rng.randrange(0, cap + 1)])
        return rand_bytes(rng, max(0, min(n, cap)))

    def some_value(self):
        """a value likely to match something in the database"""
        rng = self.rng
        r = rng.choice(self.rows)
        if r["kind"] == "KDecl":
            return rng.choice([bytes([r["props"] & 0xFF]) + le16(r["handle"] + 1) + r["uuid"],
                               next(x["value"] for x in self.rows if x["handle"] == r["handle"] + 1)])
        return r["value"]

    def request(self):
        rng, m = self.rng, self.mtu
        k = rng.randrange(100)
        if k < 4:
            return ("ExchangeMtu", rng.choice([23, 24, 50, 100, 185, 247, 512, 517, rng.randrange(23, 518),
                                                rng.randrange(23, 518), 10, 0, 22, 600, 65535]))
        if k < 12:
            s, e = self.range()
            return ("FindInfo", s, e)
        if k < 24:
            s, e = self.range()
            ty = rng.choice([0x2800, 0x2800, 0x2801, 0x2802, 0x2803, 0x2803, 0x2902, 0x2901] +
                            [struct.unpack("<H", r["type"])[0] for r in self.rows if len(r["type"]) == 2][:40])
            v = self.some_value() if rng.random() < 0.7 else rand_bytes(rng, rng.randrange(0, 5))
            dups = dup_uuid_rows(self.rows)
            if dups and rng.random() < 0.35:
                # select by a characteristic UUID that several characteristics share, with the value of one of them
                d = rng.choice(dups)
                ty, v = struct.unpack("<H", d["type"])[0], d["value"]
                if rng.random() < 0.6:
                    s, e = 1, 0xFFFF
            return ("FindByTypeValue", s, e, ty, v[:max(0, m - 7)])
        if k < 31:
            s, e = self.range()
            return ("ReadByType", s, e, rng.choice([0x2803, 0x2803, 0x2802, 0x2802, 0x2800, 0x2A00, 0x2902, 0x2A19, 0xFFF1]))
        if k < 34:
            s, e = self.range()
            t128 = [r["type"] for r in self.rows if len(r["type"]) == 16]
            return ("ReadByType128", s, e, rng.choice(t128) if t128 and rng.random() < 0.6 else rand_bytes(rng, 16))
        if k < 44:
            return ("Read", self.handle())
        if k < 56:
            h = self.handle(["KValue", "KValue", "KDecl", "KCccd", "KDesc", "KPrimary", "KInclude"])
            row = next((r for r in self.rows if r["handle"] == h), None)
            L = len(row["value"]) if row else 0
            if row is not None and row["kind"] == "KDecl":
                L = rng.choice([L, len(next(x["value"] for x in self.rows if x["handle"] == h + 1)), 3 + len(row["uuid"])])
            off = rng.choice([0, 1, L, L, max(0, L - 1), L + 1, m - 1, rng.randrange(0, 600), 0xFFFF])
            return ("ReadBlob", h, off & 0xFFFF)
        if k < 58:
            return self.read_multiple()
        if k < 66:
            s, e = self.range()
            return ("ReadByGroupType", s, e, rng.choice([0x2800, 0x2800, 0x2801, 0x2802, 0x2803, 0x2902, 0x2901,
                                                         0x2904, 0x2A00, 0x1234]))
        if k < 76:
            h = self.handle(["KValue", "KValue", "KCccd", "KCccd", "KDesc", "KDecl"])
            return ("Write", h, self.value_for(h, m - 3))
        if k < 84:
            h = self.handle(["KValue", "KValue", "KCccd", "KCccd", "KDesc"])
            return ("WriteCmd", h, self.value_for(h, m - 3))
        if k < 90:
            h = self.handle(["KValue", "KValue", "KValue", "KCccd", "KDesc", "KDecl", "KPrimary"])
            row = next((r for r in self.rows if r["handle"] == h), None)
            L = len(row["value"]) if row else 0
            off = rng.choice([0, 0, L, L + 1, max(0, L - 1), 5, rng.randrange(0, 600)])
            return ("PrepareWrite", h, off, self.value_for(h, m - 5) if rng.random() < 0.3 else rand_bytes(rng, rng.randrange(0, min(m - 5, 12) + 1)))
        if k < 95:
            return ("ExecuteWrite", rng.choice([1, 1, 1, 0, 2, 3, 0x80, 0xFF]))
        if k == 95:
            return ("Indication", self.handle(), rand_bytes(rng, rng.randrange(0, 5)))
        if k == 96:
            return ("Notification", self.handle(), rand_bytes(rng, rng.randrange(0, 5)))
        if k == 97:
            return ("Confirmation",)
        if k == 98:
            return ("SignedWriteCmd", self.handle(["KValue"]), rand_bytes(rng, 13))
        x = rng.randrange(6)
        if x >= 4:
            return self.response_pdu()
        if x == 0:
            # unknown opcode that is neither a request (command flag, odd opcode): ignored
            return ("UnknownOp", rng.choice([0x21, 0x23, 0x3B, 0x60, 0x54, 0xE0]), rand_bytes(rng, rng.randrange(0, 5)))
        if x == 1:
            # known request whose parameters scapy cannot dissect (too short)
            op = rng.choice(KNOWN_REQUESTS)
            return ("UnknownOp", op, rand_bytes(rng, rng.randrange(0, 2) if op != 0x18 else 0))
        return ("UnknownOp", rng.choice([0x20, 0x20, 0x22, 0x3A, 0x14, 0xA0, 0x00]), rand_bytes(rng, rng.randrange(0, 5)))

    def read_multiple(self):
        """Read Multiple Request: any handles, or (half of the time) existing attributes that can be read over an
        unprotected link -- the same one several times included -- so that their values add up beyond the MTU"""
        rng = self.rng
        easy = [r["handle"] for r in self.rows
                if r["kind"] in ("KDesc", "KPrimary", "KSecondary", "KDecl", "KCccd")
                or (r["kind"] == "KValue" and (r["props"] & 2) and not (r["sec"] & 0x0F))]
        if easy and rng.random() < 0.5:
            return ("ReadMultiple", [rng.choice(easy) for _ in range(rng.randrange(2, 6))])
        return ("ReadMultiple", [self.handle() for _ in range(rng.randrange(1, 4))])

    def response_pdu(self):
        """a well-formed RESPONSE-type PDU sent by the client although the server asked nothing (a server queues
        Error Responses and Exchange MTU Responses for its own procedures and ignores the others): encoded as
        UnknownOp <odd opcode> <parameters> -- for the model a PDU that is neither request, command nor indication"""
        rng = self.rng
        h = le16(self.handle())
        k = rng.randrange(14)
        if k <= 3:
            return ("UnknownOp", 0x01, bytes([rng.choice([0x0A, 0x12, 0x52, 0x02, 0x1D, 0x20])]) + h
                    + bytes([rng.choice([0x01, 0x06, 0x0A, 0x0E, 0x80])]))
        if k <= 6:
            return ("UnknownOp", 0x03, le16(rng.choice([23, 23, 50, 185, 517, 0, 65535])))
        if k == 7:
            return ("UnknownOp", 0x05, b"\x01" + h + b"\x00\x28")
        if k == 8:
            return ("UnknownOp", 0x07, h + le16(0xFFFF))
        if k == 9:
            if rng.random() < 0.5:
                return ("UnknownOp", 0x11, b"\x06" + h + le16(0xFFFF) + b"\x00\x18")
            return ("UnknownOp", 0x09, b"\x04" + h + b"\x01\x02" if rng.random() < 0.5 else b"\x07" + h + b"\x02" + h + b"\x00\x2a")
        if k == 10:
            return ("UnknownOp", rng.choice([0x0B, 0x0D, 0x0F]), rand_bytes(rng, rng.randrange(0, 6)))
        if k == 11:
            return ("UnknownOp", rng.choice([0x13, 0x19]), b"")
        if k == 12:
            return ("UnknownOp", 0x17, h + le16(0) + rand_bytes(rng, rng.randrange(0, 4)))
        return ("Confirmation",)

    def response_history(self, n):
        """requests interleaved with unsolicited responses, sometimes dozens in a row"""
        rng = self.rng
        evs = []
        while len(evs) < n:
            x = rng.random()
            if x < 0.25:
                for _ in range(rng.choice([2, 5, 9, 12, 20, 40])):
                    evs.append({"op": "req", "req": self.response_pdu(), "hooks": {}})
                evs.append({"op": "req", "req": self.request(), "hooks": {}})
            elif x < 0.6:
                evs.append({"op": "req", "req": self.response_pdu(), "hooks": {}})
            else:
                evs.append(self.event())
        return evs

    def event(self):
        rng = self.rng
        x = rng.random()
        if self.link_events:
            if x < 0.05:
                return {"op": "sec", "enc": rng.random() < 0.6, "auth": rng.random() < 0.5}
            if x < 0.13 and self.by_kind.get("KDecl"):
                d = rng.choice(self.by_kind["KDecl"])["handle"]
                return {"op": "set", "handle": d, "value": rand_bytes(rng, rand_vlen(rng)).hex(),
                        "hooks": {k: v for k, v in rand_hooks(rng, self.hooks_p, self.allow_raise).items() if k in ("notif", "indic")}}
            if x < 0.15:
                self.connected = False
                return {"op": "disc"}
            if x < 0.18 or (not self.connected and x < 0.5):
                if not self.connected:
                    self.mtu = 23
                self.connected = True
                return {"op": "conn"}
        r = self.request()
        if r[0] == "ExchangeMtu" and r[1] >= 23 and self.connected:
            self.mtu = r[1]
        ev = {"op": "req", "req": r, "hooks": rand_hooks(rng, self.hooks_p, self.allow_raise)}
        acts = self.rand_acts(0.15 if self.hooks_p else 0.0)
        if acts:
            ev["acts"] = acts
        return ev

    def sub_history(self, n):
        """history focused on subscriptions: CCCD writes of every value by request / command,
        application writes on the same characteristics, disconnections and reconnections"""
        rng = self.rng
        cccds = self.by_kind.get("KCccd", [])
        if not cccds:
            return self.history(n)
        evs = []
        subs = [c for c in cccds if c["props"] & (P_NOTIFY | P_INDICATE)]
        if subs and rng.random() < 0.6:
            # subscribe to EVERY characteristic that can notify / indicate (homonyms in both orders, by request and
            # by command), update some, disconnect, update each of them, reconnect, update again
            order = list(subs)
            rng.shuffle(order)
            for c in order:
                both = (c["props"] & P_NOTIFY) and (c["props"] & P_INDICATE)
                v = (rng.choice([b"\x01\x00", b"\x02\x00"]) if both else
                     b"\x01\x00" if c["props"] & P_NOTIFY else b"\x02\x00")
                evs.append({"op": "req", "req": (rng.choice(["Write", "WriteCmd"]), c["handle"], v), "hooks": {}})
            upd = lambda: [{"op": "set", "handle": c["decl"], "value": rand_bytes(rng, rng.randrange(1, 6)).hex(), "hooks": {}}
                           for c in rng.sample(order, len(order))]
            evs += upd()[:2] + [{"op": "disc"}] + upd() + [{"op": "conn"}] + upd()[:2]
            self.connected, self.mtu = True, 23
        while len(evs) < n:
            c = rng.choice(cccds)
            x = rng.random()
            if x < 0.4 and self.connected:
                v = rng.choice([b"\x01\x00", b"\x02\x00", b"\x00\x00", b"\x03\x00", b"\x01\x00", b"\x02\x00", b"\x01", b"\x02"])
                evs.append({"op": "req", "req": (rng.choice(["Write", "Write", "WriteCmd"]), c["handle"], v),
                            "hooks": rand_hooks(rng, self.hooks_p, self.allow_raise)})
            elif x < 0.75:
                evs.append({"op": "set", "handle": c["decl"], "value": rand_bytes(rng, rand_vlen(rng)).hex(), "hooks": {}})
            elif x < 0.83:
                self.connected = False
                evs.append({"op": "disc"})
            elif x < 0.93:
                if not self.connected:
                    self.mtu = 23
                self.connected = True
                evs.append({"op": "conn"})
            else:
                evs.append(self.event())
        return evs

    def exec_history(self, n):
        """history focused on writes: link-security switches, then write / write command / prepare +
        execute on characteristic values, then reads"""
        rng = self.rng
        vals = self.by_kind.get("KValue", [])
        if not vals:
            return self.history(n)
        evs = []
        guarded = [v for v in vals if v["sec"] >> 4] or vals
        while len(evs) < n:
            v = rng.choice(guarded if rng.random() < 0.6 else vals)
            evs.append({"op": "sec", "enc": rng.random() < 0.5, "auth": rng.random() < 0.5})
            k = rng.choice([0, 1, 2, 3, 4, 4])
            data = rand_bytes(rng, rng.randrange(0, min(self.mtu - 5, 10) + 1))
            if k == 4:
                # several queued handles, more than one of which may fail at execution (offset beyond the value)
                pool = [w for w in vals if may_write(w, evs[-1]["enc"], evs[-1]["auth"])]
                pool = pool if len(pool) >= 2 and rng.random() < 0.8 else vals
                ws = rng.sample(pool, min(len(pool), rng.randrange(2, 4)))
                for w in ws:
                    Lw = len(w["value"])
                    evs.append({"op": "req", "req": ("PrepareWrite", w["handle"], rng.choice([0, Lw + 1, Lw + 1, Lw, 1]),
                                                     rand_bytes(rng, rng.randrange(0, 4))), "hooks": {}})
                evs.append({"op": "req", "req": ("ExecuteWrite", 1), "hooks": {}})
                for w in ws[1:]:
                    evs.append({"op": "req", "req": ("Read", w["handle"]), "hooks": {}})
            elif k == 0:
                evs.append({"op": "req", "req": ("Write", v["handle"], data), "hooks": {}})
            elif k == 1:
                evs.append({"op": "req", "req": ("WriteCmd", v["handle"], data), "hooks": {}})
            else:
                L = len(v["value"])
                if k == 3:
                    # mixed queue: a handle that is not a characteristic value first, the (protected) value after it
                    others = [r for r in self.rows if r["kind"] in ("KCccd", "KDecl", "KDesc", "KPrimary")]
                    o = rng.choice(others)
                    evs.append({"op": "req", "req": ("PrepareWrite", o["handle"], 0, rand_bytes(rng, rng.randrange(0, 3))), "hooks": {}})
                evs.append({"op": "req", "req": ("PrepareWrite", v["handle"], rng.choice([0, 0, L, 1, L + 1]), data), "hooks": {}})
                if rng.random() < 0.3:
                    evs.append({"op": "sec", "enc": rng.random() < 0.5, "auth": rng.random() < 0.5})
                if rng.random() < 0.3:
                    w = rng.choice(vals)
                    evs.append({"op": "req", "req": ("PrepareWrite", w["handle"], 0, rand_bytes(rng, 2)), "hooks": {}})
                evs.append({"op": "req", "req": ("ExecuteWrite", rng.choice([1, 1, 1, 1, 0])), "hooks": {}})
            evs.append({"op": "req", "req": (rng.choice(["Read", "ReadBlob"]),) + ((v["handle"],) if True else ()) , "hooks": {}})
            if evs[-1]["req"][0] == "ReadBlob":
                evs[-1]["req"] = ("ReadBlob", v["handle"], rng.choice([0, len(v["value"]), 1]))
        return evs

    def rand_acts(self, p=0.15):
        """characteristic updates performed by request-time hooks"""
        rng = self.rng
        decls = self.by_kind.get("KDecl", [])
        if not decls or rng.random() > p:
            return {}
        acts = {}
        for name in rng.sample(ACT_NAMES, rng.randrange(1, 3)):
            d = rng.choice(decls)["handle"] if rng.random() < 0.9 else rng.choice(self.handles)
            acts[name] = [d, rand_bytes(rng, rand_vlen(rng)).hex()]
        return acts

    def hook_history(self, n):
        """history focused on user hooks: subscriptions, then requests whose hooks return objects (also long
        bytes), override, raise, and update characteristics (the one accessed or a subscribed one)"""
        rng = self.rng
        decls = self.by_kind.get("KDecl", [])
        cccds = self.by_kind.get("KCccd", [])
        vals = self.by_kind.get("KValue", [])
        if not decls:
            return self.history(n)
        evs = []
        subscribed = []
        def outcome(kinds):
            k = rng.choice(kinds)
            if k == "retlong":
                return ["ret", ["bytes", rand_bytes(rng, rng.choice([23, 60, 300, 520])).hex()]]
            if k == "ret":
                return rng.choice([["ret"], ["ret", rand_ret(rng)]])
            if k == "val":
                return ["val", rand_bytes(rng, rng.choice([0, 3, 22, 23, 60])).hex()]
            if k == "err":
                return rng.choice([["authent"], ["author"], ["denied"], ["notfound"], ["gatterr", None, None, 0x80]])
            return ["raise"] if self.allow_raise else ["denied"]
        def target():
            if subscribed and rng.random() < 0.7:
                return rng.choice(subscribed)
            return rng.choice(decls)["handle"]
        while len(evs) < n:
            x = rng.random()
            if x < 0.2 and cccds:
                c = rng.choice(cccds)
                v = rng.choice([b"\x01\x00", b"\x02\x00", b"\x01\x00", b"\x00\x00"])
                ev = {"op": "req", "req": (rng.choice(["Write", "WriteCmd"]), c["handle"], v), "hooks": {}}
                if rng.random() < 0.4:
                    ev["hooks"]["sub"] = outcome(["ret", "ret", "err", "raise", "val"])
                    ev["acts"] = {"sub": [c["decl"], rand_bytes(rng, rng.randrange(0, 30)).hex()]} if rng.random() < 0.7 else {}
                if v != b"\x00\x00" and c["decl"] not in subscribed:
                    subscribed.append(c["decl"])
                evs.append(ev)
            elif x < 0.5 and vals:
                v = rng.choice(vals)
                ev = {"op": "req", "req": ("Read", v["handle"]) if rng.random() < 0.6 else
                      ("ReadBlob", v["handle"], rng.choice([0, 1, max(0, len(v["value"]) - 1)])),
                      "hooks": {"read": outcome(["retlong", "retlong", "ret", "val", "err", "raise"])}}
                if rng.random() < 0.5:
                    ev["acts"] = {"read": [rng.choice([v["decl"], target()]), rand_bytes(rng, rng.choice([0, 1, 5, 30, 60])).hex()]}
                evs.append(ev)
            elif x < 0.8 and vals:
                v = rng.choice(vals)
                hooks = {}
                for name in rng.sample(["write", "written", "written2"], rng.randrange(1, 3)):
                    hooks[name] = outcome(["ret", "ret", "val", "err", "raise"])
                ev = {"op": "req", "req": (rng.choice(["Write", "WriteCmd"]), v["handle"], rand_bytes(rng, rng.randrange(0, 12))),
                      "hooks": hooks}
                if rng.random() < 0.6:
                    ev["acts"] = {rng.choice(["write", "written", "written"]): [rng.choice([v["decl"], target()]),
                                                                               rand_bytes(rng, rng.choice([0, 2, 21, 40])).hex()]}
                evs.append(ev)
            elif x < 0.92:
                d = target()
                hooks = {}
                if rng.random() < 0.4:
                    hooks[rng.choice(["notif", "indic"])] = outcome(["ret", "val", "err", "raise"])
                    hooks.setdefault("notif", hooks.get("indic", ["ret"]))
                evs.append({"op": "set", "handle": d, "value": rand_bytes(rng, rand_vlen(rng)).hex(), "hooks": hooks})
            else:
                evs.append(self.event())
        return evs

    def mtu_history(self, n):
        """several Exchange MTU Requests on one connection (growing, shrinking, equal, invalid values), each followed
        by requests whose answers fill the MTU in force"""
        rng = self.rng
        evs = []
        longs = [r for r in self.rows if r["kind"] == "KValue" and len(r["value"]) > 22] or self.by_kind.get("KValue", [])
        while len(evs) < n:
            m = rng.choice([23, 23, 24, 40, 64, 100, 120, 185, 247, 517, rng.randrange(23, 518), 22, 0])
            evs.append({"op": "req", "req": ("ExchangeMtu", m), "hooks": {}})
            if m >= 23 and self.connected:
                self.mtu = m
            for _ in range(rng.randrange(1, 4)):
                x = rng.random()
                if x < 0.35 and longs:
                    v = rng.choice(longs)
                    evs.append({"op": "req", "req": ("Read", v["handle"]) if rng.random() < 0.6 else ("ReadBlob", v["handle"], rng.choice([0, 1])), "hooks": {}})
                elif x < 0.55:
                    evs.append({"op": "req", "req": ("FindInfo", 1, 0xFFFF), "hooks": {}})
                elif x < 0.7:
                    evs.append({"op": "req", "req": ("ReadByGroupType", 1, 0xFFFF, 0x2800), "hooks": {}})
                elif x < 0.8:
                    evs.append({"op": "req", "req": ("ReadByType", 1, 0xFFFF, 0x2803), "hooks": {}})
                elif x < 0.9:
                    evs.append({"op": "req", "req": self.read_multiple(), "hooks": {}})
                else:
                    evs.append(self.event())
        return evs

    def history(self, n):
        evs = []
        if self.rng.random() < 0.7:
            evs.append({"op": "req", "req": ("ExchangeMtu", self.rng.choice([23, 24, 30, 50, 100, 185, 247, 512, 517,
                                                                           self.rng.randrange(23, 518)])), "hooks": {}})
            self.mtu = evs[0]["req"][1]
        while len(evs) < n:
            evs.append(self.event())
        return evs


# ---------------------------------------------------------------------------------------------
# running the implementation, building Coq cases
# ---------------------------------------------------------------------------------------------
def run_impl(cases, chunk=60):
    """cases: list of (spec, events). Returns the driver's per-case results."""
    import concurrent.futures as cf
    parts = [cases[i:i + chunk] for i in range(0, len(cases), chunk)]
    def one(part):
        req = {"cases": [{"profile": spec, "steps": [event_step(e) for e in evs]} for spec, evs in part]}
        return C.run_impl("C07.py", req)["cases"]
    out = []
    with cf.ThreadPoolExecutor(max_workers=min(12, max(1, len(parts)))) as ex:
        for res in ex.map(one, parts):
            out.extend(res)
    return out


def obs_lit(step):
    return "(%s, %d, %s, %s)" % (
        clist([cbytes(bytes.fromhex(h)) for h in step["out"]]),
        EXC_CODE.get(step["exc"], 9),
        cbool(step["probe"]),
        clist(["(%d, %s)" % (int(h), cbytes(bytes.fromhex(v))) for h, v in sorted(step["vals"].items(), key=lambda kv: int(kv[0]))]))


def case_lit(spec, evs, res, fixed=True):
    rows = flatten(spec)
    # final values as observed: initial snapshot + deltas
    vals = dict(res["initial"])
    for st in res["steps"]:
        vals.update(st["vals"])
    fin = clist(["(%d, %s)" % (int(h), cbytes(bytes.fromhex(v))) for h, v in sorted(vals.items(), key=lambda kv: int(kv[0]))])
    steps = clist(["(%s, %s)" % (event_lit(e), obs_lit(s)) for e, s in zip(evs, res["steps"])])
    return "(%s, %s, %s, %s)" % (cbool(fixed), db_lit(rows), steps, fin)


# ---------------------------------------------------------------------------------------------
# reference permission model (C08) and ATT parsing helpers for the oracles
# ---------------------------------------------------------------------------------------------
def may(bits, enc, auth):
    """security requirement bits (1 enc, 2 authn, 4 author) vs link state"""
    if bits & 2 and not auth:
        return False
    if bits & 1 and not enc:
        return False
    if bits & 4:
        return False
    return True


def may_read(row, enc, auth):
    return bool(row["props"] & P_READ) and may(row["sec"] & 0xF, enc, auth)


def may_write(row, enc, auth):
    return bool(row["props"] & (P_WRITE | P_WNR)) and may((row["sec"] >> 4) & 0xF, enc, auth)


REQUEST_KINDS = {"ExchangeMtu", "FindInfo", "FindByTypeValue", "ReadByType", "ReadByType128", "Read", "ReadBlob",
                 "ReadMultiple", "ReadByGroupType", "Write", "PrepareWrite", "ExecuteWrite"}
COMMAND_KINDS = {"WriteCmd", "SignedWriteCmd", "Notification", "Confirmation"}


def parse_list_rsp(pdu):
    """-> list of (handle, item_len) for list responses, or None; raises ValueError if not an integral list"""
    op = pdu[0]
    if op == 0x05:
        isz = 4 if pdu[1] == 1 else 18 if pdu[1] == 2 else None
        body = pdu[2:]
    elif op == 0x07:
        isz, body = 4, pdu[1:]
    elif op in (0x09, 0x11):
        isz, body = pdu[1], pdu[2:]
    else:
        return None
    if not isz or len(body) == 0 or len(body) % isz:
        raise ValueError("list response body of %d bytes is not a whole number of %r-byte items" % (len(body), isz))
    return [struct.unpack("<H", body[i:i + 2])[0] for i in range(0, len(body), isz)]


def link_states(evs):
    """(enc, auth, connected) in force when each event is processed"""
    enc = auth = False
    conn = True
    res = []
    for e in evs:
        res.append((enc, auth, conn))
        if e["op"] == "sec" and conn:
            enc, auth = e["enc"], e["auth"]
        elif e["op"] == "disc":
            enc = auth = False
            conn = False
        elif e["op"] == "conn" and not conn:
            enc = auth = False
            conn = True
    return res


def load_corpus(pid):
    d = os.path.join(C.VERIF, "corpus", pid)
    out = []
    if os.path.isdir(d):
        for fn in sorted(os.listdir(d)):
            if fn.endswith(".json"):
                w = json.load(open(os.path.join(d, fn)))
                w["file"] = fn
                out.append(w)
    return out


def ev_from_json(e):
    e = dict(e)
    if e["op"] == "req":
        r = e["req"]
        e["req"] = tuple(bytes.fromhex(x[4:]) if isinstance(x, str) and x.startswith("hex:") else x for x in r)
    return e


def ev_to_json(e):
    e = dict(e)
    if e["op"] == "req":
        e["req"] = ["hex:" + x.hex() if isinstance(x, (bytes, bytearray)) else x for x in e["req"]]
    return e
