"""C16 — GATT profile model: handle layout invariants and JSON export/import round trip.
See DESIGN.md §2 C16 and design/C16.md.

Pipeline: (1) build + Print Assumptions of theories/C16; (2) generate profile definitions
(type()-built Profile classes) and add/update/remove operation sequences, corpus first;
(3) run the real whad.ble.profile code (harness/impl/C16.py); (4) oracle = the property
itself (layout invariants, lookups agree with the layout, JSON identity) evaluated on
what the real code produced; (5) correspondence: the same definitions and operations
through the Coq model, compared inside Coq; (6) verdict.
"""
import json, os
from harness import common as C
from harness.common import cbool, clist, cnat, cbytes

PID = "C16"
KEY_GAP = "remove-service-leaves-handle-gap"
MAX_REPLAYS = 8

PERM_WORDS = {"read": "PRead", "write": "PWrite", "write_without_response": "PWriteNoResp",
              "notify": "PNotify", "indicate": "PIndicate"}
PERM_BITS = {"PRead": 2, "PWrite": 8, "PWriteNoResp": 4, "PNotify": 16, "PIndicate": 32, "POther": 0}


# ---------------------------------------------------------------------------
# UUID specs
# ---------------------------------------------------------------------------

def uuid_packed(u):
    t = u["t"]
    if t == "i16":
        return int(u["v"]).to_bytes(2, "little")
    if t == "i128":
        return int(u["v"]).to_bytes(16, "little")
    if t == "s4":
        return bytes.fromhex(u["s"])[::-1]
    if t == "s36":
        return bytes.fromhex(u["s"].replace("-", ""))[::-1]
    return bytes.fromhex(u["h"])


def uuid_model(u):
    """(kind, value) the model sees for a UUID spec."""
    p = uuid_packed(u)
    return ("U16" if len(p) == 2 else "U128"), int.from_bytes(p, "little")


def uuid_text(u):
    t = u["t"]
    if t == "i16":
        return "%04X" % int(u["v"])
    if t == "i128":
        h = "%032x" % int(u["v"])
        return "-".join((h[:8], h[8:12], h[12:16], h[16:20], h[20:]))
    if t in ("s4", "s36"):
        return u["s"]
    p = bytes.fromhex(u["h"])
    if t == "b2":
        return "%04X" % int.from_bytes(p, "little")
    r = p[::-1]
    return "-".join(x.hex() for x in (r[0:4], r[4:6], r[6:8], r[8:10], r[10:]))


def c_uuid_kv(kind, val):
    return "(mkU %s %d)" % (kind, val)


def c_uuid(u):
    return c_uuid_kv(*uuid_model(u))


def obs_uuid(o):
    """UUID observed on the implementation ({"k","v","s"}) -> Coq literal (kind by packed length)."""
    return c_uuid_kv("U16" if o["k"] == 16 else "U128", int(o["v"]))


def rand_uuid16(rng, base, taken=None):
    while True:
        v = base + rng.randrange(0, 0x60)
        if taken is None or ("U16", v) not in taken:
            break
    f = rng.randrange(5)
    if f <= 1:
        return {"t": "i16", "v": v}
    if f == 2:
        return {"t": "s4", "s": ("%04x" if rng.random() < 0.5 else "%04X") % v}
    if f == 3:
        return {"t": "b2", "h": v.to_bytes(2, "little").hex()}
    return {"t": "i16", "v": v}


def rand_uuid128(rng, allow_int=False):
    raw = bytes(rng.randrange(256) for _ in range(16))
    f = rng.randrange(4)
    if allow_int and f <= 1:
        return {"t": "i128", "v": str(int.from_bytes(raw, "big") | (1 << 100))}
    if f <= 1:
        h = raw.hex()
        if rng.random() < 0.3:
            h = h.upper()
        return {"t": "s36", "s": "-".join((h[:8], h[8:12], h[12:16], h[16:20], h[20:]))}
    return {"t": "b16", "h": raw.hex()}


def rand_uuid(rng, base, p128=0.3, taken=None, allow_int=False):
    for _ in range(50):
        u = rand_uuid128(rng, allow_int) if rng.random() < p128 else rand_uuid16(rng, base)
        if taken is None or uuid_model(u)[1:] not in {t[1:] for t in taken}:
            return u
    return u


# ---------------------------------------------------------------------------
# Generation
# ---------------------------------------------------------------------------

VALUE_LENS = [0, 0, 1, 1, 2, 2, 3, 4, 5, 7, 8, 16, 19, 20, 21, 22, 23]
BIG_LENS = [255, 256, 257, 511, 512]
TEXTS = ["", "a", "Device name", "héllo", "温度", "x\x00y", "Temp °C", "\U0001F600 ok"]


def rand_value(rng, big_ok):
    if big_ok and rng.random() < 0.5:
        n = rng.choice(BIG_LENS)
    else:
        n = rng.choice(VALUE_LENS)
    return bytes(rng.choice([rng.randrange(256), 0, 255, 0x41]) for _ in range(n)).hex()


def rand_security(rng):
    r = rng.random()
    if r < 0.45:
        return None
    n = rng.choice([1, 1, 2, 2, 3])
    out = []
    for _ in range(n):
        typ = rng.choice(["r", "w", "r", "w", "b"])
        out.append([typ, rng.random() < 0.5, rng.random() < 0.5, rng.random() < 0.4])
    return out


def rand_ddef(rng):
    k = rng.choice(["cccd", "report", "user", "generic", "generic", "report"])
    d = {"k": k, "old": rng.random() < 0.2}
    if k == "cccd":
        d.update(notify=rng.random() < 0.5, indicate=rng.random() < 0.5)
    elif k == "user":
        d.update(text=rng.choice(TEXTS))
    elif k == "generic":
        r = rng.random()
        if r < 0.1:
            u = {"t": "i16", "v": rng.choice([0x2901, 0x2902, 0x2908])}   # generic class, registered UUID
        elif r < 0.35:
            u = rand_uuid128(rng)
        else:
            u = {"t": "i16", "v": rng.choice([0x2900, 0x2903, 0x2904, 0x2905, 0x2906, 0x290B])}
        n = rng.choice([0, 1, 2, 2, 3, 7, 16])
        v = bytes(rng.choice([rng.randrange(256), 0xff, 0xc3, 0x80]) for _ in range(n))
        d.update(uuid=u, value=v.hex())
    return d


PROP_CHOICES = [0, 0, 0, 2, 8, 10, 0x10, 0x20, 0x30, 0x12, 0x04, 0x0e, 0x40, 0x80, 0x01, 0xff, 0x3a]


def rand_cdef(rng, state):
    props = rng.choice(PROP_CHOICES) if rng.random() < 0.7 else rng.randrange(256)
    perms = None
    if rng.random() < 0.6:
        words = ["read", "write", "write_without_response", "notify", "indicate", "foo"]
        perms = [w for w in words if rng.random() < 0.3]
        perms = [(" " + w.upper() + " ") if rng.random() < 0.15 else w for w in perms]
        rng.shuffle(perms)
    big_ok = state["big_left"] > 0 and rng.random() < 0.25
    value = rand_value(rng, big_ok)
    if len(value) > 400:
        state["big_left"] -= 1
    sec = rand_security(rng)
    nd = rng.choice([0, 0, 0, 1, 1, 2, 3])
    return {"uuid": rand_uuid(rng, 0x2a00, 0.25, allow_int=state["allow_int"] and rng.random() < 0.6),
            "value": value, "properties": props, "permissions": perms,
            "notify": rng.random() < 0.2, "indicate": rng.random() < 0.15,
            "description": rng.choice(TEXTS) if rng.random() < 0.3 else None,
            "security": sec, "sec_single": rng.random() < 0.5, "sec_union": rng.random() < 0.5,
            "descriptors": [rand_ddef(rng) for _ in range(nd)]}


def rand_sdef(rng, state, name, kinds=("primary", "primary", "primary", "secondary", "standard")):
    kind = rng.choice(kinds)
    u = rand_uuid(rng, 0x1800, 0.3, taken=state["svc_uuids"], allow_int=state["allow_int"] and rng.random() < 0.8)
    state["svc_uuids"].add(uuid_model(u))
    nc = rng.choice([0, 1, 1, 2, 2, 3]) if kind != "secondary" else rng.choice([0, 0, 1, 2])
    incs = []
    if kind != "secondary" and rng.random() < 0.3:
        incs = [rand_uuid(rng, 0x1880, 0.3) for _ in range(rng.choice([1, 1, 2]))]
    return {"name": name, "kind": kind, "uuid": u, "includes": incs,
            "includes_first": rng.random() < 0.5,
            "chars": [rand_cdef(rng, state) for _ in range(nc)]}


def shape_of(sd):
    return {"uuid": uuid_model(sd["uuid"])[1], "u16": uuid_model(sd["uuid"])[0] == "U16",
            "primary": sd["kind"] != "secondary",
            "incs": [uuid_model(u)[1] for u in (sd["includes"] if sd["kind"] != "secondary" else [])],
            "chars": [dict(cd) for cd in sd["chars"]]}


def gen_case(rng, allow_int=False, allow_remove=True, nops=None, big=1):
    state = {"svc_uuids": set(), "big_left": big, "allow_int": allow_int}
    start = 1 if rng.random() < 0.6 else rng.choice([2, 3, 5, 16, 100, 0x1000, 0xF000])
    ns = rng.choice([0, 1, 1, 2, 2, 3, 4])
    services = [rand_sdef(rng, state, "s%02d" % i) for i in range(ns)]
    # one Characteristic TEMPLATE object (carrying non-CCCD descriptors) declared in several services
    if ns >= 2 and rng.random() < 0.4:
        cd = rand_cdef(rng, state)
        cd["description"] = cd["description"] if cd["description"] is not None else rng.choice(TEXTS)
        if rng.random() < 0.6:
            cd["descriptors"] = cd["descriptors"] + [rng.choice([{"k": "report", "old": False},
                                                                 {"k": "generic", "old": False, "uuid": {"t": "i16", "v": 0x2904}, "value": "0102"}])]
        cd["shared"] = 0
        for sd in rng.sample(services, rng.choice([2, 2, min(3, ns)])):
            sd["chars"].insert(rng.randrange(len(sd["chars"]) + 1), dict(cd))
    shapes = [shape_of(s) for s in services]
    ops = []
    nops = rng.choice([0, 0, 1, 2, 3, 4, 5, 6]) if nops is None else nops
    removed = False
    nadd = 0
    for _ in range(nops):
        kinds = ["add", "add", "update", "update", "addchar", "addchar", "delchar", "delchar", "adddesc", "adddesc"]
        if allow_remove:
            kinds += ["remove", "remove"]
        k = rng.choice(kinds)
        n = len(shapes)
        if k != "add" and n == 0:
            k = "add"
        if k == "add":
            sd = rand_sdef(rng, state, "a%02d" % nadd, kinds=("primary", "primary", "primary", "secondary"))
            if sd["kind"] == "secondary":
                sd["chars"] = []        # a bare SecondaryService(uuid) object
            nadd += 1
            ops.append({"op": "add", "svc": sd})
            shapes.append(shape_of(sd))
        elif k == "update":
            ops.append({"op": "update", "i": rng.randrange(n)})
        elif k == "addchar":
            i = rng.randrange(n)
            cd = rand_cdef(rng, state)
            ops.append({"op": "addchar", "i": i, "char": cd})
            shapes[i]["chars"].append(dict(cd))
        elif k == "adddesc":
            cands = [i for i in range(n) if shapes[i]["chars"]]
            if not cands:
                ops.append({"op": "update", "i": rng.randrange(n)})
                continue
            i = rng.choice(cands)
            ops.append({"op": "adddesc", "i": i, "j": rng.randrange(len(shapes[i]["chars"])), "desc": rand_ddef(rng)})
        elif k == "delchar":
            cands = [i for i in range(n) if shapes[i]["chars"]]
            if not cands:
                ops.append({"op": "update", "i": rng.randrange(n)})
                continue
            i = rng.choice(cands)
            j = rng.randrange(len(shapes[i]["chars"]))
            ops.append({"op": "delchar", "i": i, "j": j})
            del shapes[i]["chars"][j]
        else:
            i = rng.randrange(n)
            ops.append({"op": "remove", "i": i})
            del shapes[i]
            removed = True
    case = {"start": start, "explicit_start": rng.random() < 0.5, "services": services, "ops": ops,
            "again": [start + rng.choice([1, 2, 7, 100]), start]}
    finish_case(case, rng)
    return case


def apply_op_shape(cur, op):
    """Shapes of the registered services after one operation on the profile; (shapes, removed?)."""
    o = op["op"]
    if o == "add":
        return cur + [shape_of(op["svc"])], False
    if o == "addchar" and op["i"] < len(cur):
        cur = [dict(s, chars=list(s["chars"])) for s in cur]
        cur[op["i"]]["chars"].append(dict(op["char"]))
    elif o == "delchar" and op["i"] < len(cur) and op["j"] < len(cur[op["i"]]["chars"]):
        cur = [dict(s, chars=list(s["chars"])) for s in cur]
        del cur[op["i"]]["chars"][op["j"]]
    elif o == "adddesc" and op["i"] < len(cur) and op["j"] < len(cur[op["i"]]["chars"]):
        cur = [dict(s, chars=[dict(c, late=list(c.get("late", []))) for c in s["chars"]]) for s in cur]
        cur[op["i"]]["chars"][op["j"]]["late"].append(op["desc"])
    elif o == "remove" and op["i"] < len(cur):
        return cur[:op["i"]] + cur[op["i"] + 1:], True
    return cur, False


def history_shapes(case):
    """Expected shapes of the registered services after the build and after every step of the
    case (operation sequence or hand-assembly history): (shapes per step, removed-before?, labels)."""
    cur = [shape_of(s) for s in case["services"]]
    hist, rem, labels, removed = [cur], [False], [], False
    if "hops" not in case:
        for op in case["ops"]:
            cur, r = apply_op_shape(cur, op)
            removed = removed or r
            hist.append(cur); rem.append(removed); labels.append(op["op"])
        return hist, rem, labels
    pend = []
    for h in case["hops"]:
        t = h["h"]
        if t == "new":
            pm = uuid_model(h["uuid"])
            pend = pend + [{"uuid": pm[1], "u16": pm[0] == "U16", "primary": h["primary"], "incs": [], "chars": []}]
        elif t == "op":
            cur, r = apply_op_shape(cur, h["op"])
            removed = removed or r
        elif h["i"] < len(pend):
            if t == "register":
                cur = cur + [pend[h["i"]]]
                pend = pend[:h["i"]] + pend[h["i"] + 1:]
            else:
                pend = [dict(s, chars=[dict(c, late=list(c.get("late", []))) for c in s["chars"]], incs=list(s["incs"])) for s in pend]
                ps = pend[h["i"]]
                if t == "attach":
                    ps["chars"].append(dict(h["char"], late=[]))
                elif t == "incl":
                    ps["incs"].append(uuid_model(h["uuid"])[1])
                elif t == "desc" and h["j"] < len(ps["chars"]):
                    ps["chars"][h["j"]]["late"].append(h["desc"])
        hist.append(cur); rem.append(removed)
        labels.append(t if t != "op" else h["op"]["op"])
    return hist, rem, labels


def gen_hist(rng, allow_remove=True, nhops=None):
    """A hand-assembly history: service objects created empty, characteristics attached, descriptors
    added to already attached characteristics, include definitions added, in any order, interleaved
    with registrations and with operations on the profile."""
    state = {"svc_uuids": set(), "big_left": 0, "allow_int": False}
    start = rng.choice([1, 1, 1, 2, 5, 100, 0x1000])
    services = [rand_sdef(rng, state, "s%02d" % i) for i in range(rng.choice([0, 0, 1, 2]))]
    hops, npend, pchars, nreg, regchars = [], 0, [], len(services), [len(s["chars"]) for s in services]
    nhops = rng.choice([4, 6, 8, 10, 12]) if nhops is None else nhops
    nadd = 0
    for _ in range(nhops):
        kinds = ["new", "attach", "attach", "desc", "desc", "desc", "incl", "register", "register", "op", "op"]
        k = rng.choice(kinds)
        if npend == 0 and k in ("attach", "desc", "incl", "register"):
            k = "new"
        if k == "desc" and not any(pchars):
            k = "attach"
        if k == "new":
            u = rand_uuid(rng, 0x1800, 0.3, taken=state["svc_uuids"])
            state["svc_uuids"].add(uuid_model(u))
            hops.append({"h": "new", "primary": rng.random() < 0.8, "uuid": u})
            npend += 1; pchars.append(0)
        elif k == "attach":
            i = rng.randrange(npend)
            hops.append({"h": "attach", "i": i, "char": rand_cdef(rng, state)})
            pchars[i] += 1
        elif k == "desc":
            i = rng.choice([x for x in range(npend) if pchars[x]])
            hops.append({"h": "desc", "i": i, "j": rng.randrange(pchars[i]), "desc": rand_ddef(rng)})
        elif k == "incl":
            hops.append({"h": "incl", "i": rng.randrange(npend), "uuid": rand_uuid(rng, 0x1880, 0.3)})
        elif k == "register":
            i = rng.randrange(npend)
            hops.append({"h": "register", "i": i})
            regchars.append(pchars.pop(i)); npend -= 1; nreg += 1
        else:
            ok = ["add"] + (["update", "addchar"] if nreg else []) + (["delchar", "adddesc", "adddesc"] if any(regchars) else []) \
                 + (["remove"] if (nreg and allow_remove) else [])
            o = rng.choice(ok)
            if o == "add":
                sd = rand_sdef(rng, state, "a%02d" % nadd, kinds=("primary",)); nadd += 1
                hops.append({"h": "op", "op": {"op": "add", "svc": sd}}); nreg += 1; regchars.append(len(sd["chars"]))
            elif o == "update":
                hops.append({"h": "op", "op": {"op": "update", "i": rng.randrange(nreg)}})
            elif o == "addchar":
                i = rng.randrange(nreg)
                hops.append({"h": "op", "op": {"op": "addchar", "i": i, "char": rand_cdef(rng, state)}}); regchars[i] += 1
            elif o == "adddesc":
                i = rng.choice([x for x in range(nreg) if regchars[x]])
                hops.append({"h": "op", "op": {"op": "adddesc", "i": i, "j": rng.randrange(regchars[i]), "desc": rand_ddef(rng)}})
            elif o == "delchar":
                i = rng.choice([x for x in range(nreg) if regchars[x]])
                hops.append({"h": "op", "op": {"op": "delchar", "i": i, "j": rng.randrange(regchars[i])}}); regchars[i] -= 1
            else:
                i = rng.randrange(nreg)
                hops.append({"h": "op", "op": {"op": "remove", "i": i}}); nreg -= 1; del regchars[i]
    case = {"start": start, "services": services, "hops": hops}
    finish_case(case, rng)
    return case


def c_hop(h):
    t = h["h"]
    if t == "new":
        return "(HNew %s %s)" % (cbool(h["primary"]), c_uuid(h["uuid"]))
    if t == "attach":
        return "(HAttach %s %s)" % (cnat(h["i"]), c_cdef(h["char"]))
    if t == "desc":
        return "(HDesc %s %s %s)" % (cnat(h["i"]), cnat(h["j"]), c_ddef(h["desc"]))
    if t == "incl":
        return "(HIncl %s %s)" % (cnat(h["i"]), c_uuid(h["uuid"]))
    if t == "register":
        return "(HRegister %s)" % cnat(h["i"])
    return "(HOp %s)" % c_op(h["op"])


def c_hcase(case, res):
    return "(%d, %s, %s, %s, %s, %s)" % (
        case["start"], clist([c_sdef(s) for s in case["services"]]), clist([c_hop(h) for h in case["hops"]]),
        c_light(res["steps"][0]), clist([c_light(l) for l in res["steps"][1:]]),
        clist(["(%d, %s)" % (e["key"], c_attr(e)) for e in res["final"]]))


def final_shapes(case):
    if "hops" in case:
        hist, rem, _ = history_shapes(case)
        return hist[-1], rem[-1]
    shapes = [shape_of(s) for s in case["services"]]
    removed = False
    for op in case["ops"]:
        o = op["op"]
        if o == "add":
            shapes.append(shape_of(op["svc"]))
        elif o == "addchar" and op["i"] < len(shapes):
            shapes[op["i"]]["chars"].append(dict(op["char"]))
        elif o == "delchar" and op["i"] < len(shapes) and op["j"] < len(shapes[op["i"]]["chars"]):
            del shapes[op["i"]]["chars"][op["j"]]
        elif o == "remove" and op["i"] < len(shapes):
            del shapes[op["i"]]
            removed = True
    return shapes, removed


def finish_case(case, rng):
    """Attach the lookup queries (chosen from the expected size of the database)."""
    shapes, _ = final_shapes(case)
    total = sum(1 + len(s["incs"]) + sum(2 + 4 for _ in s["chars"]) for s in shapes) + 8
    lo, hi = case["start"], case["start"] + total
    ranges = [[0, 0xFFFF], [1, 0xFFFF], [lo, hi]]
    for _ in range(4):
        a = rng.randrange(max(0, lo - 2), hi + 1)
        b = rng.randrange(max(0, lo - 2), hi + 3)
        ranges.append([a, b])
    types = [{"t": "i16", "v": v} for v in (0x2800, 0x2801, 0x2802, 0x2803, 0x2901, 0x2902, 0x2908)]
    cu = [cd["uuid"] for s in shapes for cd in s["chars"]]
    all_ops = case["ops"] if "hops" not in case else [h["op"] for h in case["hops"] if h["h"] == "op"]
    all_defs = [s for s in case["services"]] + [op["svc"] for op in all_ops if op["op"] == "add"]
    su = [s["uuid"] for s in all_defs] + [h["uuid"] for h in case.get("hops", []) if h["h"] == "new"]
    by_type = [[t, 1, 0xFFFF] for t in types]
    for u in cu[:3]:
        by_type.append([u, 1, 0xFFFF])
    for t in types[:4]:
        a = rng.randrange(max(0, lo - 1), hi + 1)
        by_type.append([t, a, a + rng.randrange(0, 12)])
    absent16 = {"t": "i16", "v": 0x7777}
    absent128 = {"t": "b16", "h": "77" * 16}
    # a 128-bit UUID whose low 16 bits equal a 16-bit service UUID must not match it
    case["queries"] = {"hmax": None, "hmin": max(0, case["start"] - 2), "ranges": ranges, "by_type": by_type,
                       "svc_uuids": su + [absent16, absent128], "chr_uuids": cu[:6] + [absent16, absent128]}


# ---------------------------------------------------------------------------
# Coq literals
# ---------------------------------------------------------------------------

def hexbytes(h):
    return cbytes(bytes.fromhex(h))


def c_access(a):
    typ, enc, auth, authz = a
    return "(mkA %s %s %s %s)" % ({"r": "ARead", "w": "AWrite", "b": "ABase"}[typ], cbool(enc), cbool(auth), cbool(authz))


def c_ddef(d):
    k = d["k"]
    if k == "cccd":
        return "(DDcccd %s %s)" % (cbool(d["notify"]), cbool(d["indicate"]))
    if k == "report":
        return "DDreport"
    if k == "user":
        return "(DDuser %s)" % cbytes(d["text"].encode("utf-8"))
    return "(DDgeneric %s %s)" % (c_uuid(d["uuid"]), hexbytes(d["value"]))


def perm_model(words):
    return [PERM_WORDS.get(w.lower().strip(), "POther") for w in words]


def c_cdef(c):
    perms = "None" if c["permissions"] is None else "(Some %s)" % clist(perm_model(c["permissions"]))
    descr = "None" if c["description"] is None else "(Some %s)" % cbytes(c["description"].encode("utf-8"))
    sec = clist([c_access(a) for a in (c["security"] or [])])
    return "(mkCD %s %s %d %s %s %s %s %s %s)" % (
        c_uuid(c["uuid"]), hexbytes(c["value"]), c["properties"], perms, cbool(c["notify"]),
        cbool(c["indicate"]), descr, sec, clist([c_ddef(d) for d in c["descriptors"]]))


def c_sdef(s):
    kind = {"primary": "SKprimary", "secondary": "SKsecondary", "standard": "SKstandard"}[s["kind"]]
    incs = s["includes"] if s["kind"] != "secondary" else []
    return "(mkSD %s %s %s %s)" % (kind, c_uuid(s["uuid"]), clist([c_uuid(u) for u in incs]),
                                   clist([c_cdef(c) for c in s["chars"]]))


def c_op(op):
    o = op["op"]
    if o == "add":
        return "(OpAdd %s)" % c_sdef(op["svc"])
    if o == "update":
        return "(OpUpdate %s)" % cnat(op["i"])
    if o == "addchar":
        return "(OpAddChar %s %s)" % (cnat(op["i"]), c_cdef(op["char"]))
    if o == "delchar":
        return "(OpDelChar %s %s)" % (cnat(op["i"]), cnat(op["j"]))
    if o == "adddesc":
        return "(OpAddDesc %s %s %s)" % (cnat(op["i"]), cnat(op["j"]), c_ddef(op["desc"]))
    return "(OpRemove %s)" % cnat(op["i"])


CLS_CODE = {"svc": 0, "inc": 1, "chr": 2, "val": 3, "dsc": 4, "other": 9}
EXC_CODE = {"KeyError": 1, "IndexError": 2, "TypeError": 3, "ValueError": 4, "InvalidHandleValueException": 5}


def c_light(l):
    db = clist(["(%d, %d, %d)" % (k, CLS_CODE[c], h) for k, c, h in l["db"]])
    nxt = "None" if l["next"] is None else "(Some %d)" % l["next"]
    return "(%s, %s, %s)" % (db, nxt, clist(["(%d, %d)" % (a, b) for a, b in l["svcs"]]))


def c_attr(e):
    c = e["cls"]
    if c == "svc":
        return "(ASvc %d %s %s %d)" % (e["handle"], cbool(e["primary"]), obs_uuid(e["uuid"]), e["end"])
    if c == "inc":
        return "(AIncl %d %s)" % (e["handle"], obs_uuid(e["uuid"]))
    if c == "chr":
        return "(AChar %d %s %d %d %d %s)" % (e["handle"], obs_uuid(e["uuid"]), e["props"], e["vhandle"], e["end"],
                                               clist([c_access(a) for a in e["sec"]]))
    if c == "val":
        return "(AVal %d %s %s %d)" % (e["handle"], obs_uuid(e["type"]), hexbytes(e["value"]),
                                        e["chr"] if e["chr"] is not None else 0)
    if c == "dsc":
        dk = {"cccd": "DKcccd", "report": "DKreport", "user": "DKuser", "generic": "DKgeneric"}[e["dkind"]]
        return "(ADesc %d %s %s %s)" % (e["handle"], dk, obs_uuid(e["uuid"]), hexbytes(e["value"]))
    return "ADangling"


def c_lres(x):
    if isinstance(x, dict):
        return "(LExc %s)" % x["exc"] if x["exc"] in EXC_CODE else "(LExc OutOfModel)"
    if x is None:
        return "LNone"
    return "(LSome %d)" % x


def c_look(case, lk):
    bh = clist(["None" if isinstance(x, dict) else "(Some (%d, %d))" % (CLS_CODE[x[0]], x[1]) for x in lk["by_handle"]])
    v2c = clist([c_lres(x) for x in lk["val2chr"]])
    c2s = clist([c_lres(x) for x in lk["chr2svc"]])
    q = case["queries"]
    rg = clist(["(%d, %d, %s)" % (a, b, clist(["(%d, %d)" % (CLS_CODE[c], h) for c, h in r]))
                for (a, b), r in zip(q["ranges"], lk["ranges"]) if not isinstance(r, dict)])
    bt = clist(["(%s, %d, %d, %s)" % (c_uuid(u), a, b, clist([str(h) for h in r]))
                for (u, a, b), r in zip(q["by_type"], lk["by_type"]) if not isinstance(r, dict)])
    sv = clist(["(%s, %s)" % (c_uuid(u), "None" if r is None else "(Some %d)" % r)
                for u, r in zip(q["svc_uuids"], lk["svc_by_uuid"]) if not isinstance(r, dict)])
    ch = clist(["(%s, %s)" % (c_uuid(u), "None" if r is None else "(Some %d)" % r)
                for u, r in zip(q["chr_uuids"], lk["chr_by_uuid"]) if not isinstance(r, dict)])
    return "(mkLK %d %s %s %s %s %s %s %s)" % (lk["hmin"], bh, v2c, c2s, rg, bt, sv, ch)


def safe_hex(h):
    try:
        return cbytes(bytes.fromhex(h))
    except (ValueError, TypeError):
        return "[999]"


def c_jsvc(s):
    chars = []
    for c in s["chars"]:
        descs = clist(["(mkJD %d %s %s)" % (max(d["handle"], 0), obs_uuid(d["uuid"]), safe_hex(d["value"])) for d in c["descs"]])
        chars.append("(mkJC %d %d %d %d %s %s %s)" % (max(c["handle"], 0), max(c["props"], 0), c["sec"] if c["sec"] >= 0 else 99999,
                                                      max(c["vhandle"], 0), obs_uuid(c["vuuid"]), safe_hex(c["data"]), descs))
    return "(mkJS %s %s %d %d %s)" % (obs_uuid(s["uuid"]), obs_uuid(s["type"]), max(s["start"], 0), max(s["end"], 0), clist(chars))


def c_case(case, res):
    re_ = res["reimport"]
    if "exc" in re_:
        reimp, code = "None", EXC_CODE.get(re_["exc"], 98)
    else:
        reimp, code = "(Some (%s, %s, %s))" % (clist([c_jsvc(s) for s in re_["export"]]),
                                               clist(["(%d, %d, %d)" % (k, CLS_CODE[c], h) for k, c, h in re_["db"]]),
                                               c_look(case, re_["lookups"])), 0
    return "(mkCase %d %s %s %s %s %s %s %s %s %s %d)" % (
        case["start"], clist([c_sdef(s) for s in case["services"]]), clist([c_op(o) for o in case["ops"]]),
        c_light(res["steps"][0]), clist(["(%d, %s)" % (a["start"], c_light(a["light"])) for a in res.get("again", [])]),
        clist([c_light(l) for l in res["steps"][1:]]),
        clist(["(%d, %s)" % (e["key"], c_attr(e)) for e in res["final"]]),
        c_look(case, res["lookups"]), clist([c_jsvc(s) for s in res["export"]]), reimp, code)


# ---------------------------------------------------------------------------
# Oracle: the property itself on what the implementation produced
# ---------------------------------------------------------------------------

def sec_to_int(sec):
    """Reference of the security encoding (bit 0..2 read: enc, auth, authz; 4..6 write)."""
    out, w = 0, False
    for typ, enc, auth, authz in sec:
        w = {"r": False, "w": True, "b": w}[typ]
        bits = (1 if enc else 0) | (2 if auth else 0) | (4 if authz else 0)
        out |= bits << (4 if w else 0)
    return out


def expected_props(cd):
    p = cd["properties"]
    if cd["permissions"] is not None:
        for w in perm_model(cd["permissions"]):
            p |= PERM_BITS[w]
    if cd["notify"]:
        p |= 16
    if cd["indicate"]:
        p |= 32
    return p


def check_layout(start, light, shapes, strong):
    """Invariants of the statement on a (key, class, obj.handle) dump + service ranges.
    Returns (list of problems, list of gap problems)."""
    bad, gaps = [], []
    keys = [k for k, _c, _h in light["db"]]
    if len(set(keys)) != len(keys):
        bad.append("duplicate handle in the attribute database")
    for k, c, h in light["db"]:
        if k != h:
            bad.append("attribute registered at handle %d carries handle %d" % (k, h))
            break
    # every listed service range internally covered; gaps only between services
    svcs = light["svcs"]
    if len(svcs) != len(shapes):
        bad.append("profile lists %d services, %d expected" % (len(svcs), len(shapes)))
    covered = set()
    prev_end = start - 1
    for i, (h, e) in enumerate(svcs):
        if e < h:
            bad.append("service %d: end handle %d < handle %d" % (i, e, h))
        if h <= prev_end:
            bad.append("service %d: range [%d,%d] overlaps/precedes previous end %d" % (i, h, e, prev_end))
        if h != prev_end + 1:
            gaps.append("gap before service at %d (previous attribute ends at %d)" % (h, prev_end))
        for x in range(h, e + 1):
            covered.add(x)
        prev_end = e
    if set(keys) != covered:
        missing = sorted(covered - set(keys))[:5]
        extra = sorted(set(keys) - covered)[:5]
        bad.append("attribute DB handles differ from the union of the service ranges (missing %s, outside any service %s)" % (missing, extra))
    if light["next"] is not None:
        if light["next"] <= prev_end:
            bad.append("next free handle %d is not above the last attribute %d" % (light["next"], prev_end))
        elif light["next"] != prev_end + 1:
            gaps.append("next free handle %d leaves a gap after the last attribute %d" % (light["next"], prev_end))
    return bad, gaps


def check_final(case, res, shapes):
    """Structure of the final database against the definitions (declaration order, value
    right after the declaration, descriptors after the value, service range = own attributes),
    lookups against the layout, export against the database."""
    bad = []
    db = {e["key"]: e for e in res["final"]}
    svc_entries = sorted((e for e in res["final"] if e["cls"] == "svc"), key=lambda e: e["key"])
    if len(svc_entries) != len(shapes):
        bad.append("%d service attributes in the DB, %d services expected" % (len(svc_entries), len(shapes)))
        return bad
    for se, sh in zip(svc_entries, shapes):
        h = se["handle"]
        if int(se["uuid"]["v"]) != sh["uuid"] or se["primary"] != sh["primary"]:
            bad.append("service at %d is not the expected one (order of services)" % h)
            continue
        want = h + 1
        if len(se["incs"]) != len(sh["incs"]):
            bad.append("service at %d: %d include definitions, %d declared" % (h, len(se["incs"]), len(sh["incs"])))
        for ih, iu in zip(se["incs"], sh["incs"]):
            e = db.get(ih)
            if ih != want or e is None or e["cls"] != "inc" or int(e["uuid"]["v"]) != iu:
                bad.append("service at %d: include definition expected at %d, found at %d (%s)" % (h, want, ih, e and e["cls"]))
            want += 1
        if len(se["chars"]) != len(sh["chars"]):
            bad.append("service at %d: %d characteristics, %d declared" % (h, len(se["chars"]), len(sh["chars"])))
            continue
        for ch, cd in zip(se["chars"], sh["chars"]):
            e = db.get(ch)
            if ch != want or e is None or e["cls"] != "chr":
                bad.append("service at %d: characteristic declaration expected at %d, found at %d" % (h, want, ch))
                break
            if int(e["uuid"]["v"]) != uuid_model(cd["uuid"])[1]:
                bad.append("characteristic at %d is not the declared one (declaration order)" % ch)
            if e["props"] != expected_props(cd):
                bad.append("characteristic at %d: properties %d, declared %d" % (ch, e["props"], expected_props(cd)))
            if e["sec"] != [list(a) for a in (cd["security"] or [])]:
                bad.append("characteristic at %d: security %r, declared %r" % (ch, e["sec"], cd["security"]))
            v = db.get(ch + 1)
            if e["vhandle"] != ch + 1 or e["vattr"] != ch + 1 or v is None or v["cls"] != "val" or v["chr"] != ch:
                bad.append("characteristic at %d: value not right after the declaration" % ch)
            elif v["value"] != cd["value"]:
                bad.append("characteristic at %d: value differs from the declared one" % ch)
            want = ch + 2
            for dh in e["descs"]:
                d = db.get(dh)
                if dh != want or d is None or d["cls"] != "dsc":
                    bad.append("characteristic at %d: descriptor expected at %d, found at %d" % (ch, want, dh))
                want += 1
            if e["end"] != want - 1:
                bad.append("characteristic at %d: end handle %d, last own attribute %d" % (ch, e["end"], want - 1))
            # declared descriptors: every non-CCCD one present in order with its value; one CCCD iff needed
            got = [db[dh] for dh in e["descs"] if dh in db and db[dh]["cls"] == "dsc"]
            decl = []
            if cd["description"] is not None:
                decl.append(("2901", cd["description"].encode("utf-8").hex()))
            ncccd_decl = 0
            for dd in cd["descriptors"]:
                if dd["k"] == "cccd":
                    ncccd_decl += 1
                elif dd["k"] == "report":
                    decl.append(("2908", "0101"))
                elif dd["k"] == "user":
                    decl.append(("2901", dd["text"].encode("utf-8").hex()))
                else:
                    decl.append((uuid_text(dd["uuid"]).lower(), dd["value"]))
            nlate_cccd = 0
            for dd in cd.get("late", []):          # added with add_descriptor after the construction
                if dd["k"] == "cccd":
                    nlate_cccd += 1
                elif dd["k"] == "report":
                    decl.append(("2908", "0101"))
                elif dd["k"] == "user":
                    decl.append(("2901", dd["text"].encode("utf-8").hex()))
                else:
                    decl.append((uuid_text(dd["uuid"]).lower(), dd["value"]))
            got_other = [(d["uuid"]["s"].lower(), d["value"]) for d in got if d["dkind"] != "cccd"]
            if got_other != decl:
                bad.append("characteristic at %d: descriptors %r, declared %r" % (ch, got_other, decl))
            ncccd = sum(1 for d in got if d["dkind"] == "cccd")
            want_cccd = (1 if ((expected_props(cd) & 0x30) or ncccd_decl) else 0) + nlate_cccd
            if ncccd != want_cccd:
                bad.append("characteristic at %d: %d CCC descriptors, %d expected" % (ch, ncccd, want_cccd))
        if se["end"] != want - 1:
            bad.append("service at %d: end handle %d but its last own attribute is %d" % (h, se["end"], want - 1))
    bad += check_lookups_py(case, res["final"], res["lookups"])
    return bad


def check_lookups_py(case, final, lk):
    """Every lookup of the profile agrees with the attributes its database holds (the layout):
    by handle, by value handle, by characteristic handle, by handle range, by attribute type
    (as a set: the order in which attr_by_type_uuid yields is not part of the property),
    by service / characteristic UUID.  `final` = the full dump of that profile."""
    bad = []
    db = {e["key"]: e for e in final}
    svc_entries = sorted((e for e in final if e["cls"] == "svc"), key=lambda e: e["key"])
    q = case["queries"]
    for h, r in enumerate(lk["by_handle"], lk["hmin"]):
        e = db.get(h)
        exp = {"exc": "IndexError"} if e is None else [e["cls"], e["handle"]]
        if (r if not isinstance(r, dict) else {"exc": r["exc"]}) != exp:
            bad.append("find_object_by_handle(%d) = %r, layout says %r" % (h, r, exp)); break
    for h, r in enumerate(lk["val2chr"], lk["hmin"]):
        e = db.get(h)
        exp = {"exc": "IndexError"} if e is None else (e["chr"] if e["cls"] == "val" else None)
        if (r if not isinstance(r, dict) else {"exc": r["exc"]}) != exp:
            bad.append("find_characteristic_by_value_handle(%d) = %r, layout says %r" % (h, r, exp)); break
    owner = {}
    for se in svc_entries:
        for ch in se["chars"]:
            owner[ch] = se["handle"]
    for h, r in enumerate(lk["chr2svc"], lk["hmin"]):
        exp = owner.get(h, {"exc": "InvalidHandleValueException"})
        if (r if not isinstance(r, dict) else {"exc": r["exc"]}) != exp:
            bad.append("find_service_by_characteristic_handle(%d) = %r, layout says %r" % (h, r, exp)); break
    for h, r in enumerate(lk["chr_end"], lk["hmin"]):
        if h in owner and h in db and db[h]["cls"] == "chr" and r != db[h]["end"]:
            bad.append("find_characteristic_end_handle(%d) = %r, layout says %r" % (h, r, db[h]["end"])); break
    for (a, b), r in zip(q["ranges"], lk["ranges"]):
        exp = [[db[k]["cls"], db[k]["handle"]] for k in sorted(db) if a <= k <= b]
        if r != exp:
            bad.append("find_objects_by_range(%d,%d) = %r, layout says %r" % (a, b, r if isinstance(r, dict) else r[:12], exp[:12])); break
    for (u, a, b), r in zip(q["by_type"], lk["by_type"]):
        pk = uuid_packed(u)
        exp = sorted(k for k in db if a <= k <= b and
                     int(db[k]["type"]["v"]) == int.from_bytes(pk, "little") and db[k]["type"]["k"] == (16 if len(pk) == 2 else 128))
        if isinstance(r, dict) or sorted(r) != exp:
            bad.append("attr_by_type_uuid(%s,%d,%d) = %r, layout says %r" % (uuid_text(u), a, b, r, exp)); break
    for name in ("svc_by_uuid", "svc_by_uuid_old"):
        for u, r in zip(q["svc_uuids"], lk[name]):
            pk = uuid_packed(u)
            cands = [e["handle"] for e in svc_entries if int(e["uuid"]["v"]) == int.from_bytes(pk, "little")
                     and e["uuid"]["k"] == (16 if len(pk) == 2 else 128)]
            if isinstance(r, dict) or (r is None and cands) or (r is not None and r not in cands):
                bad.append("%s(%s) = %r, layout says %r" % (name, uuid_text(u), r, cands)); break
    for u, r in zip(q["chr_uuids"], lk["chr_by_uuid"]):
        pk = uuid_packed(u)
        cands = [e["handle"] for e in final if e["cls"] == "chr" and int(e["uuid"]["v"]) == int.from_bytes(pk, "little")
                 and e["uuid"]["k"] == (16 if len(pk) == 2 else 128)]
        if isinstance(r, dict) or (r is None and cands) or (r is not None and r not in cands):
            bad.append("char(%s) = %r, layout says %r" % (uuid_text(u), r, cands)); break
    return bad


def check_export(res):
    """export_json agrees with the database (handles, UUIDs, properties, security, values,
    descriptors)."""
    bad = []
    db = {e["key"]: e for e in res["final"]}
    svc_entries = sorted((e for e in res["final"] if e["cls"] == "svc"), key=lambda e: e["key"])
    ex = res["export"]
    if len(ex) != len(svc_entries):
        return ["export lists %d services, the database has %d" % (len(ex), len(svc_entries))]
    for js, se in zip(ex, svc_entries):
        if (js["start"], js["end"], js["uuid"]["s"]) != (se["handle"], se["end"], se["uuid"]["s"]):
            bad.append("export of service at %d: start/end/uuid differ from the database" % se["handle"])
        if js["type"]["s"] != ("2800" if se["primary"] else "2801"):
            bad.append("export of service at %d: type_uuid %s" % (se["handle"], js["type"]["s"]))
        if [c["handle"] for c in js["chars"]] != se["chars"]:
            bad.append("export of service at %d: characteristic handles differ" % se["handle"]); continue
        for jc in js["chars"]:
            e = db.get(jc["handle"])
            if e is None or e["cls"] != "chr":
                bad.append("export: no characteristic at %d in the database" % jc["handle"]); continue
            v = db.get(e["vhandle"])
            if jc["uuid"]["s"] != "2803":
                bad.append("export of characteristic at %d: uuid %s" % (jc["handle"], jc["uuid"]["s"]))
            if jc["props"] != e["props"]:
                bad.append("export of characteristic at %d: properties %d, database %d" % (jc["handle"], jc["props"], e["props"]))
            if jc["sec"] != sec_to_int(e["sec"]):
                bad.append("export of characteristic at %d: security %d, requirements %r encode to %d" % (jc["handle"], jc["sec"], e["sec"], sec_to_int(e["sec"])))
            if jc["vhandle"] != e["vhandle"] or jc["vuuid"]["s"] != e["uuid"]["s"]:
                bad.append("export of characteristic at %d: value handle/uuid differ" % jc["handle"])
            if v is not None and v["cls"] == "val" and jc["data"] != v["value"]:
                bad.append("export of characteristic at %d: value differs" % jc["handle"])
            if [d["handle"] for d in jc["descs"]] != e["descs"]:
                bad.append("export of characteristic at %d: descriptor handles differ" % jc["handle"]); continue
            for jd in jc["descs"]:
                d = db.get(jd["handle"])
                if d is None or d["cls"] != "dsc" or jd["uuid"]["s"] != d["uuid"]["s"] or jd["value"] != d["value"]:
                    bad.append("export of descriptor at %d differs from the database" % jd["handle"])
    return bad


def oracle(ctx, case, res, tag):
    """Returns number of (non-known) violations recorded."""
    n = 0
    small = {"start": case["start"], "services": case["services"], "ops": case.get("ops", []), "again": case.get("again", []),
             "explicit_start": case.get("explicit_start", False), "queries": case["queries"], "tag": tag}
    if "hops" in case:
        small["hops"] = case["hops"]
    if "exc" in res and res.get("stage") != "reimport":
        n += ctx.violation("%s raised %s (%s)" % (res["stage"], res["exc"], res.get("msg", "")), small,
                           expected="no exception", observed={k: res[k] for k in ("exc", "stage", "msg") if k in res})
        return n
    shapes_hist, removed_hist, labels = history_shapes(case)
    # further instances of the same class: own objects, correct layout at their start handle,
    # and the FIRST instance untouched (database, every attribute field, JSON export)
    for a in res.get("again", []):
        bad, gaps = check_layout(a["start"], a["light"], shapes_hist[0], True)
        if bad or gaps:
            n += ctx.violation("second instance of the profile class (start handle %d): %s" % (a["start"], (bad + gaps)[0]), small,
                               expected="same layout from its own start handle", observed={"problems": (bad + gaps)[:5], "second": a["light"]})
            return n
        if not a["disjoint"]:
            n += ctx.violation("two instances of one profile class share attribute objects", small,
                               expected="every instance has its own objects", observed={"second_start": a["start"]})
            return n
        if not a["first_same"]:
            stale = [[k, h] for k, _c, h in a["first_light"]["db"] if k != h]
            n += ctx.violation("building a second instance (start handle %d) changed the first one%s" % (
                               a["start"], (": attribute registered at %d now carries handle %d" % tuple(stale[0])) if stale else " (fields / export differ)"), small,
                               expected="first instance untouched", observed={"first_now": a["first_light"], "first_before": res["steps"][0]})
            return n
    # the service OBJECT right after add_characteristic / remove_characteristic on a registered service,
    # before update_service re-registers it: its own handles must already be laid out consistently
    for k, (what, lay) in sorted(res.get("mid", {}).items(), key=lambda kv: int(kv[0])):
        want, bad = lay["handle"] + 1, None
        for ih in lay["incs"]:
            if ih != want:
                bad = "include definition at %d, expected %d" % (ih, want)
            want += 1
        for ch, vh, ce, ds in lay["chars"]:
            if bad is None and (ch != want or vh != ch + 1 or ds != list(range(ch + 2, ch + 2 + len(ds))) or ce != ch + 1 + len(ds)):
                bad = "characteristic handles %r, expected a declaration at %d with value and descriptors right after" % ([ch, vh, ce, ds], want)
            want = ch + 2 + len(ds)
        if bad is None and lay["end"] != want - 1:
            bad = "service end handle %d, last own attribute %d" % (lay["end"], want - 1)
        if bad:
            n += ctx.violation("service object inconsistent right after %s (step %s, before update_service): %s" % (what, k, bad), small,
                               expected="handles of the service object laid out contiguously from its own handle", observed=lay)
            return n
    for k, light in enumerate(res["steps"]):
        bad, gaps = check_layout(case["start"], light, shapes_hist[k], not removed_hist[k])
        where = "after the build" if k == 0 else "after step %d (%s)" % (k - 1, labels[k - 1])
        if bad:
            n += ctx.violation("layout invariant broken %s: %s" % (where, bad[0]), small, expected="distinct, consistent handles; DB = union of service ranges",
                               observed={"problems": bad[:6], "step": light})
            return n
        if gaps:
            if removed_hist[k]:
                ctx.violation("handles not contiguous %s: %s" % (where, gaps[0]), small, key=KEY_GAP,
                              expected="contiguous from the start handle", observed=gaps[:4])
            else:
                n += ctx.violation("handles not contiguous %s: %s" % (where, gaps[0]), small,
                                   expected="contiguous from the start handle", observed={"problems": gaps[:4], "step": light})
                return n
    bad = check_final(case, res, shapes_hist[-1])
    if bad:
        n += ctx.violation("final database / lookups disagree with the declared layout: %s" % bad[0], small,
                           expected="declaration order, value right after declaration, descriptors after value, lookups = layout",
                           observed={"problems": bad[:8]})
        return n
    bad = check_export(res)
    if bad:
        n += ctx.violation("export_json disagrees with the attribute database: %s" % bad[0], small,
                           expected="export = database", observed={"problems": bad[:8], "export": res.get("export_text", "")[:1500]})
        return n
    re_ = res["reimport"]
    if "exc" in re_:
        n += ctx.violation("Profile(from_json=export) raised %s (%s)" % (re_["exc"], re_.get("msg", "")), small,
                           expected="import succeeds and exports identically", observed=re_)
    elif not re_["same"]:
        n += ctx.violation("export(import(export p)) differs from export p", small,
                           expected=res.get("export_text", "")[:1500], observed=re_["export"])
    else:
        # the re-imported profile: its database keeps every handle under the attribute that carries it,
        # and ALL its lookups agree with that database
        ikeys = [k for k, _c, _h in re_["db"]]
        stale = [[k, h] for k, _c, h in re_["db"] if k != h]
        if len(set(ikeys)) != len(ikeys) or stale:
            n += ctx.violation("re-imported profile: attribute registered under a handle it does not carry", small,
                               expected="key = handle", observed=stale[:5])
            return n
        bad = check_lookups_py(case, re_["final"], re_["lookups"])
        if bad:
            n += ctx.violation("lookups on the re-imported profile disagree with its database: %s" % bad[0], small,
                               expected="lookups = layout, whatever the registration order", observed={"problems": bad[:8], "db_order": re_["db"][:40]})
    return n


# ---------------------------------------------------------------------------
# run
# ---------------------------------------------------------------------------

def load_corpus():
    out = []
    d = os.path.join(C.VERIF, "corpus", PID)
    for fn in sorted(os.listdir(d)) if os.path.isdir(d) else []:
        if fn.endswith(".json"):
            w = json.load(open(os.path.join(d, fn)))
            out.append((fn, w))
    return out


def sec_cases(rng, n):
    out = []
    for _ in range(n):
        k = rng.choice([0, 1, 1, 2, 2, 3, 4])
        out.append({"sec": [[rng.choice(["r", "w", "b"]), rng.random() < 0.5, rng.random() < 0.5, rng.random() < 0.5]
                            for _ in range(k)], "union": rng.random() < 0.5})
    return out


def run(ctx):
    C.build_dir(PID, clean=True)
    ctx.cov["trusted_base"] = [
        "Coq 8.16.1 kernel + vm_compute (no native_compute); theorems closed under the global context (Print Assumptions checked each run)",
        "hand-written model coq/theories/C16/Model.v tied to whad/ble/profile/{__init__,service,characteristic,attribute}.py and SecurityAccess by the correspondence of this run (sampled)",
        "the Python dict __attr_db is modelled as an association list in insertion order with dict semantics (assignment keeps the position of an existing key, new keys go last); iteration order is compared exactly, after every step and on the re-imported profile",
        "UUID text <-> UUID object parsing (UUID.__init__/__repr__) is not modelled: a UUID is (kind, value) and UUID(str(u)) is taken to give u back for the 4-character and 8-4-4-4-12 texts every constructor form produces; the re-import and the exact text identity of export(import(export p)) are checked by the oracle on the implementation for every constructor form (int16, str4, bytes2, str36, bytes16, int128)",
        "remove_service locates the service by UUID, the model by identity: equal when the service UUIDs of a profile are pairwise distinct (generator guarantees it)",
        "UTF-8 encode/decode of user descriptions (str -> bytes -> str) taken as identity on text built from str",
    ]
    ctx.assumptions = ["start handle >= 1", "service UUIDs of one profile pairwise distinct",
                       "operations address services/characteristics that exist (index in range)",
                       "JSON identity: handles non-zero (implied by start >= 1)"]
    proofs_ok, detail = ctx.check_proofs(lib_targets=["theories/Lib/Bytes.vo"])
    ctx.log("proofs:", proofs_ok, detail.splitlines()[0][:300])

    rng = ctx.rng
    cases, tags = [], []
    for fn, w in load_corpus():
        c = w["case"]
        if "queries" not in c:
            finish_case(c, rng)
        c.setdefault("again", [c["start"] + 7, c["start"]])
        cases.append(c); tags.append("corpus:" + fn)
    n_main = 2500 if ctx.thorough else 260
    for i in range(n_main):
        cases.append(gen_case(rng, allow_int=(i % 5 == 2), allow_remove=(i % 3 != 0), big=1 if i % 4 == 0 else 0))
        tags.append("gen")
    # sequences that stress update/add interplay (the historical off-by-one) and shrinking
    for i in range(300 if ctx.thorough else 40):
        c = gen_case(rng, allow_remove=False, nops=0, big=0)
        st = {"svc_uuids": {uuid_model(s["uuid"]) for s in c["services"]}, "big_left": 0, "allow_int": False}
        n = len(c["services"])
        if n:
            c["ops"].append({"op": rng.choice(["update", "update", "delchar"]), "i": rng.randrange(n), "j": 0})
            if c["ops"][-1]["op"] == "update":
                del c["ops"][-1]["j"]
        c["ops"].append({"op": "add", "svc": rand_sdef(rng, st, "z00", kinds=("primary",))})
        finish_case(c, rng)
        cases.append(c); tags.append("update-then-add")
    # services assembled by hand, in any order of the primitive operations, interleaved with the operations
    for i in range(500 if ctx.thorough else 45):
        cases.append(gen_hist(rng, allow_remove=(i % 3 != 0)))
        tags.append("hand-assembly")
    sec_req = sec_cases(rng, 3000 if ctx.thorough else 300)
    req_ints = list(range(256)) + [256, 0x177, 0xFFFF, 1 << 40]
    t_impl = C.run_impl("C16.py", {"cases": cases, "sec": sec_req, "ints": req_ints})
    results = t_impl["cases"]
    ctx.log("implementation ran %d cases" % len(results))
    ctx.cov["evaluations"] = len(cases) + len(t_impl["sec"]) + len(t_impl["ints"])
    ctx.cov["traces_validated_against_impl"] = len(cases)

    # ---- oracle -----------------------------------------------------------------
    nviol = 0
    for case, res, tag in zip(cases, results, tags):
        if len(ctx.violations) >= MAX_REPLAYS:       # enough concrete failing inputs recorded
            break
        nviol += oracle(ctx, case, res, tag)
    # SecurityAccess conversions: int -> accesses -> int keeps the six defined bits
    for nval, r in zip(req_ints, t_impl["ints"]):
        if "exc" in r or r["int2"] != (nval & 0x77):
            nviol += ctx.violation("SecurityAccess.accesses_to_int(int_to_accesses(%d)) != %d" % (nval, nval & 0x77),
                                   {"int": nval}, expected=nval & 0x77, observed=r)
            break
    for c, r in zip(sec_req, t_impl["sec"]):
        want = sec_to_int(c["sec"])
        if "exc" in r or r["int"] != want or r["int2"] != want:
            nviol += ctx.violation("SecurityAccess.accesses_to_int / int_to_accesses do not round-trip the requirements",
                                   {"sec": c}, expected=want, observed=r)
            break
    ctx.log("oracle: %d violations, known findings hit: %s" % (nviol, sorted(ctx.known_hits)))

    # ---- correspondence ------------------------------------------------------------
    pre = "From Whad Require Import Lib.Bytes C16.Model.\nOpen Scope N_scope."
    terms, idx = [], []
    hterms, hidx = [], []
    for i, (case, res) in enumerate(zip(cases, results)):
        if "exc" in res:
            continue
        if "hops" in case:
            hterms.append(c_hcase(case, res)); hidx.append(i)
            continue
        terms.append(c_case(case, res)); idx.append(i)
    bad, logs = C.run_cases(PID, "cases", pre, "ccase", terms, "check_case", shard=40, max_chars=300000)
    ctx.notes += logs[:4]
    bad_h, logs_h = C.run_cases(PID, "hist", pre, "N * list sdef * list hop * lightobs * list lightobs * list (N * attr)",
                                hterms, "check_hcase", shard=12, max_chars=300000)
    if bad_h:                      # reported through the same verdict path as the other cases
        bad = bad + [len(idx) + b for b in bad_h]
    idx = idx + hidx
    logs = logs + logs_h
    sec_terms = []
    for c, r in zip(sec_req, t_impl["sec"]):
        if "exc" in r:
            continue
        sec_terms.append("(%s, %d, %s, %d)" % (clist([c_access(a) for a in c["sec"]]), r["int"],
                                               clist([c_access(a) for a in r["back"]]), r["int2"]))
    bad_sec, logs2 = C.run_cases(PID, "sec", pre, "list access * N * list access * N", sec_terms, "check_sec", shard=400)
    int_terms = ["(%d, %s, %d)" % (nval, clist([c_access(a) for a in r["back"]]), r["int2"])
                 for nval, r in zip(req_ints, t_impl["ints"]) if "exc" not in r]
    bad_int, logs3 = C.run_cases(PID, "ints", pre, "N * list access * N", int_terms, "check_int", shard=400)
    ctx.log("correspondence: %d cases %d bad; sec %d/%d bad; ints %d/%d bad" %
            (len(terms), len(bad), len(bad_sec), len(sec_terms), len(bad_int), len(int_terms)))

    # ---- evidence --------------------------------------------------------------------
    fill_coverage(ctx, cases, results, tags)
    ctx.cov["correspondence"] = {"cases": len(terms), "bad": len(bad), "sec_cases": len(sec_terms), "sec_bad": len(bad_sec),
                                 "int_cases": len(int_terms), "int_bad": len(bad_int)}

    # ---- verdict ------------------------------------------------------------------------
    if bad or bad_sec or bad_int or not proofs_ok:
        if not ctx.violations:
            first = None
            if bad:
                i = idx[bad[0]]
                first = {"case": strip_case(cases[i]), "impl": {k: results[i].get(k) for k in ("steps", "export_text")}, "tag": tags[i]}
            elif bad_sec:
                first = {"sec": sec_req[bad_sec[0]], "impl": t_impl["sec"][bad_sec[0]]}
            elif bad_int:
                first = {"int": req_ints[bad_int[0]], "impl": t_impl["ints"][bad_int[0]]}
            what = ("correspondence C16.Model vs whad.ble.profile (%d case, %d security, %d int disagreements)" % (len(bad), len(bad_sec), len(bad_int))
                    if (bad or bad_sec or bad_int) else "proof obligations of theories/C16: " + detail.splitlines()[0][:200])
            ctx.broken_obligation(what, detail if not proofs_ok else "\n".join(logs + logs2 + logs3), first)


def strip_case(c):
    return {k: c[k] for k in ("start", "explicit_start", "services", "ops", "hops", "queries", "again") if k in c}


def fill_coverage(ctx, cases, results, tags):
    okc = [(c, r) for c, r in zip(cases, results) if "exc" not in r]
    nontrivial = [strip_case(c) for c, r in okc if len(r["final"]) >= 4]
    ctx.cov["distinct_nontrivial"] = C.distinct_count(nontrivial)
    ctx.cov["rule"] = ("a case = start handle + Profile class definition (services, included services, characteristics with "
                       "properties/permissions/security/descriptors, 16/128-bit UUIDs in every constructor form, values 0..512 bytes) "
                       "+ a sequence of add/update/addchar+update/delchar+update/remove operations; non-trivial = final database "
                       "of >= 4 attributes; distinct by content hash")
    opk = {}
    for c in cases:
        for o in c.get("ops", []) + [h["op"] for h in c.get("hops", []) if h["h"] == "op"]:
            opk[o["op"]] = opk.get(o["op"], 0) + 1
        for h in c.get("hops", []):
            if h["h"] != "op":
                opk["hand:" + h["h"]] = opk.get("hand:" + h["h"], 0) + 1
    kinds = {}
    dk = {}
    ukinds = {}
    nsec = 0
    maxval = 0
    ninc = 0
    for c, r in okc:
        for e in r["final"]:
            kinds[e["cls"]] = kinds.get(e["cls"], 0) + 1
            if e["cls"] == "dsc":
                dk[e["dkind"]] = dk.get(e["dkind"], 0) + 1
            if e["cls"] == "val":
                maxval = max(maxval, len(e["value"]) // 2)
            if e["cls"] == "chr" and e["sec"]:
                nsec += 1
            if e["cls"] == "inc":
                ninc += 1
            u = e.get("uuid")
            if u:
                ukinds[len(u["s"])] = ukinds.get(len(u["s"]), 0) + 1
    sizes = sorted(len(r["final"]) for _c, r in okc)
    ctx.cov["distribution"] = {
        "cases": len(cases), "cases_with_exception": len(cases) - len(okc),
        "tags": {t: tags.count(t) for t in sorted(set(tags))},
        "ops": opk, "op_sequence_lengths": {str(k): sum(1 for c in cases if len(c.get("ops", c.get("hops", []))) == k) for k in range(0, 8)},
        "final_attribute_classes": kinds, "descriptor_kinds": dk, "uuid_text_lengths": ukinds,
        "characteristics_with_security": nsec, "max_value_len": maxval, "include_definitions": ninc,
        "db_size_min_median_max": [sizes[0], sizes[len(sizes) // 2], sizes[-1]] if sizes else [],
        "start_handles": sorted({c["start"] for c in cases}),
        "reimport_exceptions": sum(1 for _c, r in okc if "exc" in r["reimport"]),
        "model_branches": {"add_service(handle==0 -> setter)": opk.get("add", 0) + sum(len(c["services"]) for c in cases),
                           "update_at": opk.get("update", 0) + opk.get("addchar", 0) + opk.get("delchar", 0),
                           "remove_at": opk.get("remove", 0),
                           "uuid built from a 128-bit int": sum(1 for c, _r in okc if '"i128"' in json.dumps(c["services"]) + json.dumps(c.get("ops", [])))},
        "uncovered_branches": ["remove_at: KeyError (unreachable under the invariant)", "import: OutOfModel (zero handles never exported)",
                               "update_at/remove_at with an index out of range (not generated)"],
    }
    samples = []
    for c, r in okc[:400]:
        if len(c.get("ops", [])) >= 2 and len(samples) < 3:
            samples.append({"start": c["start"], "services": [[s["kind"], uuid_text(s["uuid"]), len(s["chars"]), len(s["includes"])] for s in c["services"]],
                            "ops": [o["op"] for o in c["ops"]], "final_db": [[e["key"], e["cls"]] for e in r["final"]][:30],
                            "reimport_same": r["reimport"].get("same")})
    ctx.cov["samples"] = samples
    ctx.cov["source_ties"] = [C.source_tie("whad/ble/profile/__init__.py", 171, 330), C.source_tie("whad/ble/profile/__init__.py", 367, 540),
                              C.source_tie("whad/ble/profile/__init__.py", 600, 760),
                              C.source_tie("whad/ble/profile/service.py", 19, 310), C.source_tie("whad/ble/profile/service.py", 415, 560),
                              C.source_tie("whad/ble/profile/characteristic.py", 38, 135), C.source_tie("whad/ble/profile/characteristic.py", 320, 520),
                              C.source_tie("whad/ble/profile/characteristic.py", 690, 740),
                              C.source_tie("whad/ble/profile/attribute.py", 513, 660), C.source_tie("whad/ble/stack/att/constants.py", 121, 235)]


def replay(payload):
    case = payload.get("case") or (payload.get("first_disagreeing_case") or {}).get("case")
    print(json.dumps(payload.get("what")))
    if not case or "services" not in case:
        print(json.dumps(case)[:2000])
        return 0
    r = C.run_impl("C16.py", {"cases": [case]})["cases"][0]
    print("definition: start=%d services=%s" % (case["start"], [[s["kind"], uuid_text(s["uuid"]), len(s["chars"])] for s in case["services"]]))
    print("operations:", [dict((k, v) for k, v in o.items() if k in ("op", "i", "j")) for o in case.get("ops", [])])
    if "hops" in case:
        print("history:", [dict((k, v) for k, v in h.items() if k in ("h", "i", "j", "primary")) for h in case["hops"]])
    for k, l in enumerate(r.get("steps", [])):
        print("step %d: next=%s services=%s db=%s" % (k, l.get("next"), l.get("svcs"), l.get("db")))
    for k in ("exc", "stage", "msg"):
        if k in r:
            print(k, "=", r[k])
    if "reimport" in r:
        print("reimport:", {k: v for k, v in r["reimport"].items() if k != "export"})
    return 0
