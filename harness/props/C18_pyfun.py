"""C18 — the pure block/keystream arithmetic of whad/lorawan/crypto.py and whad/unifying/crypto.py that is
translated from the source on every run (harness/translators/pyfun.py) and proved equal to the hand-written
model (coq/theories/C18/GenEq.v against the snapshot coq/theories/C18/Gen.v).  See design/PYTRANS.md."""

LW = "whad/lorawan/crypto.py"
UN = "whad/unifying/crypto.py"
TITLE = "C18 — Gallina generated from whad/lorawan/crypto.py and whad/unifying/crypto.py"
MODEL_IMPORT = "From Whad Require Import Lib.Xor C18.Model."


def _bytes(rng, n):
    return bytes(rng.randrange(256) for _ in range(n))


def _u32(rng):
    return rng.choice([0, 1, 255, 256, 65535, 65536, 2 ** 24, 2 ** 32 - 1, rng.randrange(0, 2 ** 32)])


def gen_mic(rng):
    return {"dev_addr": _u32(rng), "fcnt": _u32(rng), "frame": _bytes(rng, rng.choice([0, 1, 12, 16, 17, 64, 200, 254, 255, rng.randrange(0, 256)]))}


def gen_blocks(rng):
    n = rng.choice([0, 1, 15, 16, 17, 31, 32, 33, 48, 100, rng.randrange(0, 250)])
    return {"dev_addr": _u32(rng), "fcnt": _u32(rng), "frame": _bytes(rng, n), "uplink": rng.random() < 0.5}


def gen_xor(rng):
    n = rng.choice([0, 1, 15, 16, 17, 33, rng.randrange(0, 80)])
    ks = _bytes(rng, ((n + 15) // 16) * 16 + rng.choice([0, 0, 16]))
    return {"frame": _bytes(rng, n), "ks": ks, "frame_length": n}


def gen_fxor(rng):
    return {"fopts": _bytes(rng, rng.randrange(0, 16)), "ks": _bytes(rng, 16)}


MIC_IN = [["dev_addr", "dev_addr", "N"], ["fcnt", "fcnt", "N"], ["frame", "frame", "bytes"]]
BLK_IN = MIC_IN + [["uplink", "uplink", "bool"]]

ITEMS = [
    # B0 blocks of the MIC: pack('<BIBIIBB', 0x49, 0, dir, dev_addr, fcnt, 0, len(frame))
    {"path": LW, "qualname": "MIC_Uplink",
     "spec": {"name": "mic_b0_uplink", "mode": "expr", "select": {"rhs_of": "b0"}, "inputs": MIC_IN},
     "model": "lw_block 73 0 dev_addr fcnt (N.of_nat (length frame))", "model_when": "(length frame <? 256)%nat",
     "gen": gen_mic,
     "live": "def live(a):\n    return FRAG({'dev_addr': a['dev_addr'], 'fcnt': a['fcnt'], 'frame': a['frame']})\n"},
    {"path": LW, "qualname": "MIC_Downlink",
     "spec": {"name": "mic_b0_downlink", "mode": "expr", "select": {"rhs_of": "b0"}, "inputs": MIC_IN},
     "model": "lw_block 73 1 dev_addr fcnt (N.of_nat (length frame))", "model_when": "(length frame <? 256)%nat",
     "gen": gen_mic,
     "live": "def live(a):\n    return FRAG({'dev_addr': a['dev_addr'], 'fcnt': a['fcnt'], 'frame': a['frame']})\n"},
    # encrypt_frame: number of A_i blocks and the blocks themselves (up to `c = AES.new(...)`)
    {"path": LW, "qualname": "encrypt_frame",
     "spec": {"name": "encrypt_frame_blocks", "mode": "prefix", "stop_at": "assign:c", "returns": ["nb_blocks", "ai_blocks"],
              "inputs": BLK_IN},
     "model": "(lw_nblocks (length frame), map (fun i => lw_block 1 (if uplink then 0 else 1) dev_addr fcnt (N.of_nat i)) (seq 1 (lw_nblocks (length frame))))",
     "model_when": "(length frame <=? 4080)%nat", "gen": gen_blocks, "ncases": 120,
     "live": "def live(a):\n    return FRAG({'dev_addr': a['dev_addr'], 'fcnt': a['fcnt'], 'frame': a['frame'], 'uplink': a['uplink']})\n"},
    # encrypt_frame: output = b''; for i in range(frame_length): output += bytes([frame[i] ^ ks[i]])
    {"path": LW, "qualname": "encrypt_frame",
     "spec": {"name": "encrypt_frame_xor", "mode": "prefix", "start_at": "assign:output", "stop_at": "Return", "returns": ["output"],
              "inputs": [["frame", "frame", "bytes"], ["ks", "ks", "bytes"], ["frame_length", "frame_length", "nat"]]},
     "model": "xor_bytes frame ks", "model_when": "(frame_length =? length frame)%nat && (length frame <=? length ks)%nat", "gen": gen_xor,
     "live": "def live(a):\n    return FRAG({'frame': a['frame'], 'ks': a['ks'], 'frame_length': a['frame_length']})\n"},
    # encrypt_fopts: the single block A_0 and the xor loop
    {"path": LW, "qualname": "encrypt_fopts",
     "spec": {"name": "encrypt_fopts_block", "mode": "expr", "select": {"rhs_of": "ai_block"},
              "inputs": [["dev_addr", "dev_addr", "N"], ["fcnt", "fcnt", "N"], ["uplink", "uplink", "bool"]]},
     "model": "lw_block 1 (if uplink then 0 else 1) dev_addr fcnt 0", "gen": gen_blocks,
     "live": "def live(a):\n    return FRAG({'dev_addr': a['dev_addr'], 'fcnt': a['fcnt'], 'uplink': a['uplink']})\n"},
    {"path": LW, "qualname": "encrypt_fopts",
     "spec": {"name": "encrypt_fopts_xor", "mode": "prefix", "start_at": "assign:output", "stop_at": "Return", "returns": ["output"],
              "inputs": [["fopts", "fopts", "bytes"], ["ks", "ks", "bytes"]]},
     "model": "xor_bytes fopts ks", "model_when": "(length fopts <=? length ks)%nat", "gen": gen_fxor,
     "live": "def live(a):\n    return FRAG({'fopts': a['fopts'], 'ks': a['ks']})\n"},
    # Logitech Unifying: the AES input block around the big-endian counter
    {"path": UN, "qualname": "LogitechUnifyingCryptoManager.generateAESInputData",
     "spec": {"name": "un_aes_input", "inputs": [["counter", "counter", "N"]]},
     "model": "un_aes_in (be_bytes 4 counter)", "gen": lambda rng: {"counter": _u32(rng)},
     "live": "def live(a):\n    return MOD.LogitechUnifyingCryptoManager.generateAESInputData(OBJ(MOD.LogitechUnifyingCryptoManager), a['counter'])\n"},
]
