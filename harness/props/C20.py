"""C20 — 802.15.4 MAC back to back: addressed delivery, intact payload, fresh-ACK success.
See DESIGN.md §2 C20 and design/C20.md.

Pipeline: (0) translator: PANID_COMPRESSION_TABLE / MACAddressMode / _choose_pan_id_compression
-> Gallina, compared with theories/C20/Gen.v (re-proved in a scratch copy when the text differs);
(1) build + Print Assumptions of theories/C20; (2) generate requests over the addressing
product, raw (malformed) frames, acknowledgement operation sequences, compression inputs;
(3) run two real MAC stacks joined by a fake PHY under virtual time (harness/impl/C20.py);
(4) oracle = the property itself on the real code's observables; (5) correspondence model vs
implementation evaluated inside Coq; (6) verdict.
"""
import importlib.util
import json
import os
import re
import shutil

from harness import common as C
from harness.common import cbytes, cbool, clist, copt
from harness.props import pyfun_util

PID = "C20"
KEY_DEST_NONE = "dest-mode-none"
MAC_REL = "whad/dot15d4/stack/mac/__init__.py"
EXC_CODE = {"error": 1, "NameError": 2, "KeyError": 3}
BUDGET = 5


IMPL_WALL_S = {"quick": 150, "thorough": 900}
_TIER = ["quick"]


def impl(request, wall=None):
    """Driver call under a hard wall-clock limit. A driver that does not come back in time is a
    machinery failure with a verdict (CheckBroken -> VIOLATION ... no-failing-input-found), never a
    silent death; single cases that block are already cut by the driver itself (WallClock)."""
    import subprocess
    limit = wall or IMPL_WALL_S[_TIER[0]]
    try:
        return C.run_impl("C20.py", request, timeout=limit)
    except subprocess.TimeoutExpired:
        raise C.CheckBroken("impl driver C20.py exceeded its wall-clock limit of %d s (%s)"
                            % (limit, ", ".join("%s: %d cases" % (k, len(v)) for k, v in request.items()
                                                if isinstance(v, list))))


def _translator():
    p = os.path.join(C.VERIF, "harness", "translators", "C20_panid.py")
    spec = importlib.util.spec_from_file_location("C20_panid", p)
    m = importlib.util.module_from_spec(spec)
    spec.loader.exec_module(m)
    return m


# ---------------------------------------------------------------------------
# Coq literals
# ---------------------------------------------------------------------------

def c_pib(n):
    return ("{| macPanId := %d; macShortAddress := %d; macExtendedAddress := %d; macPromiscuousMode := %s; "
            "macImplicitBroadcast := %s |}" % (n["pan"], n["short"], n["ext"], cbool(n.get("promisc", False)),
                                               cbool(n.get("implicit", False))))


def c_req(r):
    return ("{| q_sam := %d; q_dam := %d; q_dpan := %s; q_daddr := %s; q_suppressed := %s; q_msdu := %s |}"
            % (r["sam"], r["dam"], copt(r["dpan"], str), copt(r["daddr"], str), cbool(r.get("suppressed", False)),
               cbytes(bytes.fromhex(r["payload"]))))


def c_ind(i):
    return "(%s, %s, %s, %s, %s)" % (cbytes(bytes.fromhex(i[0])), copt(i[1], str), copt(i[2], str),
                                     copt(i[3], str), copt(i[4], str))


ATTRS = {"macPanId": "APanId", "macShortAddress": "AShort", "macExtendedAddress": "AExt",
         "macPromiscuousMode": "APromisc", "macImplicitBroadcast": "AImplicit"}


def c_hop(o):
    if o[0] == "F":
        return "HSend %s" % c_req(o[1])
    if o[0] == "U":
        return "HUpd (USet %s %d)" % (ATTRS[o[2]], int(o[3]))
    if o[0] == "START":
        return "HUpd (UStart %d)" % o[1]
    if o[0] == "ASSOC_FAIL":
        return "HUpd (UAssocFail %d)" % o[1]
    if o[0] == "ASSOC_OK":
        return "HUpd (UAssocOk %d %d)" % (o[1], o[3])
    if o[0] == "RESET":
        return "HUpd UReset"
    raise ValueError(o)


def c_hist(h):
    return clist(["EAck %d" % e[1] if e[0] == "A" else "ETimeout" for e in h])


def c_op(o):
    if o[0] == "O":
        return "OpOverhear %d" % o[1]
    return "OpSend %s %s" % (cbool(o[1]), c_hist(o[2]))


# ---------------------------------------------------------------------------
# The property, evaluated independently of the Coq model
# ---------------------------------------------------------------------------

def fits_mode(mode, v):
    return 0 <= v < (1 << 16) if mode == 1 else 0 <= v < (1 << 64)


def req_valid(a, r):
    dpan = 0xFFFF if r["dpan"] is None else r["dpan"]
    daddr = 0xFFFF if r["daddr"] is None else r["daddr"]
    ok = 0 <= dpan < 65536 and a["pan"] < 65536 and a["short"] < 65536 and a["ext"] < (1 << 64)
    if r["dam"] == 1:
        ok = ok and fits_mode(1, daddr)
    else:
        ok = ok and fits_mode(2, daddr)
    return ok


def addr_oracle(c, res):
    """Returns list of (what, key, expected, observed) failures of the property on this case."""
    a, b, r = c["A"], c["B"], c["req"]
    fails = []
    valid = req_valid(a, r)
    if not valid:
        # outside the property's domain (the address does not fit the addressing mode): the request
        # may raise, but then nothing may be sent or indicated
        if "exc" in res and (res["frames"] or res["ind"]):
            fails.append(("invalid request raised but a frame was sent/indicated", None, [], res))
        return fails
    key = KEY_DEST_NONE if r["dam"] == 0 else None
    if "exc" in res:
        fails.append(("valid data request raised " + res["exc"], key, "no exception", res["exc"]))
        return fails
    seq0 = r.get("seq0", 0)
    if len(res["frames"]) != 1:
        fails.append(("data request did not hand exactly one frame to the PHY", key, 1, res["frames"]))
        return fails
    fr = bytes.fromhex(res["frames"][0])
    if len(fr) < 3 or fr[2] != seq0:
        fails.append(("frame does not carry macDataSequenceNumber", key, seq0, res["frames"][0]))
    if res["seq_after"] != (seq0 + 1) % 256:
        fails.append(("macDataSequenceNumber not incremented modulo 256", key, (seq0 + 1) % 256, res["seq_after"]))
    if res.get("ret") is not True:
        fails.append(("unacknowledged data request did not return True", key, True, res.get("ret")))
    dpan = 0xFFFF if r["dpan"] is None else r["dpan"]
    daddr = 0xFFFF if r["daddr"] is None else r["daddr"]
    if r["dam"] == 0:
        should = bool(b.get("promisc")) or bool(b.get("implicit"))
        exp_d = (None, None)
    else:
        addressed = (dpan in (b["pan"], 0xFFFF)) and (daddr in (b["short"], b["ext"], 0xFFFF))
        should = bool(b.get("promisc")) or addressed
        exp_d = (dpan, daddr)
    ind = res["ind"]
    if should and len(ind) != 1:
        fails.append(("frame addressed to the peer (or promiscuous peer) not indicated exactly once", key, 1, ind))
    if not should and ind:
        fails.append(("frame not addressed to the peer indicated although the peer is not promiscuous", key, [], ind))
    if should and len(ind) == 1:
        pl, idp, ida, isp, isa = ind[0]
        if pl != r["payload"]:
            fails.append(("indicated payload differs from the msdu", key, r["payload"], pl))
        if (idp, ida) != exp_d:
            fails.append(("indicated destination addressing differs from the request", key, list(exp_d), [idp, ida]))
        exp_sa = None if r["sam"] == 0 else (a["short"] if r["sam"] == 1 else a["ext"])
        if isa != exp_sa:
            fails.append(("indicated source address differs from the sender's", key, exp_sa, isa))
        if not r.get("suppressed"):
            exp_sp = None if r["sam"] == 0 else a["pan"]
            if isp != exp_sp:
                fails.append(("indicated source PAN id differs from the sender's", key, exp_sp, isp))
    return fails


def fresh(seq, hist):
    t = 0
    for ev in hist:
        if ev[0] == "T":
            t += 1
            if t >= BUDGET:
                return False
        elif ev[1] == seq:
            return True
    return False


def ack_oracle(c, res):
    fails = []
    if "exc" in res:
        fails.append(("acknowledged transmission scenario raised " + res["exc"], None, "no exception", res["exc"]))
        return fails
    sends = [o for o in c["ops"] if o[0] == "S"]
    if len(res["sends"]) != len(sends):
        fails.append(("number of completed requests", None, len(sends), len(res["sends"])))
        return fails
    seq = c["seq0"]
    for i, (o, s) in enumerate(zip(sends, res["sends"])):
        frames = []
        for f in s["frames"]:
            if not frames or frames[-1] != f:
                frames.append(f)
        if len(frames) != 1 or bytes.fromhex(frames[0])[2] != seq:
            fails.append(("send #%d: frame sequence number is not previous+1 mod 256" % i, None, seq, s["frames"]))
        if o[1]:
            exp = fresh(seq, o[2])
            if s.get("ret") is True and "ack_seq" in s and s["ack_seq"] != seq:
                fails.append(("send #%d returned an acknowledgement that does not carry the frame's sequence number" % i,
                              None, seq, s["ack_seq"]))
            if s.get("ret") is not exp:
                what = ("send #%d reported success without an acknowledgement carrying its sequence number "
                        "received after the frame was sent" % i) if s["ret"] is True else \
                       ("send #%d reported failure although a fresh matching acknowledgement arrived before the "
                        "retry budget was spent" % i)
                fails.append((what, None, exp, s["ret"]))
        elif s.get("ret") is not True:
            fails.append(("send #%d (unacknowledged) did not return True" % i, None, True, s.get("ret")))
        seq = (seq + 1) % 256
    return fails


def hist_oracle(c, res):
    """The property on a history: every data request is judged against the receiver's PIB as the
    implementation itself reports it right before the frame (not against what it was earlier)."""
    fails = []
    if "exc" in res:
        return [("history of PIB updates and frames raised " + res["exc"], None, "no exception", res["exc"])]
    sends = [o for o in c["ops"] if o[0] == "F"]
    if len(res["steps"]) != len(sends):
        return [("number of completed data requests in the history", None, len(sends), len(res["steps"]))]
    seq = c.get("seq0", 0)
    for i, (o, st) in enumerate(zip(sends, res["steps"])):
        sub = {"A": c["A"], "B": st["pib"], "req": dict(o[1], seq0=seq)}
        for what, key, exp, obs in addr_oracle(sub, st):
            fails.append(("history step #%d (receiver PIB now %s): %s" % (
                i, json.dumps(st["pib"], sort_keys=True), what), key, exp, obs))
        seq = st["seq_after"]
    return fails


def choose_oracle(c, res):
    fv, dam, sam = c[0], c[1], c[2]
    if fv not in (0, 1) or "view" not in res:
        return []
    hd, hs, dp, sp = res["view"]
    exp = 1 if (dam != 0 and sam != 0 and hd and hs and dp == sp) else 0
    if "exc" in res:
        return [("PAN-id compression raised for frame version %d" % fv, None, exp, res["exc"])]
    if res["bit"] != exp:
        return [("PAN-id compression bit wrong for frame version %d" % fv, None, exp, res["bit"])]
    return []


# ---------------------------------------------------------------------------
# Generators
# ---------------------------------------------------------------------------

EXTS = [0x1122334455667788, 0x8877665544332211, 0xFFFFFFFFFFFFFFFF, 0x0000000000000001, 0x00124B0001020304,
        0x000000000000FFFF]
PANS = [0x1234, 0x4321, 0x0000, 0xFFFE, 0xBEEF]
SHORTS = [0x0000, 0x0001, 0x0002, 0xFFFE, 0xABCD, 0xFFFF]


def mk_nodes(rng):
    pan_b = rng.choice(PANS + [0xFFFF])
    pan_a = pan_b if rng.random() < 0.5 else rng.choice(PANS + [0xFFFF])
    a = {"pan": pan_a, "short": rng.choice(SHORTS), "ext": rng.choice(EXTS)}
    b = {"pan": pan_b, "short": rng.choice(SHORTS), "ext": rng.choice(EXTS)}
    return a, b


def rand_payload(rng, n=None):
    if n is None:
        n = rng.choice([0, 1, 2, 3, 5, 8, 17, 33, 64, 99, 100, rng.randrange(0, 101)])
    return bytes(rng.choice([rng.randrange(256), 0, 0xFF, 0x41, 0x88]) for _ in range(n)).hex()


DPAN_KINDS = ["own", "other", "bcast", "none", "sender"]
DADDR_KINDS = ["short", "ext", "other_short", "other_ext", "bcast", "none", "sender_short"]


def mk_addr_case(rng, sam, dam, dk, ak, promisc, implicit, plen=None):
    a, b = mk_nodes(rng)
    b = dict(b, promisc=promisc, implicit=implicit)
    other_pan = rng.choice([p for p in PANS if p != b["pan"]])
    dpan = {"own": b["pan"], "other": other_pan, "bcast": 0xFFFF, "none": None, "sender": a["pan"]}[dk]
    other_short = rng.choice([s for s in SHORTS + [0x7777] if s not in (b["short"], 0xFFFF)])
    other_ext = rng.choice([e for e in EXTS + [0x0102030405060708] if e not in (b["ext"], 0xFFFF) and e != b["short"]])
    daddr = {"short": b["short"], "ext": b["ext"], "other_short": other_short, "other_ext": other_ext,
             "bcast": 0xFFFF, "none": None, "sender_short": a["short"]}[ak]
    req = {"sam": sam, "dam": dam, "dpan": dpan, "daddr": daddr, "suppressed": rng.random() < 0.1,
           "payload": rand_payload(rng, plen), "seq0": rng.choice([0, 1, 127, 128, 254, 255, rng.randrange(256)])}
    return {"A": a, "B": b, "req": req, "kinds": [dk, ak]}


def gen_addr(ctx):
    rng, cases = ctx.rng, []
    reps = 6 if ctx.thorough else 1
    for _ in range(reps):
        for sam in (0, 1, 2):
            for dam in (0, 1, 2):
                for dk in DPAN_KINDS:
                    for ak in DADDR_KINDS:
                        for promisc, implicit in ((False, False), (True, False), (False, True), (True, True)):
                            cases.append(mk_addr_case(rng, sam, dam, dk, ak, promisc, implicit))
    # every payload length 0..100 on addressed frames
    for n in range(0, 101):
        for _ in range(3 if ctx.thorough else 1):
            cases.append(mk_addr_case(rng, rng.choice([0, 1, 2]), rng.choice([1, 2]), "own",
                                      rng.choice(["short", "bcast"]), False, False, plen=n))
    # every sequence number
    for s in range(256):
        c = mk_addr_case(rng, 1, 1, "own", "short", False, False, plen=2)
        c["req"]["seq0"] = s
        cases.append(c)
    return cases


def gen_raw(ctx, addr_cases, addr_res):
    """Malformed / foreign frames put directly on a receiver's PHY (frame types 0 and 3 excluded:
    beacon and command handling is not part of C20)."""
    rng, out = ctx.rng, []
    good = [bytes.fromhex(r["frames"][0]) for r in addr_res if r.get("frames")]
    def ok(fr):
        return len(fr) >= 1 and (fr[0] & 7) not in (0, 3)
    def rnd_b():
        _a, b = mk_nodes(rng)
        return dict(b, promisc=rng.random() < 0.2, implicit=rng.random() < 0.3)
    n = 2500 if ctx.thorough else 350
    for _ in range(n):
        frames = []
        for _k in range(rng.randrange(1, 4)):
            kind = rng.randrange(7)
            base = bytearray(rng.choice(good)) if good else bytearray(b"\x41\x88\x00\x34\x12\x02\x00\x01\x00")
            if kind == 0:      # truncation
                fr = bytes(base[:rng.randrange(1, len(base) + 1)])
            elif kind == 1:    # FCF bit flips
                base[rng.randrange(2)] ^= 1 << rng.randrange(8)
                fr = bytes(base)
            elif kind == 2:    # acknowledgement, possibly with trailing bytes / odd FCF
                fr = bytes([0x02 | rng.choice([0, 0x10, 0x20, 0x40, 0x08]), rng.choice([0, 0xCC, 0x88, 0x04]),
                            rng.randrange(256)]) + bytes(rng.randrange(256) for _ in range(rng.choice([0, 0, 0, 2, 5])))
            elif kind == 3:    # random frame of type data / ack / reserved
                ft = rng.choice([1, 1, 1, 2, 4, 5, 6, 7])
                fr = bytes([(rng.randrange(256) & 0xF8) | ft]) + bytes(rng.randrange(256) for _ in range(rng.randrange(0, 30)))
            elif kind == 4:    # address mode rewritten
                base[1] = (base[1] & 0x33) | (rng.randrange(4) << 6) | (rng.randrange(4) << 2)
                fr = bytes(base)
            elif kind == 5:    # compression bit toggled
                base[0] ^= 0x40
                fr = bytes(base)
            else:              # genuine frame to a random receiver
                fr = bytes(base)
            if ok(fr):
                frames.append(fr.hex())
        if frames:
            out.append({"B": rnd_b(), "frames": frames})
    return out


def gen_hist(rng, seq):
    h = []
    for _ in range(rng.choice([0, 1, 2, 3, 4, 6, 8, 11])):
        x = rng.random()
        if x < 0.45:
            h.append(["T"])
        else:
            s = rng.choice([seq, seq, (seq + 1) % 256, (seq - 1) % 256, seq ^ 0x80, rng.randrange(256)])
            h.append(["A", s])
    return h


def gen_ack(ctx):
    rng, cases = ctx.rng, []
    n = 3000 if ctx.thorough else 450
    for _ in range(n):
        seq0 = rng.choice([0, 5, 254, 255, rng.randrange(256)])
        seq, ops = seq0, []
        for _k in range(rng.randrange(1, 7)):
            if rng.random() < 0.3:
                ops.append(["O", rng.choice([seq, seq, (seq + 1) % 256, rng.randrange(256)])])
            else:
                wait = rng.random() < 0.8
                ops.append(["S", wait, gen_hist(rng, seq), rng.choice([0, 0, 1, 2, 3, 6]), rng.random() < 0.25])
                seq = (seq + 1) % 256
        cases.append({"seq0": seq0, "ops": ops, "kind": "random"})
    # boundaries of the retry budget
    for k in range(0, 8):
        for tail in ([["A", 9]], [], [["A", 8], ["A", 9]]):
            cases.append({"seq0": 9, "ops": [["S", True, [["T"]] * k + tail, 0]], "kind": "budget"})
            cases.append({"seq0": 9, "ops": [["S", True, [["A", 10]] + [["T"]] * k + tail, 1]], "kind": "budget"})
    # several acknowledgements queued before send_data polls (they arrive while the PHY transmits, imm = all of
    # them) or one per tick: the matching one first, in the middle, last; with data() and with
    # send_data(return_ack=True)
    m, x, y = 9, 10, 200
    for pat in ([m, x], [m, x, y], [x, m, y], [x, m], [m], [m, m], [x, y, m], [x, y], [m, x, x, x, x, x]):
        for imm in sorted({0, 1, len(pat)}):
            for ra in (False, True):
                for tail in ([], [["T"]] * 5):
                    cases.append({"seq0": m, "ops": [["S", True, [["A", q] for q in pat] + tail, imm, ra],
                                                     ["S", True, [["A", (m + 1) % 256]], 1, ra]], "kind": "burst"})
    for _ in range(300 if ctx.thorough else 40):
        seq0 = rng.randrange(256)
        pat = [rng.choice([seq0, seq0, (seq0 + 1) % 256, (seq0 - 1) % 256, rng.randrange(256)]) for _k in range(rng.randrange(2, 6))]
        cases.append({"seq0": seq0, "ops": [["S", True, [["A", q] for q in pat], rng.choice([len(pat), len(pat), 2, 1]),
                                            rng.random() < 0.5]], "kind": "burst"})
    # stale acknowledgement with the same sequence number: overheard earlier ...
    cases.append({"seq0": 5, "ops": [["O", 5], ["S", True, [], 0]], "kind": "stale"})
    cases.append({"seq0": 5, "ops": [["O", 5], ["O", 6], ["S", True, [["T"], ["T"]], 0], ["S", True, [], 0]], "kind": "stale"})
    # ... received late, after the request failed, then matching a later request ...
    cases.append({"seq0": 5, "ops": [["S", True, [["T"]] * 5 + [["A", 6], ["A", 5]], 0], ["S", True, [], 0]], "kind": "stale"})
    # ... or from 256 frames ago
    for seq0 in ((7, 255) if not ctx.thorough else (7, 255, 0, 128)):
        ops = [["S", True, [["T"]] * 5 + [["A", seq0]], 0]] + [["S", False, [], 0] for _ in range(255)] + [["S", True, [], 0]]
        cases.append({"seq0": seq0, "ops": ops, "kind": "wraparound"})
    return cases


UPD_PATHS = [("mlme_set", a) for a in ATTRS] + [("db", a) for a in ATTRS] + \
            [("helper", "macShortAddress"), ("helper", "macExtendedAddress")] + \
            [("start", "macPanId"), ("assoc_fail", "macPanId"), ("assoc_ok", "macPanId"), ("assoc_ok", "macShortAddress"),
             ("reset", None)]


def hist_frame(rng, a, cur, old, want):
    """A data request aimed at the receiver's CURRENT identity, at a FORMER one, or elsewhere."""
    src = {"cur": cur, "old": old}.get(want, cur)
    ext = rng.random() < 0.3
    dpan = src["pan"] if want in ("cur", "old") else rng.choice([0xFFFF, 0x0A0A, src["pan"]])
    daddr = (src["ext"] if ext else src["short"]) if want in ("cur", "old") else rng.choice([0xFFFF, 0x0B0B])
    if want == "cur" and rng.random() < 0.15:
        daddr, ext = 0xFFFF, False
    return ["F", {"sam": rng.choice([0, 1, 2]), "dam": 2 if ext else 1, "dpan": dpan, "daddr": daddr,
                  "suppressed": False, "payload": rand_payload(rng, rng.choice([0, 1, 2, 7]))}]


def py_update(cur, op):
    """Expected PIB after an update (used by the generator only, to aim the next frames)."""
    n = dict(cur)
    names = {"macPanId": "pan", "macShortAddress": "short", "macExtendedAddress": "ext",
             "macPromiscuousMode": "promisc", "macImplicitBroadcast": "implicit"}
    if op[0] == "U":
        n[names[op[2]]] = bool(op[3]) if names[op[2]] in ("promisc", "implicit") else op[3]
    elif op[0] == "START":
        n["pan"] = op[1]
    elif op[0] == "ASSOC_FAIL":
        n["pan"] = 0xFFFF
    elif op[0] == "ASSOC_OK":
        n["pan"], n["short"] = op[1], op[3]
    elif op[0] == "RESET":
        n = {"pan": 0xFFFF, "short": 0xFFFF, "ext": 0x1122334455667788, "promisc": False, "implicit": False}
    return n


def mk_update(rng, cur, path, attr):
    newpan = rng.choice([p for p in PANS + [0x2222, 0x3333] if p != cur["pan"]])
    newshort = rng.choice([x for x in SHORTS[:-1] + [0x0077, 0x1357] if x != cur["short"]])
    newext = rng.choice([e for e in EXTS + [0x0A0B0C0D0E0F0001] if e != cur["ext"]])
    if path in ("mlme_set", "db", "helper"):
        v = {"macPanId": newpan, "macShortAddress": newshort, "macExtendedAddress": newext,
             "macPromiscuousMode": int(not cur["promisc"]), "macImplicitBroadcast": int(not cur["implicit"])}[attr]
        return ["U", path, attr, v]
    if path == "start":
        return ["START", newpan]
    if path == "assoc_fail":
        return ["ASSOC_FAIL", newpan, rng.choice([0x0000, 0x0042])]
    if path == "assoc_ok":
        return ["ASSOC_OK", newpan, rng.choice([0x0000, 0x0042]), newshort]
    return ["RESET"]


def gen_hist_cases(ctx):
    """Histories on ONE receiving MAC: receive, rewrite the PIB through every available path, receive
    again (to the new identity, to the former one, elsewhere)."""
    rng, cases = ctx.rng, []

    def start():
        a, b = mk_nodes(rng)
        if b["pan"] == 0xFFFF:
            b["pan"] = 0x1111
        if b["short"] == 0xFFFF:
            b["short"] = 0x0002
        return a, dict(b, promisc=False, implicit=False)

    # systematic: [frame to the peer] ; update through <path> ; [frame to new] [frame to old] [elsewhere]
    for rep in range(4 if ctx.thorough else 2):
        for path, attr in UPD_PATHS:
            for warm in ((True, False) if rep == 0 else (True,)):
                a, b = start()
                cur, ops = dict(b), []
                if warm:
                    ops.append(hist_frame(rng, a, cur, cur, "cur"))
                u = mk_update(rng, cur, path, attr)
                old, cur = cur, py_update(cur, u)
                ops.append(u)
                for want in rng.sample(["cur", "old", "other"], 3):
                    ops.append(hist_frame(rng, a, cur, old, want))
                cases.append({"A": a, "B": b, "seq0": rng.choice([0, 250, 255]), "ops": ops,
                              "kind": "path:%s/%s%s" % (path, attr, "" if warm else "/cold")})
    # random histories
    for _ in range(900 if ctx.thorough else 110):
        a, b = start()
        cur, old, ops = dict(b), dict(b), []
        for _k in range(rng.randrange(3, 10)):
            if rng.random() < 0.4:
                path, attr = rng.choice(UPD_PATHS)
                u = mk_update(rng, cur, path, attr)
                old, cur = cur, py_update(cur, u)
                ops.append(u)
            else:
                ops.append(hist_frame(rng, a, cur, old, rng.choice(["cur", "cur", "old", "old", "other"])))
        if any(o[0] == "F" for o in ops):
            cases.append({"A": a, "B": b, "seq0": rng.randrange(256), "ops": ops, "kind": "random"})
    return cases


def gen_choose(ctx):
    cases = []
    for fv in (0, 1, 2, 3):
        for dam in (0, 1, 2):
            for sam in (0, 1, 2):
                cases.append([fv, dam, sam, None, None, False])
                for dp in (None, 1, 2, 0xFFFF, 0):
                    for sp in (None, 1, 2, 0):
                        cases.append([fv, dam, sam, dp, sp, True])
    return cases


# ---------------------------------------------------------------------------
# Shrinking (re-runs the implementation)
# ---------------------------------------------------------------------------

def shrink_ack(case):
    """Greedy removal of operations / events while some send still violates the property."""
    def failing(c):
        r = impl({"ack": [c]})["ack"][0]
        return bool(ack_oracle(c, r))
    cur = {"seq0": case["seq0"], "ops": [list(o) for o in case["ops"]]}
    for _round in range(8):
        cands = []
        ops = cur["ops"]
        if len(ops) > 1:
            # drop the first operation (a send consumes one sequence number) or the last one
            cands.append({"seq0": (cur["seq0"] + (1 if ops[0][0] == "S" else 0)) % 256, "ops": ops[1:]})
            cands.append({"seq0": cur["seq0"], "ops": ops[:-1]})
        for i in range(len(ops)):
            if ops[i][0] == "S" and not ops[i][1]:
                continue    # dropping an unacknowledged send shifts the sequence numbers; keep
            if ops[i][0] == "O" or (ops[i][0] == "S" and i == len(ops) - 1 and len(ops) > 1):
                cands.append({"seq0": cur["seq0"], "ops": ops[:i] + ops[i + 1:]})
            if ops[i][0] == "S":
                for j in range(len(ops[i][2])):
                    o2 = [ops[i][0], ops[i][1], ops[i][2][:j] + ops[i][2][j + 1:], max(0, ops[i][3] - (1 if j < ops[i][3] else 0))] + list(ops[i][4:])
                    cands.append({"seq0": cur["seq0"], "ops": ops[:i] + [o2] + ops[i + 1:]})
        cands = cands[:60]
        if not cands:
            break
        res = impl({"ack": cands})["ack"]
        nxt = next((c for c, r in zip(cands, res) if ack_oracle(c, r)), None)
        if nxt is None:
            break
        cur = nxt
    return cur if failing(cur) else case


def shrink_hist(case):
    """Greedy removal of operations while some step of the history still violates the property."""
    cur = {k: case[k] for k in ("A", "B", "seq0", "ops")}
    for _round in range(10):
        ops = cur["ops"]
        cands = [dict(cur, ops=ops[:i] + ops[i + 1:]) for i in range(len(ops))]
        cands = [c for c in cands if any(o[0] == "F" for o in c["ops"])]
        if not cands:
            break
        res = impl({"hist": cands})["hist"]
        nxt = next((c for c, r in zip(cands, res) if [f for f in hist_oracle(c, r) if f[1] is None]), None)
        if nxt is None:
            break
        cur = nxt
    return cur


def shrink_addr(case):
    cands = []
    for pl in ("", case["req"]["payload"][:2]):
        c = json.loads(json.dumps(case))
        c["req"]["payload"] = pl
        c["req"]["seq0"] = 0
        cands.append(c)
    res = impl({"addr": cands})["addr"]
    for c, r in zip(cands, res):
        if addr_oracle(c, r):
            return c, r
    return case, None


# ---------------------------------------------------------------------------
# Translator step
# ---------------------------------------------------------------------------

def translator_step(ctx):
    """Returns (ok, detail, info). ok = the theorems compiled in theories/C20 are about the
    definitions generated from the tree under verification (textually, or re-proved)."""
    T = _translator()
    d = C.build_dir(PID)
    try:
        text, info = T.translate(C.REPO)
    except (T.Unsupported, OSError, SyntaxError) as e:
        return False, "translator failed (fail-closed): %s: %s" % (type(e).__name__, e), None
    with open(os.path.join(d, "Gen_current.v"), "w") as f:
        f.write(text)
    committed = open(os.path.join(C.COQ, "theories", PID, "Gen.v")).read()
    if T.strip_header(text) == T.strip_header(committed):
        return True, "generated definitions identical to theories/C20/Gen.v", info
    # The source changed: re-prove everything against the regenerated definitions in a scratch copy.
    root = os.path.join(d, "regen", "theories")
    if os.path.isdir(os.path.join(d, "regen")):
        shutil.rmtree(os.path.join(d, "regen"))
    os.makedirs(os.path.join(root, PID))
    os.makedirs(os.path.join(root, "Lib"))
    shutil.copy(os.path.join(C.COQ, "theories", "Lib", "Bytes.v"), os.path.join(root, "Lib", "Bytes.v"))
    for fn in ("Model.v", "Proofs.v", "Property.v"):
        shutil.copy(os.path.join(C.COQ, "theories", PID, fn), os.path.join(root, PID, fn))
    with open(os.path.join(root, PID, "Gen.v"), "w") as f:
        f.write(text)
    log = ""
    for rel in ("Lib/Bytes.v", PID + "/Gen.v", PID + "/Model.v", PID + "/Proofs.v", PID + "/Property.v"):
        rc, out = C.sh(["timeout", "300", "coqc", "-Q", root, "Whad", os.path.join(root, rel)], cwd=root, timeout=330)
        log += out
        if rc != 0:
            return False, ("generated definitions differ from theories/C20/Gen.v and the theorems do NOT hold for "
                           "the regenerated ones (%s):\n%s" % (rel, out[-1500:])), info
    info["regenerated_differs_but_reproved"] = True
    return True, "generated definitions differ from theories/C20/Gen.v; all theorems re-proved against the regenerated text", info


# ---------------------------------------------------------------------------
# run
# ---------------------------------------------------------------------------

def run(ctx):
    _TIER[0] = ctx.tier
    C.build_dir(PID, clean=True)
    ctx.cov["trusted_base"] = [
        "virtual Queue: queue.Queue of the MAC and service modules replaced from outside; a blocking get with timeout advances virtual time; hard wall-clock limits: 10 s per case inside the driver (SIGALRM -> the case is reported as raising WallClock), 150 s (quick) / 900 s (thorough) per driver call",
        "Coq 8.16.1 kernel + vm_compute (no native_compute); theorems closed under the global context (Print Assumptions checked each run)",
        "translator harness/translators/C20_panid.py (unverified text generator, fail-closed; validated each run by evaluating the generated choose_panid / panid_table against the real function and dict on 1.8k inputs inside Coq)",
        "hand-written model coq/theories/C20/Model.v (data/send_data/on_pdu/match_filter/indicate_data/ack wait; receiver as a state machine over PIB updates and frames, the MAC keeping no state but the PIB between frames) tied to whad/dot15d4/stack/mac/__init__.py by the correspondence of this run",
        "scapy 2.6.1 Dot15d4/Dot15d4Data build and dissection modelled concretely in Gallina (le fields, conditional src_panid, dest_addr raising for modes 0/1 -> Raw) and exercised on every case; upper-layer dissectors (ZigbeeNWK) assumed to give back the payload bytes (checked by the oracle on every indicated frame)",
        "virtual time: `time`/`sleep` of the MAC module replaced from outside; a history event ETimeout is a quiet period of macAckTimeout + 4 ticks; real thread interleavings of the reader thread are not explored",
        "fake PHY = the stack's connector: bytes(packet) on transmit, Dot15d4(bytes) on receive, struct.error during dissection drops the frame (as whad.hub's dissect_failsafe)",
    ]
    ctx.assumptions = [
        "request values fit the fields of the chosen modes (short mode: address < 2^16; extended: < 2^64; PAN ids < 2^16); otherwise the request raises struct.error and nothing is sent (modelled, outside the theorem)",
        "destination addressing mode short or extended for indicated_iff_addressed (mode NONE is the known finding dest-mode-none, characterised by C20_dest_none_always_indicated)",
        "'addressed' is the numeric reading of the property: dest PAN in {peer PAN, 0xFFFF} and dest address in {peer short, peer extended, 0xFFFF} whatever the addressing mode (the code's filter is mode-blind)",
        "pan_id_suppressed=True is modelled (scapy default source PAN 0 is emitted) but the indicated source PAN is then not judged by the oracle",
        "acknowledgement histories are finite; after the history nothing arrives; an acknowledgement and a timeout do not race (events are sequential)",
        "histories: PIB updates and frames on the receiver are sequential (no frame arrives while an MLME primitive is executing, except the scripted coordinator's acknowledgements and association response); the oracle judges each frame against the PIB the implementation reports right before it",
        "frame version: send_data always builds version 0; _choose_pan_id_compression for version 2 raises NameError (table not imported) - unreachable from MCPS-DATA, translated as it is",
    ]

    # ---- (0) translator ------------------------------------------------------
    tr_ok, tr_detail, tr_info = translator_step(ctx)
    ctx.log("translator:", tr_ok, tr_detail.splitlines()[0][:160])
    ctx.cov["obligations"] += 1
    if tr_ok:
        ctx.cov["discharged"] += 1

    # ---- (1) proofs ------------------------------------------------------------
    proofs_ok, detail = ctx.check_proofs(lib_targets=["theories/Lib/Bytes.vo"])
    # sequence-number update and ack-wait counter arithmetic of send_data regenerated from the source and proved equal
    # to the model (harness/translators/pyfun.py, theories/C20/{GenPy,GenPyEq,PropertyGenPy}.v, design/PYTRANS.md)
    gen = pyfun_util.check_generated(ctx, PID)
    if not gen["ok"]:
        proofs_ok, detail = False, (detail if not proofs_ok else str(gen["what"])) + gen["detail"]
    ctx.log("proofs:", proofs_ok, detail.splitlines()[0][:200])

    if ctx.thorough and proofs_ok:
        rc, out = C.sh(["timeout", "900", "coqchk", "-silent", "-o", "-Q", "theories", "Whad", "Whad.C20.Property"],
                       cwd=C.COQ, timeout=930)
        ax = out[out.find("* Axioms:"):].split("*")[1].strip() if "* Axioms:" in out else out[-300:]
        ctx.cov["coqchk"] = {"rc": rc, "axioms": " ".join(ax.split())}
        ctx.cov["obligations"] += 1
        if rc == 0 and "<none>" in ax:
            ctx.cov["discharged"] += 1
        else:
            proofs_ok, detail = False, "coqchk -o Whad.C20.Property: rc=%s %s" % (rc, out[-1500:])
        ctx.log("coqchk:", rc, ctx.cov["coqchk"]["axioms"])

    # ---- (2)+(3) generation and implementation -------------------------------
    cdir = os.path.join(C.VERIF, "corpus", PID)
    corpus_addr, corpus_ack, corpus_hist = [], [], []
    for fn in sorted(os.listdir(cdir)) if os.path.isdir(cdir) else []:
        w = json.load(open(os.path.join(cdir, fn)))
        w["file"] = fn
        {"addr": corpus_addr, "hist": corpus_hist}.get(w.get("group"), corpus_ack).append(w)
    addr_cases = [w["case"] for w in corpus_addr] + gen_addr(ctx)
    ack_cases = [w["case"] for w in corpus_ack] + gen_ack(ctx)
    choose_cases = gen_choose(ctx)
    hist_cases = [w["case"] for w in corpus_hist] + gen_hist_cases(ctx)
    r1 = impl({"addr": addr_cases, "ack": ack_cases, "choose": choose_cases, "table": True,
                               "hist": hist_cases})
    raw_cases = gen_raw(ctx, addr_cases, r1["addr"])
    r2 = impl({"raw": raw_cases})
    n_all = len(addr_cases) + len(ack_cases) + len(choose_cases) + len(raw_cases) + len(hist_cases)
    ctx.cov["evaluations"] = n_all
    ctx.cov["traces_validated_against_impl"] = n_all

    # ---- (4) oracle --------------------------------------------------------------
    # Every case is judged; per class of failure (group + what, send index ignored) at most
    # MAX_PER_CLASS replays are written (the first one shrunk), the totals go to the evidence.
    MAX_PER_CLASS = 2
    counts = {}

    def report(group, what, key, case, exp, obs):
        cls = group + ": " + re.sub(r"#\d+", "#n", what)
        if key is not None and key in ctx.kf:
            kcls = cls + " [known finding %s]" % key
            counts[kcls] = counts.get(kcls, 0) + 1
            ctx.violation(what, {"group": group, "case": case}, key=key, expected=exp, observed=obs)
            return False
        counts[cls] = counts.get(cls, 0) + 1
        if counts[cls] > MAX_PER_CLASS:
            return False
        return cls

    for c, res in zip(addr_cases, r1["addr"]):
        fl = addr_oracle(c, res)
        if not fl:
            continue
        what, key, exp, obs = fl[0]
        case = {k: c[k] for k in ("A", "B", "req")}
        cls = report("addr", what, key, case, exp, obs)
        if cls:
            if counts[cls] == 1:
                c2, res2 = shrink_addr(c)
                f2 = addr_oracle(c2, res2) if res2 is not None else []
                f2 = [f for f in f2 if f[0] == what]
                if f2:
                    case, (what, key, exp, obs) = {k: c2[k] for k in ("A", "B", "req")}, f2[0]
            ctx.violation(what, {"group": "addr", "case": case}, key=key, expected=exp, observed=obs)
    for c, res in zip(ack_cases, r1["ack"]):
        fl = ack_oracle(c, res)
        if not fl:
            continue
        what, key, exp, obs = fl[0]
        cc = {"seq0": c["seq0"], "ops": c["ops"]}
        cls = report("ack", what, key, cc, exp, obs)
        if cls:
            if counts[cls] == 1 and len(c["ops"]) < 40:
                cc2 = shrink_ack(cc)
                res2 = impl({"ack": [cc2]})["ack"][0]
                f2 = ack_oracle(cc2, res2)
                if f2:
                    cc, res, (what, key, exp, obs) = cc2, res2, f2[0]
            ctx.violation(what, {"group": "ack", "case": cc}, key=key, expected=exp, observed=res)
    for c, res in zip(hist_cases, r1["hist"]):
        fl = [f for f in hist_oracle(c, res) if f[1] is None]
        if not fl:
            continue
        what, key, exp, obs = fl[0]
        hc = {k: c[k] for k in ("A", "B", "seq0", "ops")}
        cls = report("hist", re.sub(r"\(receiver PIB now .*?\): ", "", what), key, hc, exp, obs)
        if cls:
            if counts[cls] == 1:
                hc2 = shrink_hist(hc)
                res2 = impl({"hist": [hc2]})["hist"][0]
                f2 = [f for f in hist_oracle(hc2, res2) if f[1] is None]
                if f2:
                    hc, res, (what, key, exp, obs) = hc2, res2, f2[0]
            ctx.violation(what, {"group": "hist", "case": hc}, key=key, expected=exp,
                          observed={"steps": res.get("steps"), "pib": res.get("pib")})
    for c, res in zip(choose_cases, r1["choose"]):
        for what, key, exp, obs in choose_oracle(c, res):
            if report("choose", what, key, c, exp, obs):
                ctx.violation(what, {"group": "choose", "case": c}, key=key, expected=exp, observed=obs)
    for c, res in zip(raw_cases, r2["raw"]):
        if "exc" in res:
            what = "an exception escaped MACManager.on_pdu on a received frame: " + res["exc"]
            if report("raw", what, None, c, "no exception", res):
                ctx.violation(what, {"group": "raw", "case": c}, expected="no exception", observed=res)
    ctx.cov["oracle_failures_by_class"] = counts
    for w in corpus_addr + corpus_ack:
        if w.get("kind") == "finding" and w.get("key") not in ctx.known_hits:
            ctx.notes.append("corpus witness %s no longer fails" % w["file"])

    # ---- (5) correspondence inside Coq ------------------------------------------
    pre = "From Whad Require Import Lib.Bytes C20.Gen C20.Model.\nOpen Scope N_scope."
    addr_terms = []
    for c, res in zip(addr_cases, r1["addr"]):
        exc = EXC_CODE.get(res["exc"], 99) if "exc" in res else 0
        addr_terms.append("(%s, %s, %s, %d, (%d, %s, %s, %d))" % (
            c_pib(c["A"]), c_pib(c["B"]), c_req(c["req"]), c["req"].get("seq0", 0), exc,
            clist([cbytes(bytes.fromhex(f)) for f in res["frames"]]),
            clist([c_ind(i) for i in res["ind"]]), res["seq_after"]))
    raw_terms, raw_idx = [], []
    for k, (c, res) in enumerate(zip(raw_cases, r2["raw"])):
        if "exc" in res:
            continue
        raw_terms.append("(%s, %s, (%s, %s))" % (
            c_pib(c["B"]), clist([cbytes(bytes.fromhex(f)) for f in c["frames"]]),
            clist([c_ind(i) for i in res["ind"]]), clist([str(s) for s in res["acks"]])))
        raw_idx.append(k)
    ack_terms, ack_idx = [], []
    for k, (c, res) in enumerate(zip(ack_cases, r1["ack"])):
        if "exc" in res or any(not s["frames"] or not isinstance(s.get("ret"), bool) for s in res["sends"]):
            continue
        obs = clist(["(%d, %s)" % (bytes.fromhex(s["frames"][0])[2], cbool(s["ret"])) for s in res["sends"]])
        ack_terms.append("(%d, %s, %s)" % (c["seq0"], clist([c_op(o) for o in c["ops"]]), obs))
        ack_idx.append(k)
    ch_terms, ch_idx = [], []
    for k, (c, res) in enumerate(zip(choose_cases, r1["choose"])):
        if "view" not in res:
            continue
        hd, hs, dp, sp = res["view"]
        obs = res["bit"] if "bit" in res else {"NameError": 2, "KeyError": 3}.get(res["exc"], 99)
        ch_terms.append("(%d, %d, %d, %s, %s, %s, %s, %d)" % (c[0], c[1], c[2], cbool(hd), cbool(hs),
                                                             copt(dp, str), copt(sp, str), obs))
        ch_idx.append(k)
    hist_terms, hist_idx = [], []
    for k, (c, res) in enumerate(zip(hist_cases, r1["hist"])):
        if "exc" in res or any("exc" in st for st in res["steps"]):
            continue
        steps = clist(["(%s, %s)" % (clist([cbytes(bytes.fromhex(f)) for f in st["frames"]]),
                                     clist([c_ind(i) for i in st["ind"]])) for st in res["steps"]])
        hist_terms.append("(%s, %s, %d, %s, (%s, %s))" % (
            c_pib(c["A"]), c_pib(c["B"]), c.get("seq0", 0), clist([c_hop(o) for o in c["ops"]]), steps, c_pib(res["pib"])))
        hist_idx.append(k)
    tab_term = "(%s, %s)" % (clist(["((%d, %d, %s, %s), %d)" % (a, b, cbool(x), cbool(y), v) for a, b, x, y, v in r1["table"]]),
                             cbool(r1["table_name_in_mac_module"]))
    bad_a, logs_a = C.run_cases(PID, "addr", pre, "addr_case", addr_terms, "check_addr", shard=250)
    bad_r, logs_r = C.run_cases(PID, "raw", pre, "raw_case", raw_terms, "check_raw", shard=250)
    bad_k, logs_k = C.run_cases(PID, "ack", pre, "ack_case", ack_terms, "check_ack", shard=120)
    bad_h, logs_h = C.run_cases(PID, "hist", pre, "hist_case", hist_terms, "check_hist", shard=60)
    bad_c, logs_c = C.run_cases(PID, "choose", pre, "choose_case", ch_terms, "check_choose", shard=400)
    bad_t, logs_t = C.run_cases(PID, "table", pre, "list (panid_key * N) * bool", [tab_term], "check_table")
    n_skipped = ((len(raw_cases) - len(raw_terms)) + (len(ack_cases) - len(ack_terms)) + (len(choose_cases) - len(ch_terms))
                 + (len(hist_cases) - len(hist_terms)))
    ctx.log("correspondence: addr %d/%d bad, raw %d/%d, ack %d/%d, hist %d/%d, choose %d/%d, table %d/1; %d cases not comparable"
            % (len(bad_a), len(addr_terms), len(bad_r), len(raw_terms), len(bad_k), len(ack_terms),
               len(bad_h), len(hist_terms), len(bad_c), len(ch_terms), len(bad_t), n_skipped))
    ctx.notes += logs_a[:2] + logs_r[:1] + logs_k[:1] + logs_h[:1] + logs_c[:1] + logs_t[:1]

    # ---- coverage ------------------------------------------------------------------
    dist = {"addr_cases": len(addr_cases), "raw_cases": len(raw_cases), "ack_cases": len(ack_cases),
            "choose_cases": len(choose_cases), "hist_cases": len(hist_cases)}
    hist_paths, hist_after = {}, {"frame_to_current_identity_indicated": 0, "frame_to_former_identity_dropped": 0,
                                  "frame_elsewhere": 0, "frames_after_an_update": 0, "frames_before_any_update": 0}
    for c, res in zip(hist_cases, r1["hist"]):
        seen_upd, init = False, c["B"]
        steps = iter(res.get("steps", []))
        for o in c["ops"]:
            if o[0] != "F":
                k = o[0] if o[0] != "U" else "%s:%s" % (o[1], o[2])
                hist_paths[k] = hist_paths.get(k, 0) + 1
                seen_upd = True
                continue
            st = next(steps, None)
            if st is None:
                break
            hist_after["frames_after_an_update" if seen_upd else "frames_before_any_update"] += 1
            if seen_upd and st["ind"]:
                hist_after["frame_to_current_identity_indicated"] += 1
            elif seen_upd and not st["ind"] and o[1]["dpan"] == init["pan"] and o[1]["daddr"] in (init["short"], init["ext"]):
                hist_after["frame_to_former_identity_dropped"] += 1
            elif not st["ind"]:
                hist_after["frame_elsewhere"] += 1
    by_modes, indicated, compressed, excs, plen = {}, 0, 0, {}, set()
    branches = {"filter_promiscuous": 0, "filter_implicit_broadcast_no_layer": 0, "filter_pan_mismatch": 0,
                "filter_addr_mismatch": 0, "filter_pass_addressed": 0, "filter_pass_no_layer": 0,
                "indicate_src_pan_from_dest_pan": 0, "build_struct_error": 0,
                "dissect_dropped_short_frame": 0, "dissect_data_layer_failed": 0, "rx_ack_queued": 0,
                "rx_reserved_type_ignored": 0,
                "ack_fresh_match": 0, "ack_budget_spent": 0, "ack_nonmatching_discarded": 0,
                "ack_stale_in_queue_dropped": 0, "ack_late_after_return": 0, "seq_wraparound": 0,
                "ack_burst_matching_then_others_before_first_poll": 0, "ack_burst_others_then_matching": 0,
                "ack_send_data_return_ack": 0,
                "choose_v01_compress": 0, "choose_v2_raise": 0, "choose_other_version": 0}
    for c, res in zip(addr_cases, r1["addr"]):
        r, b = c["req"], c["B"]
        by_modes["sam%d/dam%d" % (r["sam"], r["dam"])] = by_modes.get("sam%d/dam%d" % (r["sam"], r["dam"]), 0) + 1
        plen.add(len(r["payload"]) // 2)
        if "exc" in res:
            excs[res["exc"]] = excs.get(res["exc"], 0) + 1
            branches["build_struct_error"] += res["exc"] == "error"
            continue
        indicated += bool(res["ind"])
        fr = bytes.fromhex(res["frames"][0]) if res["frames"] else b""
        if fr and fr[0] & 0x40:
            compressed += 1
            branches["indicate_src_pan_from_dest_pan"] += bool(res["ind"])
        if r["seq0"] == 255:
            branches["seq_wraparound"] += 1
        dpan = 0xFFFF if r["dpan"] is None else r["dpan"]
        daddr = 0xFFFF if r["daddr"] is None else r["daddr"]
        if b.get("promisc"):
            branches["filter_promiscuous"] += 1
        elif r["dam"] == 0:
            branches["filter_implicit_broadcast_no_layer" if b.get("implicit") else "filter_pass_no_layer"] += 1
        elif dpan not in (b["pan"], 0xFFFF):
            branches["filter_pan_mismatch"] += 1
        elif daddr not in (b["short"], b["ext"], 0xFFFF):
            branches["filter_addr_mismatch"] += 1
        else:
            branches["filter_pass_addressed"] += 1
    for c, res in zip(raw_cases, r2["raw"]):
        branches["dissect_dropped_short_frame"] += res.get("dropped", 0)
        branches["rx_ack_queued"] += len(res.get("acks", []))
        for f, in [(x,) for x in c["frames"]]:
            fb = bytes.fromhex(f)
            if len(fb) >= 3 and (fb[0] & 7) >= 4:
                branches["rx_reserved_type_ignored"] += 1
        branches["dissect_data_layer_failed"] += sum(1 for i in res.get("ind", []) if i[1] is None and i[2] is None)
    n_sends = 0
    for c, res in zip(ack_cases, r1["ack"]):
        seq, queued = c["seq0"], []
        for o in c["ops"]:
            if o[0] == "O":
                queued.append(o[1])
                continue
            n_sends += 1
            if o[1]:
                if seq in queued:
                    branches["ack_stale_in_queue_dropped"] += 1
                queued = []
                ok = fresh(seq, o[2])
                branches["ack_fresh_match" if ok else "ack_budget_spent"] += 1
                burst = [ev[1] for ev in o[2][:o[3]] if ev[0] == "A"] if all(ev[0] == "A" for ev in o[2][:o[3]]) else []
                if len(burst) >= 2 and seq in burst[:-1] and burst[-1] != seq:
                    branches["ack_burst_matching_then_others_before_first_poll"] += 1
                if len(burst) >= 2 and burst[0] != seq and seq in burst[1:]:
                    branches["ack_burst_others_then_matching"] += 1
                if len(o) > 4 and o[4]:
                    branches["ack_send_data_return_ack"] += 1
                seen = 0
                for ev in o[2]:
                    if ev[0] == "A" and ev[1] != seq:
                        branches["ack_nonmatching_discarded"] += 1
                if not ok and any(ev[0] == "A" for ev in o[2][-2:]):
                    branches["ack_late_after_return"] += 1
            if seq == 255:
                branches["seq_wraparound"] += 1
            seq = (seq + 1) % 256
    for c, res in zip(choose_cases, r1["choose"]):
        if c[0] in (0, 1):
            branches["choose_v01_compress"] += res.get("bit", 0) == 1
        elif c[0] == 2:
            branches["choose_v2_raise"] += "exc" in res
        else:
            branches["choose_other_version"] += 1
    dist.update({"addr_by_modes": by_modes, "addr_indicated": indicated, "addr_compressed_frames": compressed,
                 "addr_exceptions": excs, "payload_lengths_covered": len(plen), "max_payload_len": max(plen),
                 "ack_sends": n_sends,
                 "ack_kinds": {k: sum(1 for c in ack_cases if c.get("kind", "corpus") == k)
                               for k in sorted({c.get("kind", "corpus") for c in ack_cases})},
                 "hist_update_paths": hist_paths, "hist_frames": hist_after,
                 "hist_kinds": len({c.get("kind", "corpus") for c in hist_cases}),
                 "model_branches": branches,
                 "uncovered_branches": sorted([k for k, v in branches.items() if not v]
                                              + ["hist:" + k for k, v in hist_after.items() if not v]
                                              + ["hist_path:" + k for k in
                                                 ["START", "ASSOC_FAIL", "ASSOC_OK", "RESET", "helper:macShortAddress",
                                                  "helper:macExtendedAddress"]
                                                 + ["%s:%s" % (p_, a_) for p_ in ("mlme_set", "db") for a_ in ATTRS]
                                                 if not hist_paths.get(k)])})
    ctx.cov["distribution"] = dist
    ctx.cov["uncovered_branches"] = dist["uncovered_branches"]
    ctx.cov["distinct_nontrivial"] = C.distinct_count(
        [["a", c["A"], c["B"], c["req"]] for c, res in zip(addr_cases, r1["addr"]) if c["req"]["dam"] != 0 and "exc" not in res]
        + [["k", c["seq0"], c["ops"]] for c in ack_cases if any(o[0] == "S" and o[1] and o[2] for o in c["ops"])]
        + [["r", c["B"], c["frames"]] for c in raw_cases]
        + [["h", c["A"], c["B"], c["ops"]] for c in hist_cases if any(o[0] != "F" for o in c["ops"])])
    ctx.cov["rule"] = ("addr: full product source mode x destination mode x destination PAN kind (own/other/0xFFFF/None/sender's) x "
                       "destination address kind (peer short/peer extended/other short/other extended/0xFFFF/None/sender's) x "
                       "promiscuous x implicit-broadcast, random PIBs (sender in the peer's PAN half of the time), payload lengths 0..100, "
                       "all 256 sequence numbers; raw: truncated / bit-flipped / re-moded genuine frames and random data, ack and reserved-type frames; "
                       "ack: random operation sequences (overheard acks, acknowledged/unacknowledged sends with histories of matching, "
                       "off-by-one and random acks and timeouts), the retry-budget boundary, stale acks (overheard, late, 256 frames old); "
                       "hist: one receiving MAC over time - a frame, then its PAN id / short / extended address / promiscuous / implicit-broadcast "
                       "attribute rewritten through MLME-SET, database.set, set_short_address/set_extended_address, MLME-START, MLME-ASSOCIATE "
                       "(failed and successful, coordinator scripted on the fake PHY), MLME-RESET, then frames to its new identity, its former one and elsewhere; plus random histories. "
                       "Non-trivial = valid request with a destination address, or scenario with a non-empty history, or raw frame group; distinct by content hash")
    i0 = next(i for i, c in enumerate(addr_cases) if r1["addr"][i].get("ind") and c["req"]["dam"] != 0)
    k0 = next(i for i, c in enumerate(ack_cases) if c.get("kind") == "random" and len(c["ops"]) > 2)
    ctx.cov["samples"] = [
        {"addr": {k: addr_cases[i0][k] for k in ("A", "B", "req")}, "impl": r1["addr"][i0]},
        {"ack": {"seq0": ack_cases[k0]["seq0"], "ops": ack_cases[k0]["ops"]}, "impl": r1["ack"][k0]},
        {"raw": raw_cases[0], "impl": r2["raw"][0]},
        {"choose": choose_cases[7], "impl": r1["choose"][7]},
        {"hist": {k: hist_cases[0][k] for k in ("A", "B", "seq0", "ops")}, "impl": r1["hist"][0]},
    ]
    ties = [C.source_tie(MAC_REL, 44, 110), C.source_tie(MAC_REL, 867, 937), C.source_tie(MAC_REL, 988, 1051)]
    if tr_info:
        ties += tr_info["ties"]
    ctx.cov["source_ties"] = ctx.cov.get("source_ties", []) + ties
    ctx.cov["translator"] = {"ok": tr_ok, "detail": tr_detail[:400],
                             "table_bound_in_mac_module": tr_info["table_bound"] if tr_info else None}
    ctx.cov["correspondence"] = {"addr": [len(addr_terms), len(bad_a)], "raw": [len(raw_terms), len(bad_r)],
                                 "ack": [len(ack_terms), len(bad_k)], "choose": [len(ch_terms), len(bad_c)],
                                 "hist": [len(hist_terms), len(bad_h)],
                                 "table": [1, len(bad_t)], "not_comparable": n_skipped}
    ctx.cov["latent_observations"] = [
        "_choose_pan_id_compression raises NameError for frame version 2 (PANID_COMPRESSION_TABLE is not imported into the MAC module); unreachable from MCPS-DATA because send_data always builds frame version 0",
        "match_filter compares the destination address with the short, the extended and the broadcast address whatever the addressing mode",
        "pan_id_suppressed=True does not suppress: source PAN id 0 is emitted unless the destination PAN id is 0",
        "send_data never retransmits; a continuous stream of non-matching acknowledgements postpones the failure without bound",
    ]

    # ---- (6) verdict -----------------------------------------------------------------
    corr_bad = bool(bad_a or bad_r or bad_k or bad_c or bad_t or bad_h)
    if (corr_bad or not proofs_ok or not tr_ok) and not ctx.violations:
        first, what = None, None
        if bad_a:
            i = bad_a[0]
            first = {"group": "addr", "case": {k: addr_cases[i][k] for k in ("A", "B", "req")}, "impl": r1["addr"][i]}
        elif bad_k:
            i = ack_idx[bad_k[0]]
            first = {"group": "ack", "case": {"seq0": ack_cases[i]["seq0"], "ops": ack_cases[i]["ops"]}, "impl": r1["ack"][i]}
        elif bad_r:
            i = raw_idx[bad_r[0]]
            first = {"group": "raw", "case": raw_cases[i], "impl": r2["raw"][i]}
        elif bad_h:
            i = hist_idx[bad_h[0]]
            first = {"group": "hist", "case": {k: hist_cases[i][k] for k in ("A", "B", "seq0", "ops")}, "impl": r1["hist"][i]}
        elif bad_c:
            i = ch_idx[bad_c[0]]
            first = {"group": "choose", "case": choose_cases[i], "impl": r1["choose"][i]}
        elif bad_t:
            first = {"group": "table", "impl": r1["table"]}
        if corr_bad:
            what = ("correspondence C20.Model vs MACManager (addr %d, raw %d, ack %d, hist %d, choose %d, table %d disagreements)"
                    % (len(bad_a), len(bad_r), len(bad_k), len(bad_h), len(bad_c), len(bad_t)))
            det = "\n".join(logs_a + logs_r + logs_k + logs_h + logs_c + logs_t)
        elif not tr_ok:
            what, det = "translator item PAN-id compression: " + tr_detail.splitlines()[0][:200], tr_detail
        else:
            what, det = "proof obligations of theories/C20: " + detail.splitlines()[0][:200], detail
        ctx.broken_obligation(what, det, first)


def replay(payload):
    case = payload.get("case") or payload.get("first_disagreeing_case")
    print(json.dumps(case)[:3000])
    if not case or "group" not in case:
        return 0
    g = case["group"]
    if g == "table":
        print("implementation now holds:", impl({"table": True})["table"])
        return 0
    r = impl({g: [case["case"]]})[g][0]
    print("implementation now gives:", json.dumps(r))
    fails = {"addr": addr_oracle, "ack": ack_oracle, "choose": choose_oracle,
             "hist": hist_oracle}.get(g, lambda c, r: [])(case["case"], r)
    for what, key, exp, obs in fails:
        print("property still violated: %s (expected %r, observed %r)%s" % (what, exp, obs, " [known finding %s]" % key if key else ""))
    if not fails:
        print("the property holds on this case now")
    return 0
