(** C09 — tie between the source and the model, as theorems (each closed by [exact]; see
    GenEq.v).  [gen_*] are the definitions of Gen.v, generated from
    GattClient.write_long_nolock (whad/ble/stack/gatt/__init__.py) by
    harness/translators/pyfun.py; the check regenerates them on every run and re-checks these
    statements against the regenerated text. *)
From Coq Require Import List NArith Arith Bool.
From Whad Require Import Lib.Bytes Lib.PyOps C09.Model.
From Whad Require Import C09.Gen C09.GenEq.
Import ListNotations.

(** The first statements of [write_long_nolock] ([data_len], [local_mtu], [nb_chunks =
    int(data_len/(mtu-5))] plus one when a remainder is left, [chunk_size], [offset = 0])
    compute the model's [nb_chunks], chunk size and initial offset — for every value and MTU. *)
Theorem C09_gen_write_long_plan_eq :
  forall (value : bytes) (mtu : nat),
    gen_write_long_plan value mtu = (nb_chunks (length value) (mtu - 5), mtu - 5, 0).
Proof. exact gen_write_long_plan_eq. Qed.

(** The Gallina operations agree with Python there for 6 <= ATT_MTU < 65536 and values below
    2^53 bytes (no underflow of [mtu - 5], no division by zero, [int(a/b)] exact). *)
Theorem C09_gen_write_long_plan_domain :
  forall (value : bytes) (mtu : nat),
    6 <= mtu -> (N.of_nat mtu < 65536)%N -> (nlen value < two53)%N -> gen_write_long_plan_pre value mtu.
Proof. exact gen_write_long_plan_pre_ok. Qed.

(** The piece carried by each Prepare Write request and the offset update. *)
Theorem C09_gen_write_long_chunk_eq :
  forall (value : bytes) (offset cs : nat) (echoed : bytes),
    gen_write_long_chunk value offset cs echoed = slice offset (offset + cs) value
    /\ gen_write_long_next_offset value offset cs echoed = offset + length echoed.
Proof.
  exact (fun value offset cs echoed =>
    conj (gen_write_long_chunk_eq value offset cs echoed) (gen_write_long_next_offset_eq value offset cs echoed)).
Qed.

(** The model's Prepare Write loop and [write_long_nolock] are the hand-written message
    exchange skeleton (GenEq.v) over the generated arithmetic. *)
Theorem C09_gen_prep_loop_eq :
  forall (n : nat) (h : N) (v : bytes) (cs offset : nat) (c : client) (s : server),
    prep_loop_gen n h v cs offset c s = prep_loop n h v cs offset c s.
Proof. exact prep_loop_gen_eq. Qed.

Theorem C09_gen_write_long_nolock_eq :
  forall (h : N) (v : bytes) (c : client) (s : server),
    write_long_nolock_gen h v c s = write_long_nolock h v c s.
Proof. exact write_long_nolock_gen_eq. Qed.

(** Non-vacuity: 40 bytes at ATT_MTU 23 go out as 3 chunks of 18 bytes from offset 0. *)
Example C09_gen_nonvacuous : gen_write_long_plan (repeat 1%N 40) 23 = (3, 18, 0).
Proof. vm_compute. reflexivity. Qed.
