(** C09 — lemmas about the model of the GATT client procedures and server handlers. *)
From Coq Require Import List NArith ZArith Arith Bool Lia ZifyBool ZifyN ZifyNat.
From Whad Require Import Lib.Bytes C09.Model.
Import ListNotations.
Ltac Zify.zify_post_hook ::= Z.to_euclidean_division_equations.

(** * Lists *)

Lemma firstn_add {A} (a b : nat) (l : list A) :
  firstn (a + b) l = firstn a l ++ firstn b (skipn a l).
Proof.
  revert l. induction a as [|a IH]; intros l; [reflexivity|].
  destruct l as [|x l]; cbn [Nat.add firstn skipn app].
  - now rewrite firstn_nil.
  - now rewrite IH.
Qed.

Lemma skipn_skipn' {A} (x y : nat) (l : list A) : skipn x (skipn y l) = skipn (x + y) l.
Proof.
  revert l. induction y as [|y IH]; intros l.
  - now rewrite Nat.add_0_r.
  - rewrite Nat.add_succ_r. destruct l; cbn [skipn]; [now rewrite !skipn_nil | apply IH].
Qed.

Lemma slice_length (a b : nat) (l : bytes) :
  length (slice a b l) = Nat.min (b - a) (length l - a).
Proof. unfold slice. now rewrite firstn_length, skipn_length. Qed.

Lemma slice_end (a b : nat) (l : bytes) : length l <= a -> slice a b l = [].
Proof. intros H. unfold slice. rewrite skipn_all2 by lia. apply firstn_nil. Qed.

(** * Database *)

Lemma lookup_update_same d h a a0 :
  lookup d h = Some a0 -> lookup (update d h a) h = Some a.
Proof.
  induction d as [|[k x] d IH]; cbn [lookup update]; intros H; [discriminate|].
  destruct (N.eqb k h) eqn:E; cbn [lookup]; rewrite E; auto.
Qed.

Lemma lookup_update_other d h a h' :
  h' <> h -> lookup (update d h a) h' = lookup d h'.
Proof.
  intros Hn. induction d as [|[k x] d IH]; cbn [lookup update]; [reflexivity|].
  destruct (N.eqb k h) eqn:E; cbn [lookup].
  - apply N.eqb_eq in E. subst k.
    destruct (N.eqb h h') eqn:E'; [apply N.eqb_eq in E'; congruence | reflexivity].
  - now rewrite IH.
Qed.

Lemma lookup_update_none d h a h' : lookup d h' = None -> lookup (update d h a) h' = None.
Proof.
  induction d as [|[k x] d IH]; cbn [lookup update]; [reflexivity|].
  destruct (N.eqb k h) eqn:E; cbn [lookup]; destruct (N.eqb k h') eqn:E'; auto; discriminate.
Qed.

(** * One request / response exchange *)

Definition mkc (m cm : nat) (q : list rsp) (l : bool) : client :=
  {| c_mtu := m; c_cmtu := cm; c_q := q; c_locked := l |}.

Definition ask_outcome (accept : rsp -> bool) (k : rsp -> outcome val) (r : option rsp) : outcome val :=
  match r with
  | None => Raise ETimeout
  | Some m => if is_cmd_err m then Raise ETimeout
              else if accept m then match m with RErr _ _ code => Raise (EAtt code) | _ => k m end
              else Raise ETimeout
  end.

Lemma ask_spec accept q k m cm l s :
  encodable q = true ->
  ask accept q k (mkc m cm [] l) s
  = (ask_outcome accept k (snd (server_step s q)), mkc m cm [] l, fst (server_step s q)).
Proof.
  intros He. unfold ask, xfer. rewrite He.
  destruct (server_step s q) as [s' r]. cbn [fst snd].
  destruct r as [x|]; cbn [deliver ask_outcome].
  - unfold wait, set_q, mkc. cbn [c_q c_mtu c_cmtu c_locked app wait_in is_cmd_err].
    destruct (is_cmd_err x); [reflexivity|].
    destruct (accept x); [destruct x; reflexivity | reflexivity].
  - unfold wait, mkc. cbn. reflexivity.
Qed.

(** * Well-formed databases (what Profile builds) *)

Definition wf_db (d : db) : Prop :=
  (forall h u v, lookup d h = Some (AValue u v) -> exists p, owner_props d h = Some p)
  /\ (forall h p vh u, lookup d h = Some (ADecl p vh u) -> exists u' v, lookup d vh = Some (AValue u' v)).

(** the state between two procedures *)
Record clean (c : client) (s : server) (mtu : nat) : Prop := {
  cl_lock : c_locked c = false;
  cl_q : c_q c = [];
  cl_wq : wq s = [];
  cl_crash : crashed s = false;
  cl_cmtu : c_mtu c = mtu;
  cl_smtu : s_cmtu s = mtu;
  cl_mtu : 23 <= mtu
}.

(** * Reads *)

(** [h] holds a value a client may read: a readable characteristic value, a CCCD or a descriptor *)
Definition readable_target (d : db) (h : N) (S : bytes) : Prop :=
  h <> 0%N /\
  ((exists u p, lookup d h = Some (AValue u S) /\ owner_props d h = Some p /\ readable p = true)
   \/ lookup d h = Some (ACccd S)
   \/ (exists u, lookup d h = Some (ADesc u S))).

Lemma srv_read_target s h S :
  crashed s = false -> readable_target (sdb s) h S ->
  server_step s (QRead h) = (s, Some (RRead (firstn (s_cmtu s - 1) S))).
Proof.
  intros Hc [Hh H]. unfold server_step. unfold srv_read.
  apply N.eqb_neq in Hh. rewrite Hh.
  destruct H as [(u & p & H1 & H2 & H3) | [H1 | (u & H1)]]; rewrite H1.
  - now rewrite H2, H3.
  - reflexivity.
  - reflexivity.
Qed.

Lemma srv_blob_target s h S off :
  crashed s = false -> readable_target (sdb s) h S -> off <= length S ->
  server_step s (QBlob h off) = (s, Some (RBlob (slice off (off + (s_cmtu s - 1)) S))).
Proof.
  intros Hc [Hh H] Hoff. unfold server_step. unfold srv_blob.
  apply N.eqb_neq in Hh. rewrite Hh.
  assert (Hans : (if off <? length S then (s, Some (RBlob (slice off (off + s_cmtu s - 1) S)))
                  else if off =? length S then (s, Some (RBlob []))
                  else (s, Some (RErr OP_READ_BLOB h E_INVALID_OFFSET)))
                 = (s, Some (RBlob (slice off (off + (s_cmtu s - 1)) S)))).
  { destruct (Nat.eq_dec off (length S)) as [He|Hne].
    - rewrite (slice_end off (off + (s_cmtu s - 1)) S) by lia.
      replace (off <? length S) with false by (symmetry; apply Nat.ltb_ge; lia).
      replace (off =? length S) with true by (symmetry; apply Nat.eqb_eq; lia). reflexivity.
    - replace (off <? length S) with true by (symmetry; apply Nat.ltb_lt; lia).
      unfold slice. replace (off + s_cmtu s - 1 - off) with (off + (s_cmtu s - 1) - off) by lia. reflexivity. }
  destruct H as [(u & p & H1 & H2 & H3) | [H1 | (u & H1)]]; rewrite H1; cbn [blob_value].
  - rewrite H2, H3. exact Hans.
  - exact Hans.
  - exact Hans.
Qed.

Lemma fits16_nat n : (N.of_nat n < 65536)%N -> fits16 (N.of_nat n) = true.
Proof. intros H. unfold fits16. now apply N.ltb_lt. Qed.

Lemma fits16_N h : (h < 65536)%N -> fits16 h = true.
Proof. intros H. unfold fits16. now apply N.ltb_lt. Qed.

(** a plain read returns the first MTU-1 bytes of the stored value and leaves everything as it was *)
Lemma read_returns_prefix c s mtu h S :
  clean c s mtu -> (h < 65536)%N -> readable_target (sdb s) h S ->
  client_read h c s = (Ok (VBytes (firstn (mtu - 1) S)), c, s).
Proof.
  intros [Hl Hq Hw Hc Hm1 Hm2 Hm] Hh Ht.
  destruct c as [m cm q l]. cbn in Hl, Hq, Hm1. subst l q m.
  unfold client_read, proclock, set_lock. cbn [c_locked c_mtu c_cmtu c_q].
  change {| c_mtu := mtu; c_cmtu := cm; c_q := []; c_locked := true |} with (mkc mtu cm [] true).
  rewrite ask_spec by (cbn [encodable]; now apply fits16_N).
  rewrite srv_read_target with (S := S) by assumption.
  cbn [fst snd ask_outcome acc_read releases set_lock mkc c_mtu c_cmtu c_q]. now rewrite Hm2.
Qed.

Lemma read_blob_returns_slice c s mtu h S off :
  clean c s mtu -> (h < 65536)%N -> readable_target (sdb s) h S -> off <= length S ->
  (N.of_nat off < 65536)%N ->
  client_read_blob h off c s = (Ok (VBytes (slice off (off + (mtu - 1)) S)), c, s).
Proof.
  intros [Hl Hq Hw Hc Hm1 Hm2 Hm] Hh Ht Hoff Ho16.
  destruct c as [m cm q l]. cbn in Hl, Hq, Hm1. subst l q m.
  unfold client_read_blob, proclock, set_lock. cbn [c_locked c_mtu c_cmtu c_q].
  change {| c_mtu := mtu; c_cmtu := cm; c_q := []; c_locked := true |} with (mkc mtu cm [] true).
  rewrite ask_spec by (cbn [encodable]; rewrite fits16_N, fits16_nat by assumption; reflexivity).
  rewrite srv_blob_target with (S := S) by assumption.
  cbn [fst snd ask_outcome acc_blob releases set_lock mkc c_mtu c_cmtu c_q]. now rewrite Hm2.
Qed.

(** ** read_long *)

Lemma div_step x m : 0 < m -> m <= x -> x / m = (x - m) / m + 1.
Proof.
  intros Hm Hx. replace x with ((x - m) + 1 * m) at 1 by lia.
  rewrite Nat.div_add by lia. reflexivity.
Qed.

Lemma firstn_pos_nonnil {A} n (l : list A) : 0 < n -> 0 < length l -> firstn n l <> [].
Proof. destruct n, l; cbn; intros; try lia; discriminate. Qed.

Lemma read_long_loop_spec s h S mtu cm :
  crashed s = false -> s_cmtu s = mtu -> 2 <= mtu -> (h < 65536)%N ->
  readable_target (sdb s) h S -> (N.of_nat (length S) < 65536)%N ->
  forall fuel off,
    off <= length S -> (length S - off) / (mtu - 1) + 1 <= fuel ->
    read_long_loop fuel h mtu (firstn off S) off (mkc mtu cm [] true) s
    = (Ok (VBytes S), mkc mtu cm [] true, s).
Proof.
  intros Hc Hm Hmtu Hh Ht HS.
  induction fuel as [|f IH]; intros off Hoff Hfuel.
  { exfalso. revert Hfuel. generalize ((length S - off) / (mtu - 1)). intros; lia. }
  cbn [read_long_loop].
  assert (Hstep : forall q v,
             encodable q = true -> server_step s q = (s, Some v) ->
             xfer (mkc mtu cm [] true) s q = Some (mkc mtu cm [v] true, s)).
  { intros q v He Hs. unfold xfer. rewrite He, Hs. reflexivity. }
  set (m := mtu - 1) in *.
  assert (Hm0 : 0 < m) by (unfold m; lia).
  destruct (Nat.eq_dec off 0) as [H0|Hpos].
  - (* first request: Read *)
    subst off. cbn [firstn].
    rewrite (Hstep (QRead h) (RRead (firstn m S))).
    2:{ cbn [encodable]. now apply fits16_N. }
    2:{ rewrite srv_read_target with (S := S) by assumption. rewrite Hm. reflexivity. }
    unfold wait. cbn [mkc c_q wait_in is_cmd_err acc_read_or_blob set_q c_mtu c_cmtu c_locked].
    rewrite firstn_length. cbn [app].
    destruct (Nat.min m (length S) <? m) eqn:E.
    + apply Nat.ltb_lt in E. rewrite firstn_all2 by lia. reflexivity.
    + apply Nat.ltb_ge in E.
      change (firstn m S) with (firstn (0 + m) S) at 1.
      replace (0 + Nat.min m (length S)) with (0 + m) by lia.
      apply IH; [lia|].
      rewrite (div_step (length S - 0) m) in Hfuel by lia.
      replace (length S - (0 + m)) with (length S - 0 - m) by lia. lia.
  - (* Read Blob at the current offset *)
    assert (Hne : firstn off S <> []) by (apply firstn_pos_nonnil; lia).
    destruct (firstn off S) as [|x r] eqn:Eacc; [congruence|]. rewrite <- Eacc. clear Hne.
    replace (match firstn off S with [] => QRead h | _ :: _ => QBlob h off end) with (QBlob h off)
      by (rewrite Eacc; reflexivity).
    rewrite (Hstep (QBlob h off) (RBlob (slice off (off + m) S))).
    2:{ cbn [encodable]. rewrite fits16_N by assumption. rewrite fits16_nat by lia. reflexivity. }
    2:{ rewrite srv_blob_target with (S := S) by assumption. rewrite Hm. reflexivity. }
    unfold wait. cbn [mkc c_q wait_in is_cmd_err acc_read_or_blob set_q c_mtu c_cmtu c_locked].
    rewrite slice_length. replace (off + m - off) with m by lia.
    destruct (Nat.min m (length S - off) <? m) eqn:E.
    + apply Nat.ltb_lt in E. unfold slice. replace (off + m - off) with m by lia.
      rewrite (firstn_all2 (skipn off S)) by (rewrite skipn_length; lia).
      now rewrite firstn_skipn.
    + apply Nat.ltb_ge in E.
      unfold slice. replace (off + m - off) with m by lia.
      rewrite <- firstn_add.
      replace (off + Nat.min m (length S - off)) with (off + m) by lia.
      apply IH; [lia|].
      rewrite (div_step (length S - off) m) in Hfuel by lia.
      replace (length S - (off + m)) with (length S - off - m) by lia. lia.
Qed.

Lemma lookup_stored_le d h a : lookup d h = Some a -> stored_len a <= max_len d.
Proof.
  unfold max_len. induction d as [|[k x] d IH]; cbn [lookup fold_right snd]; [discriminate|].
  destruct (N.eqb k h); intros H.
  - injection H as ->. lia.
  - specialize (IH H). lia.
Qed.

Lemma readable_target_len d h S : readable_target d h S -> length S <= max_len d.
Proof.
  intros [_ [(u & p & H & _) | [H | (u & H)]]]; apply lookup_stored_le in H; exact H.
Qed.

(** [read_long] with ANY fuel of at least one request per MTU-1 bytes plus one returns exactly
    the stored value *)
Lemma read_long_fuel_enough c s mtu h S fuel :
  clean c s mtu -> (h < 65536)%N -> readable_target (sdb s) h S ->
  (N.of_nat (length S) < 65536)%N ->
  length S / (mtu - 1) + 1 <= fuel ->
  client_read_long fuel h c s = (Ok (VBytes S), c, s).
Proof.
  intros [Hl Hq Hw Hc Hm1 Hm2 Hm] Hh Ht HS Hf.
  destruct c as [m cm q l]. cbn in Hl, Hq, Hm1. subst l q m.
  unfold client_read_long, proclock, set_lock. cbn [c_locked c_mtu c_cmtu c_q].
  change {| c_mtu := mtu; c_cmtu := cm; c_q := []; c_locked := true |} with (mkc mtu cm [] true).
  change (@nil N) with (firstn 0 S) at 1.
  rewrite read_long_loop_spec with (S := S); try assumption; try lia.
  - reflexivity.
  - now rewrite Nat.sub_0_r.
Qed.

Lemma read_long_returns_stored c s mtu h S :
  clean c s mtu -> (h < 65536)%N -> readable_target (sdb s) h S ->
  (N.of_nat (length S) < 65536)%N ->
  client_read_long (read_long_fuel s) h c s = (Ok (VBytes S), c, s).
Proof.
  intros Hcl Hh Ht HS. apply read_long_fuel_enough with (mtu := mtu); try assumption.
  unfold read_long_fuel. pose proof (readable_target_len _ _ _ Ht).
  assert (length S / (mtu - 1) <= length S).
  { destruct (mtu - 1) eqn:E; [cbn; lia|]. apply Nat.div_le_upper_bound; nia. }
  lia.
Qed.

(** * Writes *)

(** [h] holds a characteristic value whose declaration (properties [p]) is at [h-1] *)
Definition value_at (d : db) (h : N) (u old : bytes) (p : N) : Prop :=
  h <> 0%N /\ (h < 65536)%N /\ lookup d h = Some (AValue u old) /\ owner_props d h = Some p.

(** plain Write Request (value of at most MTU-3 bytes) *)
Lemma write_plain c s mtu h u old p v :
  clean c s mtu -> value_at (sdb s) h u old p -> length v <= mtu - 3 ->
  client_write h v c s
  = if writeable p then (Ok VTrue, c, set_db s (update (sdb s) h (AValue u v)))
    else (Raise (EAtt E_WRITE_NOT_PERMITTED), c, s).
Proof.
  intros [Hl Hq Hw Hc Hm1 Hm2 Hm] (Hh0 & Hh & Hlk & Hp) Hlen.
  destruct c as [m cm q l]. cbn in Hl, Hq, Hm1. subst l q m.
  unfold client_write, proclock, set_lock. cbn [c_locked c_mtu c_cmtu c_q].
  replace (mtu - 3 <? length v) with false by (symmetry; apply Nat.ltb_ge; lia).
  change {| c_mtu := mtu; c_cmtu := cm; c_q := []; c_locked := true |} with (mkc mtu cm [] true).
  rewrite ask_spec by (cbn [encodable]; now apply fits16_N).
  unfold server_step. unfold srv_write.
  apply N.eqb_neq in Hh0. rewrite Hh0, Hlk, Hp.
  destruct (writeable p); reflexivity.
Qed.

(** ** long writes *)

(** the prepared writes the client sends: offset, chunk *)
Fixpoint chunks (n : nat) (v : bytes) (cs off : nat) : list (nat * bytes) :=
  match n with
  | O => []
  | S n' => let d := slice off (off + cs) v in (off, d) :: chunks n' v cs (off + length d)
  end.

(** queue holding only the writes of [h] *)
Definition pend (h : N) (ws : list (nat * bytes)) : list (N * list (nat * bytes)) :=
  match ws with [] => [] | _ => [(h, ws)] end.

Lemma wq_add_pend h ws w : wq_add (pend h ws) h w = pend h (ws ++ [w]).
Proof.
  destruct ws as [|x r]; cbn [pend wq_add app].
  - reflexivity.
  - rewrite N.eqb_refl. reflexivity.
Qed.

Lemma prep_loop_spec h v cs mtu cm u0 x0 :
  (h < 65536)%N -> (N.of_nat (length v) < 65536)%N ->
  forall n off ws s,
    crashed s = false -> lookup (sdb s) h = Some (AValue u0 x0) -> wq s = pend h ws -> off <= length v ->
    prep_loop n h v cs off (mkc mtu cm [] true) s
    = (None, mkc mtu cm [] true, set_wq s (pend h (ws ++ chunks n v cs off))).
Proof.
  intros Hh Hv. induction n as [|n IH]; intros off ws s Hc Hlk Hwq Hoff; cbn [prep_loop chunks].
  - rewrite app_nil_r, <- Hwq. destruct s; reflexivity.
  - unfold xfer. cbn [encodable]. rewrite fits16_N by assumption. rewrite fits16_nat by lia.
    cbn [andb]. unfold server_step. unfold srv_prepare. rewrite Hlk.
    cbn [deliver]. unfold wait, set_q, mkc. cbn [c_q c_mtu c_cmtu c_locked app wait_in is_cmd_err acc_prep].
    set (d := slice off (off + cs) v).
    change {| c_mtu := mtu; c_cmtu := cm; c_q := []; c_locked := true |} with (mkc mtu cm [] true).
    rewrite Hwq, wq_add_pend.
    rewrite (IH (off + length d) (ws ++ [(off, d)])); cbn [set_wq sdb wq crashed]; try assumption; try reflexivity.
    + rewrite <- app_assoc. reflexivity.
    + unfold d. rewrite slice_length. lia.
Qed.

(** applying the contiguous chunks of [v] to [old]: [v] followed by what [old] has beyond *)
Lemma apply_chunks v old cs : 0 < cs ->
  forall n off,
    off <= length v -> length v <= off + n * cs ->
    apply_writes (firstn off v ++ skipn off old) (chunks n v cs off)
    = (v ++ skipn (length v) old, true).
Proof.
  intros Hcs. induction n as [|n IH]; intros off Hoff Hcov; cbn [chunks apply_writes].
  - assert (off = length v) by lia. subst off. now rewrite firstn_all.
  - set (d := slice off (off + cs) v).
    assert (Hd : length d = Nat.min cs (length v - off)).
    { unfold d. rewrite slice_length. f_equal. lia. }
    assert (Hf : length (firstn off v) = off) by (rewrite firstn_length; lia).
    assert (Hnext : firstn off v ++ d = firstn (off + length d) v).
    { rewrite firstn_add. f_equal. rewrite Hd. unfold d, slice.
      replace (off + cs - off) with cs by lia.
      symmetry.
      destruct (Nat.le_ge_cases cs (length v - off)).
      - now rewrite Nat.min_l by lia.
      - rewrite Nat.min_r by lia. rewrite !firstn_all2; try reflexivity; rewrite skipn_length; lia. }
    unfold splice. rewrite app_length, Hf, skipn_length.
    replace (off + (length old - off) <? off) with false by (symmetry; apply Nat.ltb_ge; lia).
    rewrite firstn_app, Hf, Nat.sub_diag, firstn_O, app_nil_r.
    rewrite (firstn_all2 (firstn off v)) by lia.
    destruct (off + length d <=? off + (length old - off)) eqn:E.
    + apply Nat.leb_le in E.
      rewrite skipn_app, Hf.
      rewrite (skipn_all2 (firstn off v)) by lia. cbn [app].
      replace (off + length d - off) with (length d) by lia.
      rewrite skipn_skipn'.
      rewrite app_assoc, Hnext.
      replace (length d + off) with (off + length d) by lia.
      apply IH; [lia|]. nia.
    + apply Nat.leb_gt in E.
      rewrite Hnext.
      rewrite <- (app_nil_r (firstn (off + length d) v)).
      rewrite <- (skipn_all2 old (n := off + length d)) by lia.
      apply IH; [lia|]. nia.
Qed.

Lemma nb_chunks_cover len cs : 0 < cs -> len <= nb_chunks len cs * cs.
Proof.
  intros Hcs. unfold nb_chunks.
  pose proof (Nat.div_mod len cs ltac:(lia)) as Hdm.
  destruct (0 <? len mod cs) eqn:E.
  - apply Nat.ltb_lt in E. pose proof (Nat.mod_upper_bound len cs ltac:(lia)). nia.
  - apply Nat.ltb_ge in E. nia.
Qed.

Lemma exec_pend d h u cur ws cur' p :
  lookup d h = Some (AValue u cur) -> owner_props d h = Some p -> writeable p = true ->
  apply_writes cur ws = (cur', true) ->
  exec_queues d (pend h ws)
  = (match ws with [] => d | _ => update d h (AValue u cur') end, ExDone).
Proof.
  intros Hlk Hp Hw Ha. destruct ws as [|w ws]; cbn [pend exec_queues]; [reflexivity|].
  rewrite Hlk, Hp, Hw, Ha. reflexivity.
Qed.

Lemma exec_pend_denied d h u cur ws p :
  lookup d h = Some (AValue u cur) -> owner_props d h = Some p -> writeable p = false -> ws <> [] ->
  exec_queues d (pend h ws) = (d, ExDenied h).
Proof.
  intros Hlk Hp Hw Hne. destruct ws as [|w ws]; [congruence|]. cbn [pend exec_queues].
  rewrite Hlk, Hp, Hw. reflexivity.
Qed.

(** [write_long_nolock] on a characteristic value, from a state with empty prepared queues:
    success, the stored value is the written one followed by what the old value has beyond
    its length, nothing else changes, the queues are empty again *)
Lemma write_long_nolock_spec h u old p v mtu cm s :
  crashed s = false -> wq s = [] -> 23 <= mtu ->
  value_at (sdb s) h u old p -> writeable p = true -> (N.of_nat (length v) < 65536)%N ->
  write_long_nolock h v (mkc mtu cm [] true) s
  = (Ok VTrue, mkc mtu cm [] true,
     set_wq (set_db s (match nb_chunks (length v) (mtu - 5) with
                       | O => sdb s
                       | _ => update (sdb s) h (AValue u (v ++ skipn (length v) old))
                       end)) []).
Proof.
  intros Hc Hwq Hm (Hh0 & Hh & Hlk & Hp) Hw Hv.
  unfold write_long_nolock. cbn [mkc c_mtu].
  change {| c_mtu := mtu; c_cmtu := cm; c_q := []; c_locked := true |} with (mkc mtu cm [] true).
  rewrite (prep_loop_spec h v (mtu - 5) mtu cm u old Hh Hv _ 0 [] s); try assumption; try lia.
  cbn [app].
  rewrite ask_spec by reflexivity.
  unfold server_step. cbn [set_wq crashed sdb wq]. unfold srv_execute.
  cbn [N.eqb Pos.eqb set_wq crashed sdb wq].
  pose proof (nb_chunks_cover (length v) (mtu - 5) ltac:(lia)) as Hcov.
  assert (Ha : apply_writes old (chunks (nb_chunks (length v) (mtu - 5)) v (mtu - 5) 0)
               = (v ++ skipn (length v) old, true)).
  { change old with (firstn 0 v ++ skipn 0 old) at 1. apply apply_chunks; lia. }
  rewrite (exec_pend _ _ _ _ _ _ _ Hlk Hp Hw Ha).
  cbn [fst snd ask_outcome acc_exec set_db set_wq sdb wq s_cmtu s_smtu crashed].
  destruct (nb_chunks (length v) (mtu - 5)); cbn [chunks]; reflexivity.
Qed.

Lemma update_same d h a : lookup d h = Some a -> update d h a = d.
Proof.
  induction d as [|[k x] d IH]; cbn [lookup update]; [reflexivity|].
  destruct (N.eqb k h) eqn:E; intros H.
  - injection H as ->. reflexivity.
  - now rewrite IH.
Qed.

Lemma nb_chunks_zero len cs : 0 < cs -> nb_chunks len cs = 0 -> len = 0.
Proof. intros Hcs H. pose proof (nb_chunks_cover len cs Hcs). lia. Qed.

(** same, in the form used by the theorems: the database after the procedure *)
Lemma write_long_nolock_db h u old p v mtu cm s :
  crashed s = false -> wq s = [] -> 23 <= mtu ->
  value_at (sdb s) h u old p -> writeable p = true -> (N.of_nat (length v) < 65536)%N ->
  write_long_nolock h v (mkc mtu cm [] true) s
  = (Ok VTrue, mkc mtu cm [] true,
     set_wq (set_db s (update (sdb s) h (AValue u (v ++ skipn (length v) old)))) []).
Proof.
  intros Hc Hwq Hm Hva Hw Hv. rewrite write_long_nolock_spec with (u := u) (old := old) (p := p) by assumption.
  destruct (nb_chunks (length v) (mtu - 5)) eqn:E; [|reflexivity].
  apply nb_chunks_zero in E; [|lia].
  destruct v; [|discriminate]. cbn [length app skipn].
  destruct Hva as (_ & _ & Hlk & _). now rewrite update_same.
Qed.

Lemma chunks_nonempty v cs : 0 < cs -> v <> [] -> chunks (nb_chunks (length v) cs) v cs 0 <> [].
Proof.
  intros Hcs Hv. destruct (nb_chunks (length v) cs) eqn:E; [|cbn [chunks]; discriminate].
  apply nb_chunks_zero in E; [|assumption]. destruct v; [congruence|discriminate].
Qed.

(** the characteristic is not writable: the Execute Write is refused, nothing is stored, the
    prepared queue is emptied *)
Lemma write_long_nolock_denied h u old p v mtu cm s :
  crashed s = false -> wq s = [] -> 23 <= mtu ->
  value_at (sdb s) h u old p -> writeable p = false -> v <> [] -> (N.of_nat (length v) < 65536)%N ->
  write_long_nolock h v (mkc mtu cm [] true) s
  = (Raise (EAtt E_WRITE_NOT_PERMITTED), mkc mtu cm [] true, set_wq s []).
Proof.
  intros Hc Hwq Hm (Hh0 & Hh & Hlk & Hp) Hw Hne Hv.
  unfold write_long_nolock. cbn [mkc c_mtu].
  change {| c_mtu := mtu; c_cmtu := cm; c_q := []; c_locked := true |} with (mkc mtu cm [] true).
  rewrite (prep_loop_spec h v (mtu - 5) mtu cm u old Hh Hv _ 0 [] s); try assumption; try lia.
  cbn [app]. rewrite ask_spec by reflexivity.
  unfold server_step. cbn [set_wq crashed sdb wq]. unfold srv_execute.
  cbn [N.eqb Pos.eqb set_wq crashed sdb wq].
  rewrite (exec_pend_denied _ _ _ _ _ _ Hlk Hp Hw (chunks_nonempty v (mtu - 5) ltac:(lia) Hne)).
  reflexivity.
Qed.

(** a zero-length long write sends no Prepare Write: the Execute Write finds an empty queue *)
Lemma write_long_nolock_empty h mtu cm s :
  wq s = [] -> 23 <= mtu ->
  write_long_nolock h [] (mkc mtu cm [] true) s = (Ok VTrue, mkc mtu cm [] true, set_wq (set_db s (sdb s)) []).
Proof.
  intros Hwq Hm. unfold write_long_nolock. cbn [mkc c_mtu length].
  replace (nb_chunks 0 (mtu - 5)) with 0%nat.
  2:{ unfold nb_chunks. rewrite Nat.div_0_l, Nat.mod_0_l by lia. reflexivity. }
  cbn [prep_loop].
  change {| c_mtu := mtu; c_cmtu := cm; c_q := []; c_locked := true |} with (mkc mtu cm [] true).
  rewrite ask_spec by reflexivity.
  unfold server_step, srv_execute. cbn [N.eqb Pos.eqb]. rewrite Hwq. reflexivity.
Qed.

Lemma client_write_long_spec c s mtu h u old p v :
  clean c s mtu -> value_at (sdb s) h u old p -> writeable p = true -> (N.of_nat (length v) < 65536)%N ->
  client_write_long h v c s
  = (Ok VTrue, c, set_wq (set_db s (update (sdb s) h (AValue u (v ++ skipn (length v) old)))) []).
Proof.
  intros [Hl Hq Hw Hc Hm1 Hm2 Hm] Hva Hwr Hv.
  destruct c as [m cm q l]. cbn in Hl, Hq, Hm1. subst l q m.
  unfold client_write_long, proclock, set_lock. cbn [c_locked c_mtu c_cmtu c_q].
  change {| c_mtu := mtu; c_cmtu := cm; c_q := []; c_locked := true |} with (mkc mtu cm [] true).
  rewrite write_long_nolock_db with (u := u) (old := old) (p := p) by assumption.
  reflexivity.
Qed.

(** [write] of more than MTU-3 bytes is the long write *)
Lemma write_redirects c s mtu h u old p v :
  clean c s mtu -> value_at (sdb s) h u old p -> writeable p = true -> (N.of_nat (length v) < 65536)%N ->
  mtu - 3 < length v ->
  client_write h v c s
  = (Ok VTrue, c, set_wq (set_db s (update (sdb s) h (AValue u (v ++ skipn (length v) old)))) []).
Proof.
  intros [Hl Hq Hw Hc Hm1 Hm2 Hm] Hva Hwr Hv Hlen.
  destruct c as [m cm q l]. cbn in Hl, Hq, Hm1. subst l q m.
  unfold client_write, proclock, set_lock. cbn [c_locked c_mtu c_cmtu c_q].
  replace (mtu - 3 <? length v) with true by (symmetry; apply Nat.ltb_lt; lia).
  change {| c_mtu := mtu; c_cmtu := cm; c_q := []; c_locked := true |} with (mkc mtu cm [] true).
  rewrite write_long_nolock_db with (u := u) (old := old) (p := p) by assumption.
  reflexivity.
Qed.

(** long path to a characteristic that is not writable: refused when executed *)
Lemma write_long_denied c s mtu h u old p v :
  clean c s mtu -> value_at (sdb s) h u old p -> writeable p = false -> v <> [] ->
  (N.of_nat (length v) < 65536)%N ->
  client_write_long h v c s = (Raise (EAtt E_WRITE_NOT_PERMITTED), c, set_wq s [])
  /\ (mtu - 3 < length v -> client_write h v c s = (Raise (EAtt E_WRITE_NOT_PERMITTED), c, set_wq s [])).
Proof.
  intros [Hl Hq Hw Hc Hm1 Hm2 Hm] Hva Hwr Hne Hv.
  destruct c as [m cm q l]. cbn in Hl, Hq, Hm1. subst l q m.
  split.
  - unfold client_write_long, proclock, set_lock. cbn [c_locked c_mtu c_cmtu c_q].
    change {| c_mtu := mtu; c_cmtu := cm; c_q := []; c_locked := true |} with (mkc mtu cm [] true).
    rewrite write_long_nolock_denied with (u := u) (old := old) (p := p) by assumption. reflexivity.
  - intros Hlen. unfold client_write, proclock, set_lock. cbn [c_locked c_mtu c_cmtu c_q].
    replace (mtu - 3 <? length v) with true by (symmetry; apply Nat.ltb_lt; lia).
    change {| c_mtu := mtu; c_cmtu := cm; c_q := []; c_locked := true |} with (mkc mtu cm [] true).
    rewrite write_long_nolock_denied with (u := u) (old := old) (p := p) by assumption. reflexivity.
Qed.

Lemma client_write_long_empty c s mtu h :
  clean c s mtu -> client_write_long h [] c s = (Ok VTrue, c, set_wq (set_db s (sdb s)) []).
Proof.
  intros [Hl Hq Hw Hc Hm1 Hm2 Hm].
  destruct c as [m cm q l]. cbn in Hl, Hq, Hm1. subst l q m.
  unfold client_write_long, proclock, set_lock. cbn [c_locked c_mtu c_cmtu c_q].
  change {| c_mtu := mtu; c_cmtu := cm; c_q := []; c_locked := true |} with (mkc mtu cm [] true).
  rewrite write_long_nolock_empty by assumption. reflexivity.
Qed.

Lemma tail_nil (v old : bytes) : length old <= length v -> v ++ skipn (length v) old = v.
Proof. intros H. rewrite skipn_all2 by lia. apply app_nil_r. Qed.

(** Write Command to a writable characteristic value: stored, no answer, nothing queued *)
Lemma write_command_stores c s mtu h u old p v :
  clean c s mtu -> value_at (sdb s) h u old p -> writeable p = true ->
  client_write_command h v c s = (Ok VTrue, c, set_db s (update (sdb s) h (AValue u v))).
Proof.
  intros [Hl Hq Hw Hc Hm1 Hm2 Hm] (Hh0 & Hh & Hlk & Hp) Hwr.
  destruct c as [m cm q l]. cbn in Hl, Hq, Hm1. subst l q m.
  unfold client_write_command, proclock, set_lock, xfer. cbn [c_locked c_mtu c_cmtu c_q encodable].
  rewrite fits16_N by assumption.
  unfold server_step. unfold srv_write_cmd.
  apply N.eqb_neq in Hh0. rewrite Hh0, Hlk, Hp, Hwr. reflexivity.
Qed.

(** MTU exchange: both sides end up with the requested MTU *)
Lemma set_mtu_spec c s mtu m :
  clean c s mtu -> 23 <= m -> (N.of_nat m < 65536)%N ->
  exists c' s', client_set_mtu m c s = (Ok (VNat m), c', s') /\ clean c' s' m
                /\ sdb s' = sdb s.
Proof.
  intros [Hl Hq Hw Hc Hm1 Hm2 Hm] H23 H16.
  destruct c as [m0 cm q l]. cbn in Hl, Hq, Hm1. subst l q m0.
  unfold client_set_mtu, proclock, set_lock, xfer. cbn [c_locked c_mtu c_cmtu c_q encodable].
  replace (23 <=? m) with true by (symmetry; apply Nat.leb_le; lia).
  rewrite fits16_nat by assumption.
  unfold server_step. unfold srv_mtu.
  replace (23 <=? m) with true by (symmetry; apply Nat.leb_le; lia).
  cbn [s_smtu deliver]. unfold wait, set_q. cbn [c_q app wait_in is_cmd_err acc_mtu c_mtu c_cmtu c_locked releases].
  replace (23 <=? m) with true by (symmetry; apply Nat.leb_le; lia).
  eexists _, _. split; [reflexivity|]. split; [|reflexivity].
  constructor; cbn; auto.
Qed.

(** * Every procedure, every argument: the outcome is a value, an ATT error or a GATT
      timeout, and the connection is left ready for the next procedure *)

Definition usable (o : outcome val) : Prop :=
  match o with Ok _ => True | Raise (EAtt _) => True | Raise ETimeout => True | _ => False end.

Lemma usable_releases o : usable o -> releases o = true.
Proof. destruct o as [x|[c| |]| |]; cbn; intros H; try reflexivity; contradiction. Qed.

Lemma proclock_usable body m cm s o s' :
  body (mkc m cm [] true) s = (o, mkc m cm [] true, s') -> usable o ->
  proclock body (mkc m cm [] false) s = (o, mkc m cm [] false, s').
Proof.
  intros Hb Hu. unfold proclock, set_lock, mkc in *. cbn [c_locked c_mtu c_cmtu c_q].
  rewrite Hb, (usable_releases _ Hu). reflexivity.
Qed.

(** ** shape of a database: everything but the stored values *)

Definition same_shape (d d' : db) : Prop :=
  forall x, match lookup d x, lookup d' x with
            | Some (AValue u _), Some (AValue u' _) => u = u'
            | Some (ACccd _), Some (ACccd _) => True
            | a, b => a = b
            end.

Lemma same_shape_refl d : same_shape d d.
Proof. intros x. destruct (lookup d x) as [[]|]; auto. Qed.

Lemma same_shape_update_value d h u v0 v :
  lookup d h = Some (AValue u v0) -> same_shape d (update d h (AValue u v)).
Proof.
  intros Hlk x. destruct (N.eq_dec x h) as [->|Hn].
  - rewrite (lookup_update_same _ _ _ _ Hlk), Hlk. reflexivity.
  - rewrite lookup_update_other by assumption. destruct (lookup d x) as [[]|]; auto.
Qed.

Lemma same_shape_update_cccd d h v0 v :
  lookup d h = Some (ACccd v0) -> same_shape d (update d h (ACccd v)).
Proof.
  intros Hlk x. destruct (N.eq_dec x h) as [->|Hn].
  - rewrite (lookup_update_same _ _ _ _ Hlk), Hlk. exact I.
  - rewrite lookup_update_other by assumption. destruct (lookup d x) as [[]|]; auto.
Qed.

Lemma wf_same_shape d d' : wf_db d -> same_shape d d' -> wf_db d'.
Proof.
  intros [W1 W2] Sh. split.
  - intros h u v H. pose proof (Sh h) as Sh1. rewrite H in Sh1.
    destruct (lookup d h) as [[]|] eqn:E; try discriminate.
    destruct (W1 _ _ _ E) as [p Hp]. exists p. unfold owner_props in *.
    pose proof (Sh (h - 1)%N) as Sh2.
    destruct (lookup d (h - 1)) as [[]|]; try discriminate.
    rewrite <- Sh2. exact Hp.
  - intros h p vh u H. pose proof (Sh h) as Sh1. rewrite H in Sh1.
    destruct (lookup d h) as [[]|] eqn:E; try discriminate.
    injection Sh1 as -> -> ->.
    destruct (W2 _ _ _ _ E) as (u' & v & Hv). pose proof (Sh vh) as Sh2. rewrite Hv in Sh2.
    destruct (lookup d' vh) as [[]|]; try discriminate. eauto.
Qed.

Lemma max_len_update d h a : max_len (update d h a) <= Nat.max (max_len d) (stored_len a).
Proof.
  unfold max_len. induction d as [|[k x] d IH]; cbn [update fold_right snd]; [lia|].
  destruct (N.eqb k h); cbn [fold_right snd]; lia.
Qed.

Record sinv (s : server) : Prop := {
  si_crash : crashed s = false;
  si_wq : wq s = [];
  si_wf : wf_db (sdb s);
  si_len : (N.of_nat (max_len (sdb s)) < 65536)%N
}.

Lemma sinv_set_db s d :
  sinv s -> same_shape (sdb s) d -> (N.of_nat (max_len d) < 65536)%N -> sinv (set_db s d).
Proof.
  intros [H1 H2 H3 H4] Sh Hl. constructor; cbn [set_db crashed wq sdb]; auto.
  eapply wf_same_shape; eauto.
Qed.

(** ** the server handlers the simple procedures use *)

Lemma srv_read_state s h : sinv s -> fst (server_step s (QRead h)) = s.
Proof.
  intros [Hc _ [W1 _] _]. unfold server_step. unfold srv_read.
  destruct (N.eqb h 0); [reflexivity|].
  destruct (lookup (sdb s) h) as [[]|] eqn:E; try reflexivity.
  destruct (W1 _ _ _ E) as [p Hp]. rewrite Hp. destruct (readable p); reflexivity.
Qed.

Lemma srv_blob_state s h off : sinv s -> fst (server_step s (QBlob h off)) = s.
Proof.
  intros [Hc _ [W1 W2] _]. unfold server_step. unfold srv_blob.
  destruct (N.eqb h 0); [reflexivity|].
  destruct (lookup (sdb s) h) as [a|] eqn:E; [|reflexivity].
  assert (Hans : forall av, fst (if off <? length av then (s, Some (RBlob (slice off (off + s_cmtu s - 1) av)))
                                 else if off =? length av then (s, Some (RBlob []))
                                 else (s, Some (RErr OP_READ_BLOB h E_INVALID_OFFSET))) = s).
  { intros av. destruct (off <? length av); [reflexivity|]. destruct (off =? length av); reflexivity. }
  destruct a; try apply Hans.
  destruct (W1 _ _ _ E) as [p Hp]. rewrite Hp. destruct (readable p); [apply Hans|reflexivity].
Qed.

Lemma srv_write_state s h v :
  sinv s -> (N.of_nat (length v) < 65536)%N ->
  sinv (fst (server_step s (QWrite h v))) /\ s_cmtu (fst (server_step s (QWrite h v))) = s_cmtu s.
Proof.
  intros Hs Hv. pose proof Hs as [Hc Hq [W1 W2] Hl]. unfold server_step. unfold srv_write.
  destruct (N.eqb h 0); [auto|].
  destruct (lookup (sdb s) h) as [[]|] eqn:E; cbn [fst]; auto.
  - destruct (W1 _ _ _ E) as [p Hp]. rewrite Hp. destruct (writeable p); cbn [fst]; auto.
    split; [|reflexivity]. apply sinv_set_db; auto.
    + eapply same_shape_update_value; eauto.
    + pose proof (max_len_update (sdb s) h (AValue uuid v)). cbn [stored_len] in *. lia.
  - destruct (length v <=? 2) eqn:E2; cbn [fst]; auto.
    split; [|reflexivity]. apply sinv_set_db; auto.
    + eapply same_shape_update_cccd; eauto.
    + pose proof (max_len_update (sdb s) h (ACccd (v ++ skipn (length v) v0))).
      pose proof (lookup_stored_le _ _ _ E). cbn [stored_len] in *.
      rewrite app_length, skipn_length in *. lia.
Qed.

Lemma srv_write_cmd_state s h v :
  sinv s -> (N.of_nat (length v) < 65536)%N ->
  sinv (fst (server_step s (QWriteCmd h v))) /\ s_cmtu (fst (server_step s (QWriteCmd h v))) = s_cmtu s.
Proof.
  intros Hs Hv. pose proof Hs as [Hc Hq [W1 W2] Hl]. unfold server_step. unfold srv_write_cmd.
  destruct (N.eqb h 0); [auto|].
  destruct (lookup (sdb s) h) as [[]|] eqn:E; cbn [fst]; auto.
  - destruct (W1 _ _ _ E) as [p Hp]. rewrite Hp. destruct (writeable p); cbn [fst]; auto.
    split; [|reflexivity]. apply sinv_set_db; auto.
    + eapply same_shape_update_value; eauto.
    + pose proof (max_len_update (sdb s) h (AValue uuid v)). cbn [stored_len] in *. lia.
  - destruct ((length v <=? 2) && negb (bytes_eqb v v0)) eqn:E2; cbn [fst]; auto.
    split; [|reflexivity]. apply sinv_set_db; auto.
    + eapply same_shape_update_cccd; eauto.
    + pose proof (max_len_update (sdb s) h (ACccd (v ++ skipn (length v) v0))).
      pose proof (lookup_stored_le _ _ _ E). cbn [stored_len] in *.
      rewrite app_length, skipn_length in *. lia.
Qed.

(** ** one exchange, any request of the simple procedures *)

Definition good_k (accept : rsp -> bool) (k : rsp -> outcome val) : Prop :=
  forall x, accept x = true -> is_err x = false -> exists r, k x = Ok r.

Lemma ask_outcome_usable accept k r : good_k accept k -> usable (ask_outcome accept k r).
Proof.
  intros Hk. destruct r as [x|]; cbn [ask_outcome]; [|exact I].
  destruct (is_cmd_err x); [exact I|].
  destruct (accept x) eqn:E; [|exact I].
  destruct x; try exact I; (destruct (Hk _ E eq_refl) as [r ->]; exact I).
Qed.

Lemma good_read : good_k acc_read (fun m => match m with RRead v => Ok (VBytes v) | _ => Raise EOther end).
Proof. intros x Ha He. destruct x; try discriminate; eauto. Qed.
Lemma good_blob : good_k acc_blob (fun m => match m with RBlob v => Ok (VBytes v) | _ => Raise EOther end).
Proof. intros x Ha He. destruct x; try discriminate; eauto. Qed.
Lemma good_write : good_k acc_write (fun m => match m with RWrite => Ok VTrue | _ => Raise EOther end).
Proof. intros x Ha He. destruct x; try discriminate; eauto. Qed.
Lemma good_exec : good_k acc_exec (fun m => match m with RExec => Ok VTrue | _ => Raise EOther end).
Proof. intros x Ha He. destruct x; try discriminate; eauto. Qed.

(** ** read_long towards ANY handle: terminates within the fuel, usable outcome *)

Definition rl_resp (bound off : nat) (r : option rsp) : Prop :=
  match r with
  | None => True
  | Some (RErr _ _ _) => True
  | Some (RRead v) | Some (RBlob v) => v = [] \/ off + length v <= bound
  | Some _ => False
  end.

Lemma srv_read_resp s h : sinv s -> rl_resp (max_len (sdb s)) 0 (snd (server_step s (QRead h))).
Proof.
  intros [Hc _ [W1 _] _]. unfold server_step. unfold srv_read.
  destruct (N.eqb h 0); [exact I|].
  destruct (lookup (sdb s) h) as [[]|] eqn:E; cbn [snd rl_resp]; try exact I;
    pose proof (lookup_stored_le _ _ _ E) as Hle; cbn [stored_len] in Hle.
  - right. lia.
  - right. unfold decl_payload, le16. cbn [length app]. lia.
  - destruct (W1 _ _ _ E) as [p Hp]. rewrite Hp. destruct (readable p); cbn [snd rl_resp]; [|exact I].
    right. rewrite firstn_length. lia.
  - right. rewrite firstn_length. lia.
  - right. rewrite firstn_length. lia.
Qed.

Lemma srv_blob_resp s h off : sinv s -> rl_resp (max_len (sdb s)) off (snd (server_step s (QBlob h off))).
Proof.
  intros [Hc _ [W1 W2] _]. unfold server_step. unfold srv_blob.
  destruct (N.eqb h 0); [exact I|].
  destruct (lookup (sdb s) h) as [a|] eqn:E; [|exact I].
  pose proof (lookup_stored_le _ _ _ E) as Hle.
  assert (Hans : forall av, length av <= max_len (sdb s) ->
            rl_resp (max_len (sdb s)) off
              (snd (if off <? length av then (s, Some (RBlob (slice off (off + s_cmtu s - 1) av)))
                    else if off =? length av then (s, Some (RBlob []))
                    else (s, Some (RErr OP_READ_BLOB h E_INVALID_OFFSET))))).
  { intros av Hav. destruct (off <? length av) eqn:Elt.
    - apply Nat.ltb_lt in Elt. cbn [snd rl_resp]. right. rewrite slice_length. lia.
    - destruct (off =? length av); cbn [snd rl_resp]; auto. }
  destruct a; cbn [blob_value stored_len] in *.
  - apply Hans. lia.
  - apply Hans. unfold decl_payload, le16. cbn [length app]. lia.
  - destruct (W1 _ _ _ E) as [p Hp]. rewrite Hp. destruct (readable p); [apply Hans; lia|exact I].
  - apply Hans. lia.
  - apply Hans. lia.
Qed.

Lemma read_long_loop_usable s h mtu cm :
  sinv s -> 2 <= mtu -> (h < 65536)%N ->
  forall fuel acc off,
    (acc = [] -> off = 0) -> off <= max_len (sdb s) -> max_len (sdb s) + 1 <= fuel + off ->
    exists o, read_long_loop fuel h mtu acc off (mkc mtu cm [] true) s = (o, mkc mtu cm [] true, s)
              /\ usable o.
Proof.
  intros Hs Hm Hh. pose proof (si_len _ Hs) as Hlen.
  induction fuel as [|f IH]; intros acc off Hacc Hoff Hfuel; [lia|].
  cbn [read_long_loop].
  set (q := match acc with [] => QRead h | _ :: _ => QBlob h off end).
  assert (Henc : encodable q = true).
  { unfold q. destruct acc; cbn [encodable]; rewrite fits16_N by assumption; [reflexivity|].
    rewrite fits16_nat by lia. reflexivity. }
  assert (Hst : fst (server_step s q) = s).
  { unfold q. destruct acc; [apply srv_read_state | apply srv_blob_state]; assumption. }
  assert (Hr : rl_resp (max_len (sdb s)) off (snd (server_step s q))).
  { unfold q. destruct acc.
    - rewrite (Hacc eq_refl). now apply srv_read_resp.
    - now apply srv_blob_resp. }
  unfold xfer. rewrite Henc. destruct (server_step s q) as [s1 r]. cbn [fst snd] in Hst, Hr. subst s1.
  assert (Hcont : forall v, rl_resp (max_len (sdb s)) off (Some (RRead v)) ->
            exists o, (if length v <? mtu - 1 then (Ok (VBytes (acc ++ v)), mkc mtu cm [] true, s)
                       else read_long_loop f h mtu (acc ++ v) (off + length v) (mkc mtu cm [] true) s)
                      = (o, mkc mtu cm [] true, s) /\ usable o).
  { intros v Hv. cbn [rl_resp] in Hv. destruct (length v <? mtu - 1) eqn:E.
    - eexists; split; [reflexivity|exact I].
    - apply Nat.ltb_ge in E. destruct Hv as [->|Hv]; [cbn [length] in E; lia|].
      apply IH; try lia. intros Hnil. apply app_eq_nil in Hnil as [_ ->]. cbn [length] in E. lia. }
  destruct r as [m|]; cbn [deliver]; unfold wait, set_q, mkc;
    cbn [c_q c_mtu c_cmtu c_locked app wait_in is_cmd_err].
  - destruct m; cbn [rl_resp] in Hr; try contradiction; cbn [acc_read_or_blob is_err].
    + destruct (is_cmd_err (RErr rq h0 code));
        (eexists; split; [reflexivity|exact I]).
    + apply Hcont. exact Hr.
    + apply Hcont. exact Hr.
  - eexists; split; [reflexivity|exact I].
Qed.

Lemma read_long_usable c s mtu h :
  clean c s mtu -> sinv s -> (h < 65536)%N ->
  exists o, client_read_long (read_long_fuel s) h c s = (o, c, s) /\ usable o.
Proof.
  intros [Hl Hq Hw Hc Hm1 Hm2 Hm] Hs Hh.
  destruct c as [m cm q l]. cbn in Hl, Hq, Hm1. subst l q m.
  destruct (read_long_loop_usable s h mtu cm Hs ltac:(lia) Hh (read_long_fuel s) [] 0) as (o & Ho & Hu);
    try (unfold read_long_fuel; lia); auto.
  exists o. split; [|exact Hu].
  unfold client_read_long. change {| c_mtu := mtu; c_cmtu := cm; c_q := []; c_locked := false |} with (mkc mtu cm [] false).
  apply proclock_usable; [|exact Hu]. cbn [mkc c_mtu]. exact Ho.
Qed.

(** ** long write towards ANY handle *)

Lemma exec_pend_other d h a ws :
  lookup d h = Some a -> (forall u v, a <> AValue u v) -> exec_queues d (pend h ws) = (d, ExDone).
Proof.
  intros Hlk Hn. destruct ws as [|w ws]; cbn [pend exec_queues]; [reflexivity|].
  rewrite Hlk. destruct a; try reflexivity. exfalso. eapply Hn. reflexivity.
Qed.

Lemma set_wq_nil s : wq s = [] -> set_wq s [] = s.
Proof. destruct s; cbn. intros ->. reflexivity. Qed.

(** what Prepare Write answers for a handle that does not hold a characteristic value *)
Definition prep_refusal (r : option attr) : option N :=
  match r with
  | None => Some E_INVALID_HANDLE
  | Some (AValue _ _) => None
  | Some (ACccd _) => Some E_REQUEST_NOT_SUPP
  | Some _ => Some E_WRITE_NOT_PERMITTED
  end.

(** a long write to anything but a characteristic value: the first Prepare Write is refused,
    the error is raised, nothing is queued or stored; with no byte to write nothing is sent
    but an Execute Write on an empty queue *)
Lemma write_long_nolock_refused h v mtu cm s code :
  wq s = [] -> 23 <= mtu -> (h < 65536)%N -> prep_refusal (lookup (sdb s) h) = Some code ->
  write_long_nolock h v (mkc mtu cm [] true) s
  = match v with
    | [] => (Ok VTrue, mkc mtu cm [] true, set_wq (set_db s (sdb s)) [])
    | _ => (Raise (EAtt code), mkc mtu cm [] true, s)
    end.
Proof.
  intros Hwq Hm Hh Hr. destruct v as [|b v]; [now apply write_long_nolock_empty|].
  unfold write_long_nolock. cbn [mkc c_mtu].
  destruct (nb_chunks (length (b :: v)) (mtu - 5)) as [|n] eqn:En.
  { apply nb_chunks_zero in En; [discriminate|lia]. }
  cbn [prep_loop]. unfold xfer. cbn [encodable]. rewrite fits16_N by assumption.
  cbn [N.of_nat fits16 N.ltb N.compare andb].
  unfold server_step, srv_prepare.
  destruct (lookup (sdb s) h) as [[]|]; cbn [prep_refusal] in Hr; try discriminate;
    injection Hr as <-; cbn [deliver]; unfold wait, set_q;
    cbn [c_q c_mtu c_cmtu c_locked app wait_in is_cmd_err acc_prep is_err]; reflexivity.
Qed.

Lemma write_long_nolock_usable h v mtu cm s :
  sinv s -> 23 <= mtu -> (h < 65536)%N -> (N.of_nat (length v) < 65536)%N ->
  exists o s', write_long_nolock h v (mkc mtu cm [] true) s = (o, mkc mtu cm [] true, s')
               /\ usable o /\ sinv s' /\ s_cmtu s' = s_cmtu s.
Proof.
  intros Hs Hm Hh Hv. pose proof Hs as [Hc Hq [W1 W2] Hl].
  destruct (prep_refusal (lookup (sdb s) h)) as [code|] eqn:Er.
  - (* not a characteristic value: refused (or nothing to send) *)
    rewrite (write_long_nolock_refused h v mtu cm s code Hq Hm Hh Er).
    destruct v.
    + eexists _, _. split; [reflexivity|]. split; [exact I|]. split; [|reflexivity].
      constructor; cbn [crashed wq sdb set_db set_wq]; auto. exact (conj W1 W2).
    + eexists _, _. split; [reflexivity|]. split; [exact I|]. split; [exact Hs|reflexivity].
  - (* characteristic value: every Prepare Write is echoed *)
    destruct (lookup (sdb s) h) as [[]|] eqn:Elk; cbn [prep_refusal] in Er; try discriminate.
    rename uuid into u, v0 into old.
    unfold write_long_nolock. cbn [mkc c_mtu].
    change {| c_mtu := mtu; c_cmtu := cm; c_q := []; c_locked := true |} with (mkc mtu cm [] true).
    rewrite (prep_loop_spec h v (mtu - 5) mtu cm u old Hh Hv _ 0 [] s); try assumption; try lia.
    cbn [app]. rewrite ask_spec by reflexivity.
    unfold server_step. cbn [set_wq crashed sdb wq]. unfold srv_execute.
    cbn [N.eqb Pos.eqb set_wq crashed sdb wq].
    destruct (W1 _ _ _ Elk) as [p Hp].
    destruct (writeable p) eqn:Hw.
    + pose proof (nb_chunks_cover (length v) (mtu - 5) ltac:(lia)) as Hcov.
      assert (Ha : apply_writes old (chunks (nb_chunks (length v) (mtu - 5)) v (mtu - 5) 0)
                   = (v ++ skipn (length v) old, true)).
      { change old with (firstn 0 v ++ skipn 0 old) at 1. apply apply_chunks; lia. }
      rewrite (exec_pend _ _ _ _ _ _ _ Elk Hp Hw Ha).
      cbn [fst snd ask_outcome acc_exec set_db set_wq sdb wq s_cmtu s_smtu crashed].
      eexists _, _. split; [reflexivity|]. split; [exact I|]. split; [|reflexivity].
      constructor; cbn [crashed wq sdb]; auto.
      * destruct (chunks _ _ _ _); [exact (conj W1 W2)|].
        eapply wf_same_shape; [exact (conj W1 W2)|]. eapply same_shape_update_value; eauto.
      * destruct (chunks _ _ _ _); [assumption|].
        pose proof (max_len_update (sdb s) h (AValue u (v ++ skipn (length v) old))) as Hmx.
        pose proof (lookup_stored_le _ _ _ Elk) as Hle. cbn [stored_len] in Hmx, Hle.
        rewrite app_length, skipn_length in Hmx. clear Hcov. cbn [sdb set_wq set_db]. lia.
    + destruct (chunks (nb_chunks (length v) (mtu - 5)) v (mtu - 5) 0) as [|w ws] eqn:Ech.
      * cbn [pend exec_queues fst snd ask_outcome acc_exec set_db set_wq sdb wq s_cmtu s_smtu crashed].
        eexists _, _. split; [reflexivity|]. split; [exact I|]. split; [|reflexivity].
        constructor; cbn [crashed wq sdb]; auto. exact (conj W1 W2).
      * rewrite (exec_pend_denied _ _ _ _ _ _ Elk Hp Hw) by discriminate.
        cbn [fst snd ask_outcome acc_exec set_db set_wq sdb wq s_cmtu s_smtu crashed].
        eexists _, _. split; [reflexivity|]. split; [exact I|]. split; [|reflexivity].
        constructor; cbn [crashed wq sdb]; auto. exact (conj W1 W2).
Qed.

(** ** any procedure, then any sequence of procedures *)

Definition args_ok (o : op) : Prop :=
  match o with
  | OSetMtu m | OSrvMtu m => (N.of_nat m < 65536)%N
  | ORead h | OReadLong h => (h < 65536)%N
  | OReadBlob h off => (h < 65536)%N /\ (N.of_nat off < 65536)%N
  | OWrite h v | OWriteLong h v | OWriteCmd h v => (h < 65536)%N /\ (N.of_nat (length v) < 65536)%N
  end.

(** the server does not answer this Write Command (it does answer, with an Error Response,
    the commands it refuses: known finding) *)
Definition cmd_not_refused (o : op) (s : server) : Prop :=
  match o with OWriteCmd h v => snd (server_step s (QWriteCmd h v)) = None | _ => True end.

Lemma clean_intro m cm s mtu :
  m = mtu -> sinv s -> s_cmtu s = mtu -> 23 <= mtu -> clean (mkc m cm [] false) s mtu.
Proof. intros -> [H1 H2 _ _] H3 H4. constructor; cbn; auto. Qed.

Lemma run_op_usable o c s mtu :
  clean c s mtu -> sinv s -> args_ok o -> cmd_not_refused o s ->
  exists out c' s', run_op o c s = (out, c', s') /\ usable out /\ clean c' s' (next_mtu o mtu) /\ sinv s'.
Proof.
  intros Hcl Hs Ha Hn. pose proof Hcl as [Hl Hq Hw Hc Hm1 Hm2 Hm].
  destruct o as [m | h | h off | h | h v | h v | h v | m]; cbn [run_op args_ok cmd_not_refused next_mtu] in *.
  - (* set_mtu *)
    destruct (Nat.le_gt_cases 23 m) as [H23|H23].
    + destruct (set_mtu_spec c s mtu m Hcl H23 Ha) as (c' & s' & He & Hcl' & Hdb).
      replace (23 <=? m) with true by (symmetry; apply Nat.leb_le; lia).
      exists (Ok (VNat m)), c', s'.
      split; [exact He|]. split; [exact I|]. split; [exact Hcl'|].
      destruct Hcl'. destruct Hs. constructor; auto; rewrite Hdb; auto.
    + destruct c as [m0 cm q l]. cbn in Hl, Hq, Hm1. subst l q m0.
      exists (Ok VNone), (mkc mtu cm [] false), s.
      unfold client_set_mtu, proclock, set_lock. cbn [c_locked c_mtu c_cmtu c_q].
      replace (23 <=? m) with false by (symmetry; apply Nat.leb_gt; lia).
      cbn [releases]. split; [reflexivity|]. split; [exact I|]. split; [exact Hcl|exact Hs].
  - (* read *)
    destruct c as [m0 cm q l]. cbn in Hl, Hq, Hm1. subst l q m0.
    exists (ask_outcome acc_read (fun m => match m with RRead v => Ok (VBytes v) | _ => Raise EOther end)
                        (snd (server_step s (QRead h)))), (mkc mtu cm [] false), s.
    assert (Hu : usable (ask_outcome acc_read (fun m => match m with RRead v => Ok (VBytes v) | _ => Raise EOther end)
                        (snd (server_step s (QRead h))))) by (apply ask_outcome_usable, good_read).
    split; [|auto]. unfold client_read. apply proclock_usable; [|exact Hu].
    rewrite ask_spec by (cbn [encodable]; now apply fits16_N). now rewrite srv_read_state.
  - (* read_blob *)
    destruct Ha as [Hh Ho].
    destruct c as [m0 cm q l]. cbn in Hl, Hq, Hm1. subst l q m0.
    exists (ask_outcome acc_blob (fun m => match m with RBlob v => Ok (VBytes v) | _ => Raise EOther end)
                        (snd (server_step s (QBlob h off)))), (mkc mtu cm [] false), s.
    assert (Hu : usable (ask_outcome acc_blob (fun m => match m with RBlob v => Ok (VBytes v) | _ => Raise EOther end)
                        (snd (server_step s (QBlob h off))))) by (apply ask_outcome_usable, good_blob).
    split; [|auto]. unfold client_read_blob. apply proclock_usable; [|exact Hu].
    rewrite ask_spec by (cbn [encodable]; rewrite fits16_N, fits16_nat by assumption; reflexivity).
    now rewrite srv_blob_state.
  - (* read_long *)
    destruct (read_long_usable c s mtu h Hcl Hs Ha) as (o & Ho & Hu).
    exists o, c, s. auto.
  - (* write *)
    destruct Ha as [Hh Hv].
    destruct c as [m0 cm q l]. cbn in Hl, Hq, Hm1. subst l q m0.
    change {| c_mtu := mtu; c_cmtu := cm; c_q := []; c_locked := false |} with (mkc mtu cm [] false).
    destruct (mtu - 3 <? length v) eqn:E.
    + destruct (write_long_nolock_usable h v mtu cm s Hs Hm Hh Hv) as (o & s' & Ho & Hu & Hs' & Hmtu).
      exists o, (mkc mtu cm [] false), s'. split; [|split; [exact Hu|split; [|exact Hs']]].
      * unfold client_write. apply proclock_usable; [|exact Hu]. cbn [mkc c_mtu]. rewrite E. exact Ho.
      * apply clean_intro; auto. congruence.
    + destruct (srv_write_state s h v Hs Hv) as [Hs' Hmtu].
      exists (ask_outcome acc_write (fun m => match m with RWrite => Ok VTrue | _ => Raise EOther end)
                          (snd (server_step s (QWrite h v)))), (mkc mtu cm [] false),
             (fst (server_step s (QWrite h v))).
      assert (Hu : usable (ask_outcome acc_write (fun m => match m with RWrite => Ok VTrue | _ => Raise EOther end)
                          (snd (server_step s (QWrite h v))))) by (apply ask_outcome_usable, good_write).
      split; [|split; [exact Hu|split; [|exact Hs']]].
      * unfold client_write. apply proclock_usable; [|exact Hu]. cbn [mkc c_mtu]. rewrite E.
        change {| c_mtu := mtu; c_cmtu := cm; c_q := []; c_locked := true |} with (mkc mtu cm [] true).
        rewrite ask_spec by (cbn [encodable]; now apply fits16_N). reflexivity.
      * apply clean_intro; auto. congruence.
  - (* write_long *)
    destruct Ha as [Hh Hv].
    destruct c as [m0 cm q l]. cbn in Hl, Hq, Hm1. subst l q m0.
    change {| c_mtu := mtu; c_cmtu := cm; c_q := []; c_locked := false |} with (mkc mtu cm [] false).
    destruct (write_long_nolock_usable h v mtu cm s Hs Hm Hh Hv) as (o & s' & Ho & Hu & Hs' & Hmtu).
    exists o, (mkc mtu cm [] false), s'. split; [|split; [exact Hu|split; [|exact Hs']]].
    + unfold client_write_long. apply proclock_usable; [exact Ho|exact Hu].
    + apply clean_intro; auto. congruence.
  - (* write_command *)
    destruct Ha as [Hh Hv].
    destruct c as [m0 cm q l]. cbn in Hl, Hq, Hm1. subst l q m0.
    change {| c_mtu := mtu; c_cmtu := cm; c_q := []; c_locked := false |} with (mkc mtu cm [] false).
    destruct (srv_write_cmd_state s h v Hs Hv) as [Hs' Hmtu].
    exists (Ok VTrue), (mkc mtu cm [] false), (fst (server_step s (QWriteCmd h v))).
    split; [|split; [exact I|split; [|exact Hs']]].
    + unfold client_write_command. apply proclock_usable; [|exact I].
      unfold xfer. cbn [encodable]. rewrite fits16_N by assumption.
      destruct (server_step s (QWriteCmd h v)) as [s1 r]. cbn [snd fst] in *. subst r. reflexivity.
    + apply clean_intro; auto. congruence.
  - (* MTU exchange initiated by the server *)
    destruct c as [m0 cm q l]. cbn in Hl, Hq, Hm1. subst l q m0.
    unfold server_set_mtu. cbn [c_cmtu c_q c_locked]. rewrite fits16_nat by assumption.
    destruct (23 <=? m) eqn:E.
    + apply Nat.leb_le in E.
      eexists _, _, _. split; [reflexivity|]. split; [exact I|]. destruct Hs as [S1 S2 S3 S4].
      split; constructor; cbn; auto.
    + eexists _, _, _. split; [reflexivity|]. split; [exact I|]. split; [exact Hcl|exact Hs].
Qed.

Fixpoint no_refused_cmd (ops : list op) (c : client) (s : server) : Prop :=
  match ops with
  | [] => True
  | o :: r => cmd_not_refused o s /\ (let '(_, c1, s1) := run_op o c s in no_refused_cmd r c1 s1)
  end.

Lemma run_ops_usable ops : forall c s mtu,
  clean c s mtu -> sinv s -> Forall args_ok ops -> no_refused_cmd ops c s ->
  exists outs c' s', run_ops ops c s = (outs, c', s') /\ Forall usable outs
                     /\ clean c' s' (mtu_after ops mtu) /\ sinv s'.
Proof.
  induction ops as [|o r IH]; intros c s mtu Hcl Hs Ha Hn; cbn [run_ops mtu_after fold_left].
  - exists [], c, s. auto.
  - inversion Ha as [|? ? Ha1 Ha2]; subst. destruct Hn as [Hn1 Hn2].
    destruct (run_op_usable o c s mtu Hcl Hs Ha1 Hn1) as (out & c1 & s1 & He & Hu & Hcl1 & Hs1).
    rewrite He in Hn2 |- *.
    destruct (IH c1 s1 _ Hcl1 Hs1 Ha2 Hn2) as (outs & c2 & s2 & He2 & Hu2 & Hcl2 & Hs2).
    rewrite He2. exists (out :: outs), c2, s2. auto.
Qed.

(** ** stale Error Responses of refused commands *)

(** the queue holds nothing but Error Responses sent for commands *)
Definition cmd_only (q : list rsp) : Prop := Forall (fun m => is_cmd_err m = true) q.

(** the state between two procedures, as the repaired client leaves it: a refused Write Command
    may have left its Error Response in the queue *)
Record ready (c : client) (s : server) (mtu : nat) : Prop := {
  rd_lock : c_locked c = false;
  rd_q : cmd_only (c_q c);
  rd_wq : wq s = [];
  rd_crash : crashed s = false;
  rd_cmtu : c_mtu c = mtu;
  rd_smtu : s_cmtu s = mtu;
  rd_mtu : 23 <= mtu
}.

Definition flush (c : client) : client := set_q c [].

Lemma clean_ready c s mtu : clean c s mtu -> ready c s mtu.
Proof. intros [H1 H2 H3 H4 H5 H6 H7]. constructor; auto. rewrite H2. constructor. Qed.

Lemma ready_flush c s mtu : ready c s mtu -> clean (flush c) s mtu.
Proof. intros [H1 H2 H3 H4 H5 H6 H7]. destruct c. constructor; cbn in *; auto. Qed.

Lemma wait_in_flush accept q l : cmd_only q -> wait_in accept (q ++ l) = wait_in accept l.
Proof.
  induction 1 as [|m q Hm _ IH]; cbn [app wait_in]; [reflexivity|]. now rewrite Hm.
Qed.

Lemma wait_in_cmd_only accept q : cmd_only q -> wait_in accept q = (None, []).
Proof. intros H. rewrite <- (app_nil_r q). now rewrite wait_in_flush. Qed.

(** sending a request and waiting for its answer: the stale command errors change nothing *)
Lemma xfer_wait_flush accept rq m cm q l s :
  cmd_only q ->
  match xfer (mkc m cm q l) s rq with
  | None => None
  | Some (c1, s1) => Some (wait accept c1, s1)
  end
  = match xfer (mkc m cm [] l) s rq with
    | None => None
    | Some (c1, s1) => Some (wait accept c1, s1)
    end.
Proof.
  intros Hq. unfold xfer. destruct (encodable rq); [|reflexivity].
  destruct (server_step s rq) as [s1 r]. f_equal. f_equal.
  destruct r as [x|]; cbn [deliver]; unfold wait, set_q, mkc; cbn [c_q c_mtu c_cmtu c_locked app].
  - now rewrite wait_in_flush.
  - now rewrite wait_in_cmd_only.
Qed.

Lemma ask_flush accept rq k m cm q l s :
  cmd_only q -> encodable rq = true ->
  ask accept rq k (mkc m cm q l) s = ask accept rq k (mkc m cm [] l) s.
Proof.
  intros Hq He. pose proof (xfer_wait_flush accept rq m cm q l s Hq) as H.
  unfold ask. unfold xfer in *. rewrite He in *.
  destruct (server_step s rq) as [s1 r].
  injection H as H. rewrite H. reflexivity.
Qed.

Lemma read_long_loop_flush f h mtu m cm q l s :
  cmd_only q -> (h < 65536)%N ->
  read_long_loop (S f) h mtu [] 0 (mkc m cm q l) s = read_long_loop (S f) h mtu [] 0 (mkc m cm [] l) s.
Proof.
  intros Hq Hh. pose proof (xfer_wait_flush acc_read_or_blob (QRead h) m cm q l s Hq) as H.
  cbn [read_long_loop]. unfold xfer in *. cbn [encodable] in *. rewrite fits16_N in * by assumption.
  destruct (server_step s (QRead h)) as [s1 r].
  injection H as H. rewrite H. reflexivity.
Qed.

Lemma prep_loop_flush n h v cs m cm q l s :
  cmd_only q -> (h < 65536)%N ->
  prep_loop (S n) h v cs 0 (mkc m cm q l) s = prep_loop (S n) h v cs 0 (mkc m cm [] l) s.
Proof.
  intros Hq Hh. set (rq := QPrep h 0 (slice 0 (0 + cs) v)).
  pose proof (xfer_wait_flush acc_prep rq m cm q l s Hq) as H.
  cbn [prep_loop]. fold rq. unfold xfer in *. subst rq. cbn [encodable] in *.
  rewrite fits16_N in * by assumption. cbn [N.of_nat fits16 N.ltb N.compare andb] in *.
  destruct (server_step s (QPrep h 0 (slice 0 (0 + cs) v))) as [s1 r].
  injection H as H. rewrite H. reflexivity.
Qed.

Lemma write_long_nolock_flush h v m cm q s :
  cmd_only q -> (h < 65536)%N ->
  write_long_nolock h v (mkc m cm q true) s = write_long_nolock h v (mkc m cm [] true) s.
Proof.
  intros Hq Hh. unfold write_long_nolock. cbn [mkc c_mtu].
  change {| c_mtu := m; c_cmtu := cm; c_q := q; c_locked := true |} with (mkc m cm q true).
  change {| c_mtu := m; c_cmtu := cm; c_q := []; c_locked := true |} with (mkc m cm [] true).
  destruct (nb_chunks (length v) (m - 5)) as [|n].
  - cbn [prep_loop]. apply ask_flush; [assumption|reflexivity].
  - now rewrite prep_loop_flush.
Qed.

(** the operations that wait for an answer *)
Definition waits (o : op) : bool :=
  match o with
  | OSetMtu m => 23 <=? m
  | OWriteCmd _ _ => false
  | OSrvMtu _ => false
  | _ => true
  end.

(** a procedure that waits for an answer behaves exactly as if the queue were empty *)
Lemma run_op_flush o c s mtu :
  ready c s mtu -> args_ok o -> waits o = true ->
  run_op o c s = run_op o (flush c) s.
Proof.
  intros [Hl Hq _ _ Hm1 _ _] Ha Hw.
  destruct c as [m cm q l]. cbn in Hl, Hq, Hm1. subst l m. unfold flush, set_q. cbn [c_mtu c_cmtu c_q c_locked].
  change {| c_mtu := mtu; c_cmtu := cm; c_q := q; c_locked := false |} with (mkc mtu cm q false).
  change {| c_mtu := mtu; c_cmtu := cm; c_q := []; c_locked := false |} with (mkc mtu cm [] false).
  assert (Hproc : forall body : client -> server -> result,
            body (mkc mtu cm q true) s = body (mkc mtu cm [] true) s ->
            proclock body (mkc mtu cm q false) s = proclock body (mkc mtu cm [] false) s).
  { intros body Hb. unfold proclock, set_lock, mkc. cbn [c_locked c_mtu c_cmtu c_q].
    unfold mkc in Hb. rewrite Hb. reflexivity. }
  destruct o as [m | h | h off | h | h v | h v | h v | m]; cbn [run_op args_ok waits] in *.
  - (* set_mtu *)
    unfold client_set_mtu. apply Hproc. rewrite Hw.
    pose proof (xfer_wait_flush acc_mtu (QMtu m) mtu cm q true s Hq) as H.
    unfold xfer in *. cbn [encodable] in *. rewrite fits16_nat in * by assumption.
    destruct (server_step s (QMtu m)) as [s1 r]. injection H as H. rewrite H. reflexivity.
  - unfold client_read. apply Hproc. apply ask_flush; [assumption|]. cbn [encodable]. now apply fits16_N.
  - destruct Ha as [Hh Ho]. unfold client_read_blob. apply Hproc. apply ask_flush; [assumption|].
    cbn [encodable]. now rewrite fits16_N, fits16_nat.
  - unfold client_read_long. apply Hproc. cbn [mkc c_mtu]. unfold read_long_fuel.
    rewrite Nat.add_comm. cbn [Nat.add].
    change {| c_mtu := mtu; c_cmtu := cm; c_q := q; c_locked := true |} with (mkc mtu cm q true).
    change {| c_mtu := mtu; c_cmtu := cm; c_q := []; c_locked := true |} with (mkc mtu cm [] true).
    now apply read_long_loop_flush.
  - destruct Ha as [Hh Hv]. unfold client_write. apply Hproc. cbn [mkc c_mtu].
    change {| c_mtu := mtu; c_cmtu := cm; c_q := q; c_locked := true |} with (mkc mtu cm q true).
    change {| c_mtu := mtu; c_cmtu := cm; c_q := []; c_locked := true |} with (mkc mtu cm [] true).
    destruct (mtu - 3 <? length v).
    + now apply write_long_nolock_flush.
    + apply ask_flush; [assumption|]. cbn [encodable]. now apply fits16_N.
  - destruct Ha as [Hh Hv]. unfold client_write_long. apply Hproc. now apply write_long_nolock_flush.
  - discriminate.
  - discriminate.
Qed.

Lemma stale_command_errors_ignored o c s mtu :
  ready c s mtu -> args_ok o -> waits o = true ->
  run_op o c s = run_op o (flush c) s /\ clean (flush c) s mtu.
Proof. intros Hr Ha Hw. split; [exact (run_op_flush o c s mtu Hr Ha Hw) | exact (ready_flush c s mtu Hr)]. Qed.

(** the server answers a Write Command with nothing, or with an Error Response naming the
    command *)
Lemma write_cmd_answer s h v :
  sinv s ->
  snd (server_step s (QWriteCmd h v)) = None
  \/ exists hh code, snd (server_step s (QWriteCmd h v)) = Some (RErr OP_WRITE_CMD hh code).
Proof.
  intros [_ _ [W1 _] _]. unfold server_step, srv_write_cmd.
  destruct (N.eqb h 0); [right; cbn [snd]; eauto|].
  destruct (lookup (sdb s) h) as [a|] eqn:E; [|right; cbn [snd]; eauto].
  destruct a; cbn [snd]; eauto.
  - destruct (W1 _ _ _ E) as [p Hp]. rewrite Hp. destruct (writeable p); cbn [snd]; eauto.
  - destruct ((length v <=? 2) && negb (bytes_eqb v v0)); cbn [snd]; eauto.
Qed.

(** any procedure from a ready state: usable outcome, ready state again *)
Lemma run_op_ready o c s mtu :
  ready c s mtu -> sinv s -> args_ok o ->
  exists out c' s', run_op o c s = (out, c', s') /\ usable out /\ ready c' s' (next_mtu o mtu) /\ sinv s'.
Proof.
  intros Hr Hs Ha.
  destruct (waits o) eqn:Hw.
  - (* waiting procedure: as from the flushed state *)
    rewrite (run_op_flush o c s mtu Hr Ha Hw).
    assert (Hn : cmd_not_refused o s) by (destruct o; try exact I; discriminate).
    destruct (run_op_usable o (flush c) s mtu (ready_flush _ _ _ Hr) Hs Ha Hn)
      as (out & c' & s' & He & Hu & Hcl & Hs').
    exists out, c', s'. split; [exact He|]. split; [exact Hu|]. split; [now apply clean_ready|exact Hs'].
  - pose proof Hr as [Hl Hq Hwq Hc Hm1 Hm2 Hm].
    destruct c as [m cm q l]. cbn in Hl, Hq, Hm1. subst l m.
    destruct o as [m | h | h off | h | h v | h v | h v | m]; cbn [waits] in Hw; try discriminate;
      cbn [run_op args_ok next_mtu] in *.
    + (* set_mtu below 23: nothing is sent *)
      rewrite Hw.
      exists (Ok VNone), (mkc mtu cm q false), s.
      unfold client_set_mtu, proclock, set_lock. cbn [c_locked c_mtu c_cmtu c_q]. rewrite Hw.
      cbn [releases]. split; [reflexivity|]. split; [exact I|]. split; [exact Hr|exact Hs].
    + (* write_command *)
      destruct Ha as [Hh Hv].
      destruct (srv_write_cmd_state s h v Hs Hv) as [Hs' Hmtu].
      exists (Ok VTrue), (deliver (mkc mtu cm q false) (snd (server_step s (QWriteCmd h v)))),
             (fst (server_step s (QWriteCmd h v))).
      split; [|split; [exact I|split; [|exact Hs']]].
      * unfold client_write_command, proclock, set_lock, xfer. cbn [c_locked c_mtu c_cmtu c_q encodable].
        rewrite fits16_N by assumption.
        destruct (server_step s (QWriteCmd h v)) as [s1 r]. cbn [fst snd releases].
        destruct r; reflexivity.
      * destruct Hs' as [Hc' Hq' _ _].
        destruct (write_cmd_answer s h v Hs) as [E | (hh & code & E)]; rewrite E; cbn [deliver].
        -- constructor; cbn [mkc c_locked c_q c_mtu]; auto. rewrite Hmtu. exact Hm2.
        -- unfold set_q, mkc. constructor; cbn [c_locked c_q c_mtu]; auto; [|rewrite Hmtu; exact Hm2].
           apply Forall_app. split; [exact Hq|]. constructor; [reflexivity|constructor].
    + (* MTU exchange initiated by the server: the client's queue is not involved *)
      unfold server_set_mtu. cbn [c_cmtu c_q c_locked]. rewrite fits16_nat by assumption.
      destruct (23 <=? m) eqn:E.
      * apply Nat.leb_le in E.
        eexists _, _, _. split; [reflexivity|]. split; [exact I|]. destruct Hs as [S1 S2 S3 S4].
        split; constructor; cbn; auto.
      * eexists _, _, _. split; [reflexivity|]. split; [exact I|]. split; [exact Hr|exact Hs].
Qed.

(** FULL: any sequence of procedures with any arguments leaves the client usable *)
Lemma run_ops_ready ops : forall c s mtu,
  ready c s mtu -> sinv s -> Forall args_ok ops ->
  exists outs c' s', run_ops ops c s = (outs, c', s') /\ Forall usable outs
                     /\ ready c' s' (mtu_after ops mtu) /\ sinv s'.
Proof.
  induction ops as [|o r IH]; intros c s mtu Hr Hs Ha; cbn [run_ops mtu_after fold_left].
  - exists [], c, s. auto.
  - inversion Ha as [|? ? Ha1 Ha2]; subst.
    destruct (run_op_ready o c s mtu Hr Hs Ha1) as (out & c1 & s1 & He & Hu & Hr1 & Hs1).
    rewrite He.
    destruct (IH c1 s1 _ Hr1 Hs1 Ha2) as (outs & c2 & s2 & He2 & Hu2 & Hr2 & Hs2).
    rewrite He2. exists (out :: outs), c2, s2. auto.
Qed.

(** ** decidable well-formedness *)

Lemma lookup_In d h a : lookup d h = Some a -> In (h, a) d.
Proof.
  induction d as [|[k x] d IH]; cbn [lookup]; [discriminate|].
  destruct (N.eqb k h) eqn:E; intros H.
  - apply N.eqb_eq in E. injection H as ->. subst. now left.
  - right. auto.
Qed.

Lemma wf_dbb_sound d : wf_dbb d = true -> wf_db d.
Proof.
  unfold wf_dbb. rewrite forallb_forall. intros H. split.
  - intros h u v Hlk. specialize (H _ (lookup_In _ _ _ Hlk)). cbn [fst snd] in H.
    destruct (owner_props d h); [eauto|discriminate].
  - intros h p vh u Hlk. specialize (H _ (lookup_In _ _ _ Hlk)). cbn [fst snd] in H.
    destruct (lookup d vh) as [[]|]; try discriminate. eauto.
Qed.

Lemma sinv_init d : wf_dbb d = true -> (N.of_nat (max_len d) < 65536)%N -> sinv (server_init d).
Proof. intros H1 H2. constructor; cbn; auto. now apply wf_dbb_sound. Qed.

Lemma clean_init d : clean client_init (server_init d) 23.
Proof. constructor; cbn; auto. Qed.

(** * Derived statements used by Property.v *)

(** every long write to a characteristic value, in one equation *)
Lemma write_long_result c s mtu h u old p v :
  clean c s mtu -> value_at (sdb s) h u old p -> (N.of_nat (length v) < 65536)%N ->
  client_write_long h v c s
  = if writeable p || (length v =? 0)%nat
    then (Ok VTrue, c, set_wq (set_db s (update (sdb s) h (AValue u (v ++ skipn (length v) old)))) [])
    else (Raise (EAtt E_WRITE_NOT_PERMITTED), c, set_wq s []).
Proof.
  intros Hcl Hva Hv. pose proof Hva as (_ & _ & Hlk & _).
  destruct (writeable p) eqn:Hw; cbn [orb].
  - apply client_write_long_spec with (mtu := mtu) (p := p); assumption.
  - destruct v as [|b v]; cbn [length Nat.eqb].
    + rewrite (client_write_long_empty c s mtu h Hcl). cbn [app skipn length]. now rewrite update_same.
    + apply (write_long_denied c s mtu h u old p (b :: v) Hcl Hva Hw); [discriminate|assumption].
Qed.

Lemma write_long_path_result c s mtu h u old p v :
  clean c s mtu -> value_at (sdb s) h u old p -> (N.of_nat (length v) < 65536)%N ->
  mtu - 3 < length v ->
  client_write h v c s
  = if writeable p
    then (Ok VTrue, c, set_wq (set_db s (update (sdb s) h (AValue u (v ++ skipn (length v) old)))) [])
    else (Raise (EAtt E_WRITE_NOT_PERMITTED), c, set_wq s []).
Proof.
  intros Hcl Hva Hv Hl. destruct (writeable p) eqn:Hw.
  - apply write_redirects with (mtu := mtu) (p := p); assumption.
  - apply (write_long_denied c s mtu h u old p v Hcl Hva Hw); [|assumption|assumption].
    destruct v; [cbn [length] in Hl; lia|discriminate].
Qed.

Lemma write_ok_stores_partial c s mtu h u old p v c' s' :
  clean c s mtu -> value_at (sdb s) h u old p -> (N.of_nat (length v) < 65536)%N ->
  (length v <= mtu - 3 \/ length old <= length v) ->
  client_write h v c s = (Ok VTrue, c', s') ->
  lookup (sdb s') h = Some (AValue u v).
Proof.
  intros Hcl Hva Hv Hcase He. pose proof Hva as (_ & _ & Hlk & _).
  destruct (Nat.le_gt_cases (length v) (mtu - 3)) as [Hs|Hl].
  - rewrite (write_plain c s mtu h u old p v Hcl Hva Hs) in He.
    destruct (writeable p); [|discriminate]. injection He as <- <-.
    cbn [set_db sdb]. eapply lookup_update_same; eauto.
  - rewrite (write_long_path_result c s mtu h u old p v Hcl Hva Hv Hl) in He.
    destruct (writeable p); [|discriminate]. injection He as <- <-.
    cbn [set_db set_wq sdb]. rewrite tail_nil by lia. eapply lookup_update_same; eauto.
Qed.

Lemma write_stored_value c s mtu h u old p v c' s' :
  clean c s mtu -> value_at (sdb s) h u old p -> (N.of_nat (length v) < 65536)%N ->
  client_write h v c s = (Ok VTrue, c', s') ->
  c' = c /\ writeable p = true
  /\ lookup (sdb s') h = Some (AValue u (if length v <=? mtu - 3 then v else v ++ skipn (length v) old))
  /\ (forall h', h' <> h -> lookup (sdb s') h' = lookup (sdb s) h')
  /\ wq s' = [] /\ crashed s' = false.
Proof.
  intros Hcl Hva Hv He. pose proof Hva as (_ & _ & Hlk & _). pose proof Hcl as [_ _ Hwq Hcr _ _ _].
  destruct (Nat.le_gt_cases (length v) (mtu - 3)) as [Hs|Hl].
  - rewrite (write_plain c s mtu h u old p v Hcl Hva Hs) in He.
    destruct (writeable p); [|discriminate]. injection He as <- <-.
    replace (length v <=? mtu - 3) with true by (symmetry; apply Nat.leb_le; lia).
    cbn [set_db sdb wq crashed]. repeat split; auto.
    + eapply lookup_update_same; eauto.
    + intros. now apply lookup_update_other.
  - rewrite (write_long_path_result c s mtu h u old p v Hcl Hva Hv Hl) in He.
    destruct (writeable p); [|discriminate]. injection He as <- <-.
    replace (length v <=? mtu - 3) with false by (symmetry; apply Nat.leb_gt; lia).
    cbn [set_db set_wq sdb wq crashed]. repeat split; auto.
    + eapply lookup_update_same; eauto.
    + intros. now apply lookup_update_other.
Qed.

Lemma write_succeeds c s mtu h u old p v :
  clean c s mtu -> value_at (sdb s) h u old p -> (N.of_nat (length v) < 65536)%N ->
  writeable p = true -> exists s', client_write h v c s = (Ok VTrue, c, s').
Proof.
  intros Hcl Hva Hv Hw.
  destruct (Nat.le_gt_cases (length v) (mtu - 3)) as [Hs|Hl].
  - rewrite (write_plain c s mtu h u old p v Hcl Hva Hs), Hw. eauto.
  - rewrite (write_long_path_result c s mtu h u old p v Hcl Hva Hv Hl), Hw. eauto.
Qed.

Lemma write_long_stored_value c s mtu h u old p v :
  clean c s mtu -> value_at (sdb s) h u old p -> writeable p = true ->
  (N.of_nat (length v) < 65536)%N ->
  exists s', client_write_long h v c s = (Ok VTrue, c, s')
    /\ lookup (sdb s') h = Some (AValue u (v ++ skipn (length v) old))
    /\ (forall h', h' <> h -> lookup (sdb s') h' = lookup (sdb s) h')
    /\ wq s' = [] /\ crashed s' = false.
Proof.
  intros Hcl Hva Hw Hv. pose proof Hva as (_ & _ & Hlk & _). pose proof Hcl as [_ _ Hwq Hcr _ _ _].
  eexists. split; [rewrite (write_long_result c s mtu h u old p v Hcl Hva Hv), Hw; reflexivity|].
  cbn [set_db set_wq sdb wq crashed]. repeat split; auto.
  - eapply lookup_update_same; eauto.
  - intros. now apply lookup_update_other.
Qed.

Lemma write_long_ok_stores_partial c s mtu h u old p v c' s' :
  clean c s mtu -> value_at (sdb s) h u old p -> (N.of_nat (length v) < 65536)%N ->
  length old <= length v ->
  client_write_long h v c s = (Ok VTrue, c', s') ->
  lookup (sdb s') h = Some (AValue u v).
Proof.
  intros Hcl Hva Hv Hlen He. pose proof Hva as (_ & _ & Hlk & _).
  rewrite (write_long_result c s mtu h u old p v Hcl Hva Hv) in He.
  destruct (writeable p || (length v =? 0)%nat); [|discriminate]. injection He as <- <-.
  cbn [set_db set_wq sdb]. rewrite tail_nil by lia. eapply lookup_update_same; eauto.
Qed.

(** a long write to a characteristic that is not writable is refused when executed: ATT error,
    nothing stored, no prepared write left behind *)
Lemma write_long_not_permitted c s mtu h u old p v :
  clean c s mtu -> value_at (sdb s) h u old p -> writeable p = false -> v <> [] ->
  (N.of_nat (length v) < 65536)%N ->
  client_write_long h v c s = (Raise (EAtt E_WRITE_NOT_PERMITTED), c, set_wq s []).
Proof.
  intros Hcl Hva Hw Hne Hv. apply (write_long_denied c s mtu h u old p v Hcl Hva Hw Hne Hv).
Qed.

(** a long write to anything but a characteristic value is refused by the first Prepare Write
    (unknown handle: INVALID_HANDLE; CCCD: REQUEST_NOT_SUPPORTED; service, declaration, other
    descriptor: WRITE_NOT_PERMITTED); nothing is queued, nothing stored.  Same for [write] when
    the value takes the long path. *)
Lemma write_long_non_value c s mtu h v code :
  clean c s mtu -> (h < 65536)%N -> prep_refusal (lookup (sdb s) h) = Some code -> v <> [] ->
  client_write_long h v c s = (Raise (EAtt code), c, s)
  /\ (mtu - 3 < length v -> client_write h v c s = (Raise (EAtt code), c, s)).
Proof.
  intros [Hl Hq Hw Hc Hm1 Hm2 Hm] Hh Hr Hne.
  destruct c as [m cm q l]. cbn in Hl, Hq, Hm1. subst l q m.
  pose proof (write_long_nolock_refused h v mtu cm s code Hw Hm Hh Hr) as H.
  destruct v as [|b v]; [congruence|].
  split.
  - unfold client_write_long, proclock, set_lock. cbn [c_locked c_mtu c_cmtu c_q].
    change {| c_mtu := mtu; c_cmtu := cm; c_q := []; c_locked := true |} with (mkc mtu cm [] true).
    rewrite H. reflexivity.
  - intros Hlen. unfold client_write, proclock, set_lock. cbn [c_locked c_mtu c_cmtu c_q].
    replace (mtu - 3 <? length (b :: v)) with true by (symmetry; apply Nat.ltb_lt; lia).
    change {| c_mtu := mtu; c_cmtu := cm; c_q := []; c_locked := true |} with (mkc mtu cm [] true).
    rewrite H. reflexivity.
Qed.

(** a long write that reports success, whatever the handle holds: either the handle holds a
    characteristic value, which now is the written bytes followed by what the old value had
    beyond their length, or there was no byte to write and nothing changed *)
Lemma write_long_success_any c s mtu h v c' s' :
  clean c s mtu -> (h < 65536)%N -> h <> 0%N -> wf_db (sdb s) -> (N.of_nat (length v) < 65536)%N ->
  client_write_long h v c s = (Ok VTrue, c', s') ->
  (exists u old, lookup (sdb s) h = Some (AValue u old)
                 /\ lookup (sdb s') h = Some (AValue u (v ++ skipn (length v) old))
                 /\ (forall h', h' <> h -> lookup (sdb s') h' = lookup (sdb s) h'))
  \/ (v = [] /\ sdb s' = sdb s).
Proof.
  intros Hcl Hh Hh0 [W1 W2] Hv He.
  destruct (prep_refusal (lookup (sdb s) h)) as [code|] eqn:Er.
  - right. destruct v as [|b v].
    + rewrite (client_write_long_empty c s mtu h Hcl) in He. injection He as <- <-. split; reflexivity.
    + destruct (write_long_non_value c s mtu h (b :: v) code Hcl Hh Er ltac:(discriminate)) as [H _].
      rewrite H in He. discriminate.
  - left. destruct (lookup (sdb s) h) as [[]|] eqn:Elk; cbn [prep_refusal] in Er; try discriminate.
    rename uuid into u, v0 into old. destruct (W1 _ _ _ Elk) as [p Hp].
    assert (Hva : value_at (sdb s) h u old p) by (repeat split; assumption).
    rewrite (write_long_result c s mtu h u old p v Hcl Hva Hv) in He.
    destruct (writeable p || (length v =? 0)%nat); [|discriminate]. injection He as <- <-.
    exists u, old. split; [reflexivity|]. cbn [set_db set_wq sdb]. split.
    + eapply lookup_update_same; eauto.
    + intros. now apply lookup_update_other.
Qed.

(** procedures that cannot complete raise *)
Lemma read_not_permitted c s mtu h u v p :
  clean c s mtu -> value_at (sdb s) h u v p -> readable p = false ->
  client_read h c s = (Raise (EAtt E_READ_NOT_PERMITTED), c, s)
  /\ client_read_long (read_long_fuel s) h c s = (Raise (EAtt E_READ_NOT_PERMITTED), c, s).
Proof.
  intros [Hl Hq Hw Hc Hm1 Hm2 Hm] (Hh0 & Hh & Hlk & Hp) Hr.
  destruct c as [m cm q l]. cbn in Hl, Hq, Hm1. subst l q m.
  assert (Hsrv : server_step s (QRead h) = (s, Some (RErr OP_READ h E_READ_NOT_PERMITTED))).
  { unfold server_step. unfold srv_read. apply N.eqb_neq in Hh0. now rewrite Hh0, Hlk, Hp, Hr. }
  split.
  - unfold client_read, proclock, set_lock. cbn [c_locked c_mtu c_cmtu c_q].
    change {| c_mtu := mtu; c_cmtu := cm; c_q := []; c_locked := true |} with (mkc mtu cm [] true).
    rewrite ask_spec by (cbn [encodable]; now apply fits16_N). rewrite Hsrv. reflexivity.
  - unfold client_read_long, proclock, set_lock, read_long_fuel. cbn [c_locked c_mtu c_cmtu c_q].
    rewrite Nat.add_comm. cbn [Nat.add read_long_loop]. unfold xfer. cbn [encodable].
    rewrite fits16_N by assumption. rewrite Hsrv. reflexivity.
Qed.

Lemma unknown_handle_raises c s mtu h v :
  clean c s mtu -> (h < 65536)%N -> h <> 0%N -> lookup (sdb s) h = None -> length v <= mtu - 3 ->
  client_read h c s = (Raise (EAtt E_ATTR_NOT_FOUND), c, s)
  /\ client_write h v c s = (Raise (EAtt E_ATTR_NOT_FOUND), c, s).
Proof.
  intros [Hl Hq Hw Hc Hm1 Hm2 Hm] Hh Hh0 Hlk Hlen.
  destruct c as [m cm q l]. cbn in Hl, Hq, Hm1. subst l q m. apply N.eqb_neq in Hh0.
  split.
  - unfold client_read, proclock, set_lock. cbn [c_locked c_mtu c_cmtu c_q].
    change {| c_mtu := mtu; c_cmtu := cm; c_q := []; c_locked := true |} with (mkc mtu cm [] true).
    rewrite ask_spec by (cbn [encodable]; now apply fits16_N).
    unfold server_step. unfold srv_read. rewrite Hh0, Hlk. reflexivity.
  - unfold client_write, proclock, set_lock. cbn [c_locked c_mtu c_cmtu c_q].
    replace (mtu - 3 <? length v) with false by (symmetry; apply Nat.ltb_ge; lia).
    change {| c_mtu := mtu; c_cmtu := cm; c_q := []; c_locked := true |} with (mkc mtu cm [] true).
    rewrite ask_spec by (cbn [encodable]; now apply fits16_N).
    unfold server_step. unfold srv_write. rewrite Hh0, Hlk. reflexivity.
Qed.

(** a plain write to a descriptor is refused: ATT error, nothing stored *)
Lemma write_descriptor_raises c s mtu h u x v :
  clean c s mtu -> (h < 65536)%N -> h <> 0%N -> lookup (sdb s) h = Some (ADesc u x) ->
  length v <= mtu - 3 ->
  client_write h v c s = (Raise (EAtt E_WRITE_NOT_PERMITTED), c, s).
Proof.
  intros [Hl Hq Hw Hc Hm1 Hm2 Hm] Hh Hh0 Hlk Hlen.
  destruct c as [m cm q l]. cbn in Hl, Hq, Hm1. subst l q m. apply N.eqb_neq in Hh0.
  unfold client_write, proclock, set_lock. cbn [c_locked c_mtu c_cmtu c_q].
  replace (mtu - 3 <? length v) with false by (symmetry; apply Nat.ltb_ge; lia).
  change {| c_mtu := mtu; c_cmtu := cm; c_q := []; c_locked := true |} with (mkc mtu cm [] true).
  rewrite ask_spec by (cbn [encodable]; now apply fits16_N).
  unfold server_step. unfold srv_write. rewrite Hh0, Hlk. reflexivity.
Qed.

(** * Witnesses *)

Lemma value_at_wit : value_at d_wit 3 [0; 42]%N (repeat 9%N 30) 10.
Proof. repeat split; try reflexivity. discriminate. Qed.

Lemma write_ok_stores_refuted :
  exists c s mtu h u old p v c' s',
    clean c s mtu /\ value_at (sdb s) h u old p /\ (N.of_nat (length v) < 65536)%N
    /\ client_write h v c s = (Ok VTrue, c', s')
    /\ lookup (sdb s') h <> Some (AValue u v).
Proof.
  set (r := client_write 3 (repeat 7%N 21) client_init (server_init d_wit)).
  exists client_init, (server_init d_wit), 23, 3%N, [0; 42]%N, (repeat 9%N 30), 10%N, (repeat 7%N 21),
         (snd (fst r)), (snd r).
  split; [apply clean_init|]. split; [exact value_at_wit|]. split; [reflexivity|].
  split; [vm_compute; reflexivity|]. vm_compute. intros H. discriminate H.
Qed.

Lemma write_long_ok_stores_refuted :
  exists c s mtu h u old p v c' s',
    clean c s mtu /\ value_at (sdb s) h u old p /\ (N.of_nat (length v) < 65536)%N
    /\ client_write_long h v c s = (Ok VTrue, c', s')
    /\ lookup (sdb s') h <> Some (AValue u v).
Proof.
  set (r := client_write_long 3 [1; 2]%N client_init (server_init d_wit)).
  exists client_init, (server_init d_wit), 23, 3%N, [0; 42]%N, (repeat 9%N 30), 10%N, [1; 2]%N,
         (snd (fst r)), (snd r).
  split; [apply clean_init|]. split; [exact value_at_wit|]. split; [reflexivity|].
  split; [vm_compute; reflexivity|]. vm_compute. intros H. discriminate H.
Qed.

(** the former witness of the write-command desynchronisation: the refused command's error
    is dropped by the next wait, every read returns the value of ITS attribute *)
Lemma refused_command_regression :
  run_ops [OWriteCmd 99 [1%N]; ORead 3; ORead 4; OWriteCmd 0 []; OWriteLong 3 (repeat 5%N 40); OReadLong 3]
          client_init (server_init d_wit)
  = ([Ok VTrue; Ok (VBytes (repeat 9%N 22)); Ok (VBytes [1; 2]%N); Ok VTrue; Ok VTrue; Ok (VBytes (repeat 5%N 40))],
     client_init,
     server_init (update d_wit 3 (AValue [0; 42]%N (repeat 5%N 40)))).
Proof. vm_compute. reflexivity. Qed.

Lemma nonvacuous :
  let v := repeat 5%N 329 in
  clean client_init (server_init d_wit) 23 /\ sinv (server_init d_wit)
  /\ value_at d_wit 3 [0; 42]%N (repeat 9%N 30) 10
  /\ readable_target d_wit 3 (repeat 9%N 30)
  /\ (let '(o, _, s') := client_write 3 v client_init (server_init d_wit) in
      o = Ok VTrue /\ lookup (sdb s') 3 = Some (AValue [0; 42]%N v)
      /\ fst (fst (client_read_long (read_long_fuel s') 3 client_init s')) = Ok (VBytes v)).
Proof.
  cbv zeta. split; [apply clean_init|]. split; [apply sinv_init; reflexivity|].
  split; [exact value_at_wit|]. split.
  - split; [discriminate|]. left. exists [0; 42]%N, 10%N. repeat split; reflexivity.
  - vm_compute. repeat split; reflexivity.
Qed.

(** * MTU histories: exchanges in both directions, then transfers *)

Lemma read_long_ready c s mtu h S :
  ready c s mtu -> (h < 65536)%N -> readable_target (sdb s) h S -> (N.of_nat (length S) < 65536)%N ->
  client_read_long (read_long_fuel s) h c s = (Ok (VBytes S), flush c, s).
Proof.
  intros Hr Hh Ht HS.
  change (client_read_long (read_long_fuel s) h c s) with (run_op (OReadLong h) c s).
  rewrite (run_op_flush (OReadLong h) c s mtu Hr Hh eq_refl). cbn [run_op].
  apply read_long_returns_stored with (mtu := mtu); auto. now apply ready_flush.
Qed.

Lemma write_long_ready c s mtu h u old p v :
  ready c s mtu -> value_at (sdb s) h u old p -> (N.of_nat (length v) < 65536)%N ->
  client_write_long h v c s
  = if writeable p || (length v =? 0)%nat
    then (Ok VTrue, flush c, set_wq (set_db s (update (sdb s) h (AValue u (v ++ skipn (length v) old)))) [])
    else (Raise (EAtt E_WRITE_NOT_PERMITTED), flush c, set_wq s []).
Proof.
  intros Hr Hva Hv. pose proof Hva as (_ & Hh & _ & _).
  change (client_write_long h v c s) with (run_op (OWriteLong h v) c s).
  rewrite (run_op_flush (OWriteLong h v) c s mtu Hr (conj Hh Hv) eq_refl). cbn [run_op].
  apply write_long_result with (mtu := mtu); auto. now apply ready_flush.
Qed.

(** after ANY history -- MTU exchanges initiated by the client or by the server, in any order
    and with any values, mixed with any procedures -- both ends use the same MTU (the value of
    the last valid exchange), a long read returns exactly the stored value and a long write
    stores exactly what [write_long_result] says *)
Lemma mtu_history_exact ops c s mtu :
  ready c s mtu -> sinv s -> Forall args_ok ops ->
  exists outs c' s',
    run_ops ops c s = (outs, c', s') /\ Forall usable outs
    /\ c_mtu c' = mtu_after ops mtu /\ s_cmtu s' = mtu_after ops mtu /\ 23 <= mtu_after ops mtu
    /\ (forall h S, (h < 65536)%N -> readable_target (sdb s') h S -> (N.of_nat (length S) < 65536)%N ->
          client_read_long (read_long_fuel s') h c' s' = (Ok (VBytes S), flush c', s'))
    /\ (forall h u old p v, value_at (sdb s') h u old p -> writeable p = true ->
          (N.of_nat (length v) < 65536)%N ->
          client_write_long h v c' s'
          = (Ok VTrue, flush c', set_wq (set_db s' (update (sdb s') h (AValue u (v ++ skipn (length v) old)))) [])).
Proof.
  intros Hr Hs Ha.
  destruct (run_ops_ready ops c s mtu Hr Hs Ha) as (outs & c' & s' & He & Hu & Hr' & Hs').
  exists outs, c', s'. split; [exact He|]. split; [exact Hu|].
  pose proof Hr' as [_ _ _ _ M1 M2 M3]. repeat split; auto.
  - intros h S Hh Ht HS. now apply read_long_ready with (mtu := mtu_after ops mtu).
  - intros h u old p v Hva Hw Hv.
    rewrite (write_long_ready c' s' _ h u old p v Hr' Hva Hv), Hw. reflexivity.
Qed.

(** a server-initiated exchange above, equal to and below the client's value, mixed with
    client-initiated ones: 300 bytes written long and read long at each stage *)
Lemma mtu_history_example :
  let v := repeat 6%N 300 in
  let '(outs, c', s') :=
    run_ops [OSrvMtu 100; OWrite 3 v; OReadLong 3; OSetMtu 50; OReadLong 3; OSrvMtu 50; OSrvMtu 30;
             OWriteLong 3 v; OReadLong 3; OSetMtu 247; OSrvMtu 22; OReadLong 3]
            client_init (server_init d_wit) in
  nth 2 outs Blocked = Ok (VBytes v) /\ nth 4 outs Blocked = Ok (VBytes v)
  /\ nth 8 outs Blocked = Ok (VBytes v) /\ nth 11 outs Blocked = Ok (VBytes v)
  /\ c_mtu c' = 247 /\ s_cmtu s' = 247.
Proof. vm_compute. repeat split; reflexivity. Qed.
