(** C09 — executable model of the GATT server handlers and the GATT client procedures of
    whad/ble/stack/gatt/__init__.py (GattServer: read, read blob, write, write command,
    prepare write, execute write, exchange MTU, read by group type, read by type, find
    information; GattClient: set_mtu, read, read_blob, read_long, write, write_long(_nolock),
    write_command), of the ATT glue of whad/ble/stack/att/__init__.py and of [proclock] /
    [wait_for_message].  Transcribed branch by branch from the (repaired) code.
    Scope: profiles made of primary services, characteristics without security
    requirements, no read/write hooks.  No proofs in this file. *)
From Coq Require Import List NArith Arith Bool.
From Whad Require Import Lib.Bytes.
Import ListNotations.

(** * Attribute database *)

Inductive attr :=
| APrimary (uuid : bytes) (endh : N)          (* PrimaryService: payload = uuid, end_handle *)
| ADecl (props : N) (vh : N) (uuid : bytes)   (* Characteristic (declaration, type 0x2803) *)
| AValue (uuid : bytes) (v : bytes)           (* CharacteristicValue *)
| ACccd (v : bytes)                           (* ClientCharacteristicConfig *)
| ADesc (uuid : bytes) (v : bytes).           (* any other Descriptor *)

Definition db := list (N * attr).

Fixpoint lookup (d : db) (h : N) : option attr :=
  match d with
  | [] => None
  | (k, a) :: r => if N.eqb k h then Some a else lookup r h
  end.

(** in-place update of the attribute object registered under [h] *)
Fixpoint update (d : db) (h : N) (a : attr) : db :=
  match d with
  | [] => []
  | (k, x) :: r => if N.eqb k h then (k, a) :: r else (k, x) :: update r h a
  end.

(** ATT opcodes / error codes (whad/ble/stack/att/constants.py) *)
Definition OP_FIND_INFO : N := 4.
Definition OP_READ_BY_TYPE : N := 8.
Definition OP_READ : N := 10.
Definition OP_READ_BLOB : N := 12.
Definition OP_READ_BY_GROUP : N := 16.
Definition OP_WRITE : N := 18.
Definition OP_WRITE_CMD : N := 82.
Definition OP_SIGNED_WRITE_CMD : N := 210.
Definition OP_PREPARE : N := 22.
Definition OP_EXECUTE : N := 24.

Definition E_INVALID_HANDLE : N := 1.
Definition E_READ_NOT_PERMITTED : N := 2.
Definition E_WRITE_NOT_PERMITTED : N := 3.
Definition E_INVALID_PDU : N := 4.
Definition E_REQUEST_NOT_SUPP : N := 6.
Definition E_INVALID_OFFSET : N := 7.
Definition E_ATTR_NOT_FOUND : N := 10.
Definition E_INVALID_ATTR_VALUE_LENGTH : N := 13.

(** * Messages (abstract PDUs; the scapy build/dissect round trip is taken as the identity
      except for the body-less responses handled in ATTLayer.on_packet, see [deliver]) *)

Inductive req :=
| QRead (h : N)
| QBlob (h : N) (off : nat)
| QWrite (h : N) (v : bytes)
| QWriteCmd (h : N) (v : bytes)
| QPrep (h : N) (off : nat) (v : bytes)
| QExec (flags : N)
| QMtu (m : nat)
| QGroup (s e : N)            (* Read By Group Type, type 0x2800 *)
| QType (s e : N)             (* Read By Type, type 0x2803 *)
| QInfo (s e : N).            (* Find Information *)

Inductive rsp :=
| RErr (rq h code : N)
| RRead (v : bytes)
| RBlob (v : bytes)
| RWrite
| RPrep (h : N) (off : nat) (v : bytes)
| RExec
| RMtu (m : nat)
| RGroup (items : list (N * N * bytes))        (* handle, end handle, service uuid *)
| RType (items : list (N * N * N * bytes))     (* handle, properties, value handle, uuid *)
| RInfo (items : list (N * bytes)).            (* handle, type uuid *)

(** * Server *)

Record server := {
  sdb : db;
  wq : list (N * list (nat * bytes));   (* GattServer.__write_queues, insertion ordered *)
  s_cmtu : nat;                         (* server's att.client_att_mtu *)
  s_smtu : nat;                         (* server's att.server_att_mtu *)
  crashed : bool                        (* a handler raised (no PDU sent for that request; txlock releases the lock) *)
}.

Definition set_db (s : server) (d : db) : server :=
  {| sdb := d; wq := wq s; s_cmtu := s_cmtu s; s_smtu := s_smtu s; crashed := crashed s |}.
Definition set_wq (s : server) (q : list (N * list (nat * bytes))) : server :=
  {| sdb := sdb s; wq := q; s_cmtu := s_cmtu s; s_smtu := s_smtu s; crashed := crashed s |}.
Definition crash (s : server) : server :=
  {| sdb := sdb s; wq := wq s; s_cmtu := s_cmtu s; s_smtu := s_smtu s; crashed := true |}.

Definition readable (props : N) : bool := negb (N.eqb (N.land props 2) 0).
Definition writeable (props : N) : bool :=
  negb (N.eqb (N.land props 8) 0) || negb (N.eqb (N.land props 4) 0).

(** properties of the characteristic owning the value at [h]:
    [find_object_by_handle(request.handle - 1)] must be a Characteristic *)
Definition owner_props (d : db) (h : N) : option N :=
  match lookup d (h - 1) with
  | Some (ADecl p _ _) => Some p
  | _ => None
  end.

(** Characteristic.payload() *)
Definition decl_payload (p vh : N) (u : bytes) : bytes := p :: le16 vh ++ u.

(** [on_read_request] *)
Definition srv_read (s : server) (h : N) : server * option rsp :=
  if N.eqb h 0 then (s, Some (RErr OP_READ h E_INVALID_HANDLE)) else
  let mtu := s_cmtu s in
  match lookup (sdb s) h with
  | None => (s, Some (RErr OP_READ h E_ATTR_NOT_FOUND))
  | Some (AValue _ v) =>
      match owner_props (sdb s) h with
      | None => (crash s, None)
      | Some p => if readable p then (s, Some (RRead (firstn (mtu - 1) v)))
                  else (s, Some (RErr OP_READ h E_READ_NOT_PERMITTED))
      end
  | Some (ADecl p vh u) => (s, Some (RRead (decl_payload p vh u)))
  | Some (APrimary u _) => (s, Some (RRead u))
  | Some (ACccd v) => (s, Some (RRead (firstn (mtu - 1) v)))
  | Some (ADesc _ v) => (s, Some (RRead (firstn (mtu - 1) v)))
  end.

(** what [on_read_blob_request] measures and slices: the value of a characteristic value or
    descriptor, the payload of a service or characteristic declaration *)
Definition blob_value (a : attr) : bytes :=
  match a with
  | APrimary u _ => u
  | ADecl p vh u => decl_payload p vh u
  | AValue _ v => v
  | ACccd v => v
  | ADesc _ v => v
  end.

(** [on_read_blob_request]: read access of a characteristic value is checked before its
    length is looked at; every kind of attribute is answered *)
Definition srv_blob (s : server) (h : N) (off : nat) : server * option rsp :=
  if N.eqb h 0 then (s, Some (RErr OP_READ_BLOB h E_INVALID_HANDLE)) else
  let mtu := s_cmtu s in
  match lookup (sdb s) h with
  | None => (s, Some (RErr OP_READ_BLOB h E_ATTR_NOT_FOUND))
  | Some a =>
      let answer :=
        let av := blob_value a in
        if off <? length av then (s, Some (RBlob (slice off (off + mtu - 1) av)))
        else if off =? length av then (s, Some (RBlob []))
        else (s, Some (RErr OP_READ_BLOB h E_INVALID_OFFSET)) in
      match a with
      | AValue _ _ =>
          match owner_props (sdb s) h with
          | None => (crash s, None)
          | Some p => if readable p then answer
                      else (s, Some (RErr OP_READ_BLOB h E_READ_NOT_PERMITTED))
          end
      | _ => answer
      end
  end.

(** [on_write_request] *)
Definition srv_write (s : server) (h : N) (v : bytes) : server * option rsp :=
  if N.eqb h 0 then (s, Some (RErr OP_WRITE h E_INVALID_HANDLE)) else
  match lookup (sdb s) h with
  | None => (s, Some (RErr OP_WRITE h E_ATTR_NOT_FOUND))
  | Some (AValue u _) =>
      match owner_props (sdb s) h with
      | None => (crash s, None)
      | Some p => if writeable p then (set_db s (update (sdb s) h (AValue u v)), Some RWrite)
                  else (s, Some (RErr OP_WRITE h E_WRITE_NOT_PERMITTED))
      end
  | Some (ACccd old) =>
      if length v <=? 2 then (set_db s (update (sdb s) h (ACccd (v ++ skipn (length v) old))), Some RWrite)
      else (s, Some (RErr OP_WRITE h E_INVALID_ATTR_VALUE_LENGTH))
  | Some _ => (s, Some (RErr OP_WRITE h E_WRITE_NOT_PERMITTED))
  end.

(** [on_write_command]: never answers on success, but DOES send Error Responses *)
Definition srv_write_cmd (s : server) (h : N) (v : bytes) : server * option rsp :=
  if N.eqb h 0 then (s, Some (RErr OP_WRITE_CMD h E_INVALID_HANDLE)) else
  match lookup (sdb s) h with
  | None => (s, Some (RErr OP_WRITE_CMD h E_ATTR_NOT_FOUND))
  | Some (AValue u _) =>
      match owner_props (sdb s) h with
      | None => (crash s, None)
      | Some p => if writeable p then (set_db s (update (sdb s) h (AValue u v)), None)
                  else (s, Some (RErr OP_WRITE_CMD h E_WRITE_NOT_PERMITTED))
      end
  | Some (ACccd old) =>
      if (length v <=? 2) && negb (bytes_eqb v old)
      then (set_db s (update (sdb s) h (ACccd (v ++ skipn (length v) old))), None)
      else (s, Some (RErr OP_WRITE_CMD h E_INVALID_ATTR_VALUE_LENGTH))
  | Some _ => (s, None)
  end.

(** [__write_queues[handle].append(request)] *)
Fixpoint wq_add (q : list (N * list (nat * bytes))) (h : N) (w : nat * bytes) :=
  match q with
  | [] => [(h, [w])]
  | (k, ws) :: r => if N.eqb k h then (k, ws ++ [w]) :: r else (k, ws) :: wq_add r h w
  end.

(** [on_prepare_write_request]: only characteristic values can be queued; a CCCD is refused
    with REQUEST_NOT_SUPPORTED, services, declarations and the other descriptors with
    WRITE_NOT_PERMITTED *)
Definition srv_prepare (s : server) (h : N) (off : nat) (v : bytes) : server * option rsp :=
  match lookup (sdb s) h with
  | None => (s, Some (RErr OP_PREPARE h E_INVALID_HANDLE))
  | Some (AValue _ _) => (set_wq s (wq_add (wq s) h (off, v)), Some (RPrep h off v))
  | Some (ACccd _) => (s, Some (RErr OP_PREPARE h E_REQUEST_NOT_SUPP))
  | Some _ => (s, Some (RErr OP_PREPARE h E_WRITE_NOT_PERMITTED))
  end.

(** one queued write applied to the current value; [None] = offset beyond the value *)
Definition splice (cur : bytes) (off : nat) (v : bytes) : option bytes :=
  if length cur <? off then None
  else if off + length v <=? length cur
       then Some (firstn off cur ++ v ++ skipn (off + length v) cur)
       else Some (firstn off cur ++ v).

(** the queued writes of one handle, each stored as soon as applied;
    result: value reached, and whether an offset was invalid *)
Fixpoint apply_writes (cur : bytes) (ws : list (nat * bytes)) : bytes * bool :=
  match ws with
  | [] => (cur, true)
  | (off, v) :: r =>
      match splice cur off v with
      | None => (cur, false)
      | Some cur' => apply_writes cur' r
      end
  end.

Inductive exec_result := ExDone | ExBadOffset (h : N) | ExDenied (h : N) | ExBadHandle (h : N) | ExRaised.

Fixpoint exec_queues (d : db) (q : list (N * list (nat * bytes))) : db * exec_result :=
  match q with
  | [] => (d, ExDone)
  | (h, ws) :: r =>
      match lookup d h with
      | None => (d, ExBadHandle h)    (* except IndexError: queues cleared, INVALID_HANDLE *)
      | Some (AValue u cur) =>
          (* queued writes need the same access rights as a Write Request *)
          match owner_props d h with
          | None => (d, ExRaised)
          | Some p =>
              if writeable p then
                let '(cur', ok) := apply_writes cur ws in
                let d' := update d h (AValue u cur') in
                if ok then exec_queues d' r else (d', ExBadOffset h)
              else (d, ExDenied h)
          end
      | Some _ => exec_queues d r   (* only characteristic values are supported: pass *)
      end
  end.

(** [on_execute_write_request] *)
Definition srv_execute (s : server) (flags : N) : server * option rsp :=
  if N.eqb flags 0 then (set_wq s [], Some RExec)
  else if N.eqb flags 1 then
    match exec_queues (sdb s) (wq s) with
    | (d, ExDone) => (set_wq (set_db s d) [], Some RExec)
    | (d, ExBadOffset h) => (set_wq (set_db s d) [], Some (RErr OP_EXECUTE h E_INVALID_OFFSET))
    | (d, ExDenied h) => (set_wq (set_db s d) [], Some (RErr OP_EXECUTE h E_WRITE_NOT_PERMITTED))
    | (d, ExBadHandle h) => (set_wq (set_db s d) [], Some (RErr OP_EXECUTE h E_INVALID_HANDLE))
    | (d, ExRaised) => (crash (set_db s d), None)
    end
  else (s, Some (RErr OP_EXECUTE 0 E_INVALID_PDU)).

(** [on_exch_mtu_request] with ATTLayer.set_client_mtu / set_server_mtu (ignored below 23) *)
Definition srv_mtu (s : server) (m : nat) : server * option rsp :=
  let s' := if 23 <=? m
            then {| sdb := sdb s; wq := wq s; s_cmtu := m; s_smtu := m; crashed := crashed s |}
            else s in
  (s', Some (RMtu (s_smtu s'))).

(** ** list builders *)

Fixpoint insert_h (x : N * attr) (l : db) : db :=
  match l with
  | [] => [x]
  | y :: r => if N.leb (fst x) (fst y) then x :: l else y :: insert_h x r
  end.
(** [attrs_handles.sort()] *)
Definition sort_h (l : db) : db := fold_right insert_h [] l.

Definition in_range (s e : N) (x : N * attr) : bool := N.leb s (fst x) && N.leb (fst x) e.

Definition is_primary (x : N * attr) : bool := match snd x with APrimary _ _ => true | _ => false end.
Definition is_decl (x : N * attr) : bool := match snd x with ADecl _ _ _ => true | _ => false end.

(** UUID the builders measure: service/characteristic uuid for the by-type builders,
    attribute type uuid for Find Information *)
Definition U2800 : bytes := [0%N; 40%N].
Definition U2803 : bytes := [3%N; 40%N].
Definition U2902 : bytes := [2%N; 41%N].

Definition own_uuid (a : attr) : bytes :=
  match a with
  | APrimary u _ => u | ADecl _ _ u => u | AValue u _ => u | ACccd _ => U2902 | ADesc u _ => u
  end.
Definition type_uuid (a : attr) : bytes :=
  match a with
  | APrimary _ _ => U2800 | ADecl _ _ _ => U2803 | AValue u _ => u | ACccd _ => U2902 | ADesc u _ => u
  end.

Fixpoint take_while {A} (p : A -> bool) (l : list A) : list A :=
  match l with
  | [] => []
  | x :: r => if p x then x :: take_while p r else []
  end.

(** for i in range(max_nb_items): if i < len(attrs): if size matches: append else: BREAK
    (the repaired rule of read-by-type and find-information; read-by-group-type always had it) *)
Definition same_size_prefix {A} (sz : A -> nat) (maxn : nat) (l : list A) : list A :=
  match l with
  | [] => []
  | x :: _ => firstn maxn (take_while (fun y => sz y =? sz x) l)
  end.

Definition range_invalid (st e : N) : bool := N.eqb st 0 || N.ltb e st.

(** [on_read_by_group_type_request], type 0x2800 *)
Definition srv_group (s : server) (st e : N) : server * option rsp :=
  if range_invalid st e then (s, Some (RErr OP_READ_BY_GROUP st E_INVALID_HANDLE)) else
  let attrs := sort_h (filter (fun x => is_primary x && in_range st e x) (sdb s)) in
  match attrs with
  | [] => (s, Some (RErr OP_READ_BY_GROUP st E_ATTR_NOT_FOUND))
  | x :: _ =>
      let usz := length (own_uuid (snd x)) in
      let maxn := (s_cmtu s - 2) / (usz + 4) in
      let sel := same_size_prefix (fun y => length (own_uuid (snd y))) maxn attrs in
      (s, Some (RGroup (map (fun y => match snd y with
                                      | APrimary u eh => (fst y, eh, u)
                                      | _ => (fst y, 0%N, [])
                                      end) sel)))
  end.

(** [on_read_by_type_request], type 0x2803 *)
Definition srv_type (s : server) (st e : N) : server * option rsp :=
  if range_invalid st e then (s, Some (RErr OP_READ_BY_TYPE st E_INVALID_HANDLE)) else
  let attrs := sort_h (filter (fun x => is_decl x && in_range st e x) (sdb s)) in
  match attrs with
  | [] => (s, Some (RErr OP_READ_BY_TYPE st E_ATTR_NOT_FOUND))
  | x :: _ =>
      let usz := length (own_uuid (snd x)) in
      let maxn := (s_cmtu s - 2) / (usz + 5) in
      let sel := same_size_prefix (fun y => length (own_uuid (snd y))) maxn attrs in
      match sel with
      | [] => (s, Some (RErr OP_READ_BY_TYPE st E_ATTR_NOT_FOUND))
      | _ => (s, Some (RType (map (fun y => match snd y with
                                            | ADecl p vh u => (fst y, p, vh, u)
                                            | _ => (fst y, 0%N, 0%N, [])
                                            end) sel)))
      end
  end.

(** [on_find_info_request] *)
Definition srv_info (s : server) (st e : N) : server * option rsp :=
  if range_invalid st e then (s, Some (RErr OP_FIND_INFO st E_INVALID_HANDLE)) else
  let attrs := sort_h (filter (in_range st e) (sdb s)) in
  match attrs with
  | [] => (s, Some (RErr OP_FIND_INFO st E_ATTR_NOT_FOUND))
  | x :: _ =>
      let usz := length (type_uuid (snd x)) in
      let maxn := (s_cmtu s - 2) / (usz + 2) in
      let sel := same_size_prefix (fun y => length (type_uuid (snd y))) maxn attrs in
      (s, Some (RInfo (map (fun y => (fst y, type_uuid (snd y))) sel)))
  end.

(** the handlers are decorated with [txlock], which releases the lock also when the handler
    raises: the next PDU is handled normally *)
Definition server_step (s : server) (q : req) : server * option rsp :=
  match q with
  | QRead h => srv_read s h
  | QBlob h off => srv_blob s h off
  | QWrite h v => srv_write s h v
  | QWriteCmd h v => srv_write_cmd s h v
  | QPrep h off v => srv_prepare s h off v
  | QExec f => srv_execute s f
  | QMtu m => srv_mtu s m
  | QGroup a b => srv_group s a b
  | QType a b => srv_type s a b
  | QInfo a b => srv_info s a b
  end.

Definition server_init (d : db) : server :=
  {| sdb := d; wq := []; s_cmtu := 23; s_smtu := 23; crashed := false |}.

(** * Client *)

Inductive exn := EAtt (code : N) | ETimeout | EOther.
Inductive outcome (A : Type) := Ok (a : A) | Raise (e : exn) | Blocked | OutOfFuel.
Arguments Ok {A} a. Arguments Raise {A} e. Arguments Blocked {A}. Arguments OutOfFuel {A}.

Inductive val := VBytes (b : bytes) | VTrue | VNone | VNat (n : nat).

Record client := {
  c_mtu : nat;            (* client's att.server_att_mtu: what read_long / write use *)
  c_cmtu : nat;           (* client's att.client_att_mtu *)
  c_q : list rsp;         (* GattLayer.__queue *)
  c_locked : bool         (* GattLayer.__proc_lock held *)
}.

Definition client_init : client := {| c_mtu := 23; c_cmtu := 23; c_q := []; c_locked := false |}.

Definition set_q (c : client) (q : list rsp) : client :=
  {| c_mtu := c_mtu c; c_cmtu := c_cmtu c; c_q := q; c_locked := c_locked c |}.
Definition set_lock (c : client) (b : bool) : client :=
  {| c_mtu := c_mtu c; c_cmtu := c_cmtu c; c_q := c_q c; c_locked := b |}.

(** 16-bit fields of the request PDUs: scapy raises struct.error beyond *)
Definition fits16 (n : N) : bool := N.ltb n 65536.
Definition encodable (q : req) : bool :=
  match q with
  | QRead h => fits16 h
  | QBlob h off => fits16 h && fits16 (N.of_nat off)
  | QWrite h _ => fits16 h
  | QWriteCmd h _ => fits16 h
  | QPrep h off _ => fits16 h && fits16 (N.of_nat off)
  | QExec f => N.ltb f 256
  | QMtu m => fits16 (N.of_nat m)
  | QGroup a b => fits16 a && fits16 b
  | QType a b => fits16 a && fits16 b
  | QInfo a b => fits16 a && fits16 b
  end.

(** ATTLayer.on_packet on the client: every response reaches GattLayer.__queue
    (repaired: a body-less Read Blob Response is delivered with value b'') *)
Definition deliver (c : client) (r : option rsp) : client :=
  match r with None => c | Some m => set_q c (c_q c ++ [m]) end.

(** send one request: the peer handles it synchronously *)
Definition xfer (c : client) (s : server) (q : req) : option (client * server) :=
  if encodable q then
    let '(s', r) := server_step s q in Some (deliver c r, s')
  else None.

(** an Error Response whose request opcode is a command: commands are never answered, so no
    procedure waits for it (repaired [wait_for_message] drops it) *)
Definition is_cmd_err (m : rsp) : bool :=
  match m with
  | RErr rq _ _ => N.eqb rq OP_WRITE_CMD || N.eqb rq OP_SIGNED_WRITE_CMD
  | _ => false
  end.

(** [wait_for_message]: first queued message of the expected class or an error response;
    the others, and the errors sent for a command, are dropped; empty queue =
    GattTimeoutException *)
Fixpoint wait_in (accept : rsp -> bool) (q : list rsp) : option rsp * list rsp :=
  match q with
  | [] => (None, [])
  | m :: r => if is_cmd_err m then wait_in accept r
              else if accept m then (Some m, r) else wait_in accept r
  end.
Definition wait (accept : rsp -> bool) (c : client) : option rsp * client :=
  let '(m, q) := wait_in accept (c_q c) in (m, set_q c q).

Definition is_err (m : rsp) := match m with RErr _ _ _ => true | _ => false end.
Definition acc_read m := match m with RRead _ => true | _ => is_err m end.
Definition acc_blob m := match m with RBlob _ => true | _ => is_err m end.
Definition acc_read_or_blob m := match m with RRead _ | RBlob _ => true | _ => is_err m end.
Definition acc_write m := match m with RWrite => true | _ => is_err m end.
Definition acc_prep m := match m with RPrep _ _ _ => true | _ => is_err m end.
Definition acc_exec m := match m with RExec => true | _ => is_err m end.
Definition acc_mtu m := match m with RMtu _ => true | _ => is_err m end.
Definition acc_group m := match m with RGroup _ => true | _ => is_err m end.
Definition acc_type m := match m with RType _ => true | _ => is_err m end.
Definition acc_info m := match m with RInfo _ => true | _ => is_err m end.

Definition result := (outcome val * client * server)%type.

(** [c_locked] = a lock the next procedure needs is still held.  [proclock] now releases the
    procedure lock in a [finally]; what remains is the transmit lock of
    [lock_tx(); att.request(...); unlock_tx()], left held when building the request raises
    (struct.error on a field that does not fit: [EOther]).  Values, ATT errors and timeouts
    leave nothing held. *)
Definition releases (o : outcome val) : bool :=
  match o with
  | Ok _ => true
  | Raise (EAtt _) => true
  | Raise ETimeout => true
  | _ => false
  end.
Definition proclock (body : client -> server -> result) (c : client) (s : server) : result :=
  if c_locked c then (Blocked, c, s) else
  let '(o, c1, s1) := body (set_lock c true) s in
  (o, if releases o then set_lock c1 false else c1, s1).

(** request / response exchange shared by the simple procedures *)
Definition ask (accept : rsp -> bool) (q : req) (k : rsp -> outcome val) (c : client) (s : server) : result :=
  match xfer c s q with
  | None => (Raise EOther, c, s)
  | Some (c1, s1) =>
      match wait accept c1 with
      | (None, c2) => (Raise ETimeout, c2, s1)
      | (Some (RErr _ _ code), c2) => (Raise (EAtt code), c2, s1)
      | (Some m, c2) => (k m, c2, s1)
      end
  end.

Definition client_read (h : N) : client -> server -> result :=
  proclock (ask acc_read (QRead h) (fun m => match m with RRead v => Ok (VBytes v) | _ => Raise EOther end)).

Definition client_read_blob (h : N) (off : nat) : client -> server -> result :=
  proclock (ask acc_blob (QBlob h off) (fun m => match m with RBlob v => Ok (VBytes v) | _ => Raise EOther end)).

(** [read_long]: while True loop on fuel *)
Fixpoint read_long_loop (fuel : nat) (h : N) (mtu : nat) (value : bytes) (offset : nat)
         (c : client) (s : server) : result :=
  match fuel with
  | O => (OutOfFuel, c, s)
  | S f =>
      let q := match value with [] => QRead h | _ => QBlob h offset end in
      match xfer c s q with
      | None => (Raise EOther, c, s)
      | Some (c1, s1) =>
          match wait acc_read_or_blob c1 with
          | (None, c2) => (Raise ETimeout, c2, s1)
          | (Some (RErr _ _ code), c2) => (Raise (EAtt code), c2, s1)
          | (Some (RRead v), c2) | (Some (RBlob v), c2) =>
              if length v <? mtu - 1 then (Ok (VBytes (value ++ v)), c2, s1)
              else read_long_loop f h mtu (value ++ v) (offset + length v) c2 s1
          | (Some _, c2) => (Raise EOther, c2, s1)
          end
      end
  end.

Definition client_read_long (fuel : nat) (h : N) : client -> server -> result :=
  proclock (fun c s => read_long_loop fuel h (c_mtu c) [] 0 c s).

(** number of Prepare Write requests (repaired: remainder of the DATA length) *)
Definition nb_chunks (len cs : nat) : nat :=
  let n := len / cs in if 0 <? len mod cs then S n else n.

(** the [for i in range(nb_chunks)] loop; [inl e] = raised *)
Fixpoint prep_loop (n : nat) (h : N) (v : bytes) (cs : nat) (offset : nat)
         (c : client) (s : server) : (option exn) * client * server :=
  match n with
  | O => (None, c, s)
  | S n' =>
      match xfer c s (QPrep h offset (slice offset (offset + cs) v)) with
      | None => (Some EOther, c, s)
      | Some (c1, s1) =>
          match wait acc_prep c1 with
          | (None, c2) => (Some ETimeout, c2, s1)
          | (Some (RErr _ _ code), c2) => (Some (EAtt code), c2, s1)
          | (Some (RPrep _ _ d), c2) => prep_loop n' h v cs (offset + length d) c2 s1
          | (Some _, c2) => (Some EOther, c2, s1)
          end
      end
  end.

(** [write_long_nolock] *)
Definition write_long_nolock (h : N) (v : bytes) (c : client) (s : server) : result :=
  let cs := c_mtu c - 5 in
  match prep_loop (nb_chunks (length v) cs) h v cs 0 c s with
  | (Some e, c1, s1) => (Raise e, c1, s1)
  | (None, c1, s1) =>
      ask acc_exec (QExec 1) (fun m => match m with RExec => Ok VTrue | _ => Raise EOther end) c1 s1
  end.

Definition client_write_long (h : N) (v : bytes) : client -> server -> result :=
  proclock (write_long_nolock h v).

(** [write] *)
Definition client_write (h : N) (v : bytes) : client -> server -> result :=
  proclock (fun c s =>
    if c_mtu c - 3 <? length v then write_long_nolock h v c s
    else ask acc_write (QWrite h v) (fun m => match m with RWrite => Ok VTrue | _ => Raise EOther end) c s).

(** [write_command] *)
Definition client_write_command (h : N) (v : bytes) : client -> server -> result :=
  proclock (fun c s =>
    match xfer c s (QWriteCmd h v) with
    | None => (Raise EOther, c, s)
    | Some (c1, s1) => (Ok VTrue, c1, s1)
    end).

(** [set_mtu] *)
Definition client_set_mtu (m : nat) : client -> server -> result :=
  proclock (fun c s =>
    if 23 <=? m then
      match xfer c s (QMtu m) with
      | None => (Raise EOther, c, s)
      | Some (c1, s1) =>
          match wait acc_mtu c1 with
          | (None, c2) => (Raise ETimeout, c2, s1)
          | (Some (RErr _ _ code), c2) => (Raise (EAtt code), c2, s1)
          | (Some (RMtu sm), c2) =>
              (Ok (VNat sm),
               {| c_mtu := if 23 <=? sm then sm else c_mtu c2; c_cmtu := m; c_q := c_q c2; c_locked := c_locked c2 |},
               s1)
          | (Some _, c2) => (Raise EOther, c2, s1)
          end
      end
    else (Ok VNone, c, s)).

(** * Operation sequences on one connection *)

Inductive op :=
| OSetMtu (m : nat)
| ORead (h : N)
| OReadBlob (h : N) (off : nat)
| OReadLong (h : N)
| OWrite (h : N) (v : bytes)
| OWriteLong (h : N) (v : bytes)
| OWriteCmd (h : N) (v : bytes)
| OSrvMtu (m : nat).            (* GattServer.set_mtu: MTU exchange initiated by the server *)

(** [GattServer.set_mtu(m)]: the server sends an Exchange MTU Request; the client's
    [GattClient.on_exch_mtu_request] stores the value as its server AND client MTU
    (ATTLayer.set_*_mtu ignore values below 23) and answers with its client MTU; the server then
    stores [m] as its server MTU and the answer as its client MTU.  Nothing goes through the
    client's GATT message queue.  Below 23 nothing is sent. *)
Definition server_set_mtu (m : nat) (c : client) (s : server) : result :=
  if 23 <=? m then
    if fits16 (N.of_nat m) then
      let c' := {| c_mtu := m; c_cmtu := m; c_q := c_q c; c_locked := c_locked c |} in
      let answer := c_cmtu c' in
      (Ok (VNat answer), c',
       {| sdb := sdb s; wq := wq s; s_cmtu := if 23 <=? answer then answer else s_cmtu s;
          s_smtu := m; crashed := crashed s |})
    else (Raise EOther, c, crash s)       (* struct.error while building the request *)
  else (Ok VNone, c, s).

(** fuel the harness and the theorems give [read_long]: one request per MTU-1 bytes of the
    longest stored value, plus two *)
Definition stored_len (a : attr) : nat :=
  match a with AValue _ v => length v | ACccd v => length v | ADesc _ v => length v
             | APrimary u _ => length u | ADecl _ _ u => 3 + length u end.
Definition max_len (d : db) : nat := fold_right (fun x m => Nat.max (stored_len (snd x)) m) 0 d.
Definition read_long_fuel (s : server) : nat := max_len (sdb s) + 2.

Definition run_op (o : op) (c : client) (s : server) : result :=
  match o with
  | OSetMtu m => client_set_mtu m c s
  | ORead h => client_read h c s
  | OReadBlob h off => client_read_blob h off c s
  | OReadLong h => client_read_long (read_long_fuel s) h c s
  | OWrite h v => client_write h v c s
  | OWriteLong h v => client_write_long h v c s
  | OWriteCmd h v => client_write_command h v c s
  | OSrvMtu m => server_set_mtu m c s
  end.

(** the MTU both ends use after an operation: the value of a (valid) exchange, in either
    direction, replaces the previous one *)
Definition next_mtu (o : op) (mtu : nat) : nat :=
  match o with
  | OSetMtu m | OSrvMtu m => if 23 <=? m then m else mtu
  | _ => mtu
  end.
Definition mtu_after (ops : list op) (mtu : nat) : nat := fold_left (fun m o => next_mtu o m) ops mtu.

Fixpoint run_ops (ops : list op) (c : client) (s : server) : list (outcome val) * client * server :=
  match ops with
  | [] => ([], c, s)
  | o :: r => let '(out, c1, s1) := run_op o c s in
              let '(outs, c2, s2) := run_ops r c1 s1 in (out :: outs, c2, s2)
  end.

(** decidable form of "the database is what Profile builds": every characteristic value has
    its declaration just before it, every declaration points to a characteristic value *)
Definition wf_dbb (d : db) : bool :=
  forallb (fun x => match snd x with
                    | AValue _ _ => match owner_props d (fst x) with Some _ => true | None => false end
                    | ADecl _ vh _ => match lookup d vh with Some (AValue _ _) => true | _ => false end
                    | _ => true
                    end) d.

(** small database used by the witnesses of Property.v *)
Definition d_wit : db :=
  [(1, APrimary [0; 24] 4); (2, ADecl 10 3 [0; 42]); (3, AValue [0; 42] (repeat 9 30));
   (4, ADesc [1; 41] [1; 2])]%N.

(** * Correspondence entry points (evaluated by the harness with vm_compute) *)

(** observed result of one procedure call on the implementation *)
Inductive obs :=
| BBytes (b : bytes) | BTrue | BNone | BNat (n : nat)
| BAtt (code : N) | BTimeout | BOther | BBlocked.

Definition obs_eqb (o : outcome val) (b : obs) : bool :=
  match o, b with
  | Ok (VBytes x), BBytes y => bytes_eqb x y
  | Ok VTrue, BTrue => true
  | Ok VNone, BNone => true
  | Ok (VNat n), BNat m => n =? m
  | Raise (EAtt x), BAtt y => N.eqb x y
  | Raise ETimeout, BTimeout => true
  | Raise EOther, BOther => true
  | Blocked, BBlocked => true
  | _, _ => false
  end.

(** raw value of the value-bearing attributes (what the harness reads back from the
    server's Profile after each call) *)
Definition raw_value (a : attr) : option bytes :=
  match a with AValue _ v => Some v | ACccd v => Some v | ADesc _ v => Some v | _ => None end.

Definition opt_bytes_eqb (a b : option bytes) : bool :=
  match a, b with
  | Some x, Some y => bytes_eqb x y
  | None, None => true
  | _, _ => false
  end.

(** handles whose raw value changed between two databases with the same handles *)
Fixpoint delta (d d' : db) : list (N * bytes) :=
  match d, d' with
  | (h, a) :: r, (_, a') :: r' =>
      if opt_bytes_eqb (raw_value a) (raw_value a') then delta r r'
      else match raw_value a' with Some v => (h, v) :: delta r r' | None => delta r r' end
  | _, _ => []
  end.

Fixpoint delta_eqb (a b : list (N * bytes)) : bool :=
  match a, b with
  | [], [] => true
  | (h, v) :: a', (k, w) :: b' => N.eqb h k && bytes_eqb v w && delta_eqb a' b'
  | _, _ => false
  end.

(** one step: the operation, the observed result, the observed changes of stored values,
    the MTUs both ATT layers report afterwards (client's server_mtu, server's client_mtu) *)
Definition step_obs := (op * obs * list (N * bytes) * (nat * nat))%type.

Fixpoint check_steps (c : client) (s : server) (l : list step_obs) : bool :=
  match l with
  | [] => true
  | (o, b, dl, (m1, m2)) :: r =>
      let '(out, c', s') := run_op o c s in
      obs_eqb out b && delta_eqb (delta (sdb s) (sdb s')) dl
      && (c_mtu c' =? m1) && (s_cmtu s' =? m2)
      && check_steps c' s' r
  end.

(** a case: the attribute table of the served profile, then the steps *)
Definition check_seq (x : db * list step_obs) : bool :=
  let '(d, l) := x in check_steps client_init (server_init d) l.
