(** C09 — the Gallina generated from GattClient.write_long_nolock
    (whad/ble/stack/gatt/__init__.py) by harness/translators/pyfun.py (snapshot: Gen.v;
    regenerated and re-checked against this very file on every run) is EQUAL to the chunk
    arithmetic of the hand-written model: number of Prepare Write requests, chunk size,
    initial offset, the slice sent by each request and the offset update. *)
From Coq Require Import List NArith ZArith Arith Bool Lia ZifyBool ZifyN ZifyNat.
From Whad Require Import Lib.Bytes Lib.PyOps C09.Model.
From Whad Require Import C09.Gen.
Import ListNotations.
Ltac Zify.zify_post_hook ::= Z.to_euclidean_division_equations.

Lemma gen_write_long_plan_eq value mtu :
  gen_write_long_plan value mtu = (nb_chunks (length value) (mtu - 5), mtu - 5, 0).
Proof.
  unfold gen_write_long_plan, nb_chunks. py_arith.
Qed.

(** 6 <= ATT_MTU < 65536 (a chunk holds at least one byte; the MTU is a 16-bit field) and a
    value below 2^53 bytes:
    no subtraction underflows, no division by zero, [int(a/b)] is exact. *)
Lemma gen_write_long_plan_pre_ok value mtu :
  6 <= mtu -> (N.of_nat mtu < 65536)%N -> (nlen value < two53)%N -> gen_write_long_plan_pre value mtu.
Proof.
  intros Hm Hm' Hl. unfold gen_write_long_plan_pre, py_truediv_ok, nlen, two53 in *. py_unfold.
  py_pre_split; lia.
Qed.

Lemma gen_write_long_chunk_eq value offset cs echoed :
  gen_write_long_chunk value offset cs echoed = slice offset (offset + cs) value.
Proof. unfold gen_write_long_chunk. py_arith. Qed.

Lemma gen_write_long_next_offset_eq value offset cs echoed :
  gen_write_long_next_offset value offset cs echoed = offset + length echoed.
Proof. unfold gen_write_long_next_offset. py_arith. Qed.

(** The model's Prepare Write loop and [write_long_nolock] over the generated arithmetic:
    only the message exchange (xfer / wait / error mapping) is hand-written. *)
Fixpoint prep_loop_gen (n : nat) (h : N) (v : bytes) (cs : nat) (offset : nat)
         (c : client) (s : server) : (option exn) * client * server :=
  match n with
  | O => (None, c, s)
  | S n' =>
      match xfer c s (QPrep h offset (gen_write_long_chunk v offset cs [])) with
      | None => (Some EOther, c, s)
      | Some (c1, s1) =>
          match wait acc_prep c1 with
          | (None, c2) => (Some ETimeout, c2, s1)
          | (Some (RErr _ _ code), c2) => (Some (EAtt code), c2, s1)
          | (Some (RPrep _ _ d), c2) =>
              prep_loop_gen n' h v cs (gen_write_long_next_offset v offset cs d) c2 s1
          | (Some _, c2) => (Some EOther, c2, s1)
          end
      end
  end.

Lemma prep_loop_gen_eq n : forall h v cs offset c s,
  prep_loop_gen n h v cs offset c s = prep_loop n h v cs offset c s.
Proof.
  induction n as [|n IH]; intros; [reflexivity|].
  cbn [prep_loop_gen prep_loop]. rewrite gen_write_long_chunk_eq.
  destruct (xfer c s (QPrep h offset (slice offset (offset + cs) v))) as [[c1 s1]|]; [|reflexivity].
  destruct (wait acc_prep c1) as [[m|] c2]; [|reflexivity].
  destruct m; try reflexivity; rewrite gen_write_long_next_offset_eq; apply IH.
Qed.

Definition write_long_nolock_gen (h : N) (v : bytes) (c : client) (s : server) : result :=
  let '(nb, cs, offset) := gen_write_long_plan v (c_mtu c) in
  match prep_loop_gen nb h v cs offset c s with
  | (Some e, c1, s1) => (Raise e, c1, s1)
  | (None, c1, s1) =>
      ask acc_exec (QExec 1) (fun m => match m with RExec => Ok VTrue | _ => Raise EOther end) c1 s1
  end.

Lemma write_long_nolock_gen_eq h v c s :
  write_long_nolock_gen h v c s = write_long_nolock h v c s.
Proof.
  unfold write_long_nolock_gen, write_long_nolock.
  rewrite gen_write_long_plan_eq. rewrite prep_loop_gen_eq. reflexivity.
Qed.
