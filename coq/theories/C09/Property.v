(** C09 — property theorems only (each closed by [exact]); see Proofs.v.
    Setting of every statement: [clean c s mtu] = between two procedures (procedure lock
    free, GATT message queue empty, no prepared write pending, both sides agree on an MTU
    >= 23); [value_at d h u old p] = handle [h] holds the characteristic value [old] whose
    declaration, with properties [p], is at [h-1]; value lengths are only bounded by the
    16-bit offset field (< 65536). *)
From Coq Require Import List NArith Arith Bool.
From Whad Require Import Lib.Bytes C09.Model C09.Proofs.
Import ListNotations.

(** ** plain write *)

(** A Write Request (value of at most MTU-3 bytes) to a writable characteristic stores exactly
    the written bytes; to a non-writable one it raises WRITE_NOT_PERMITTED and stores nothing. *)
Theorem C09_write_plain_stores :
  forall c s mtu h u old p v,
    clean c s mtu -> value_at (sdb s) h u old p -> length v <= mtu - 3 ->
    client_write h v c s
    = if writeable p then (Ok VTrue, c, set_db s (update (sdb s) h (AValue u v)))
      else (Raise (EAtt E_WRITE_NOT_PERMITTED), c, s).
Proof. exact write_plain. Qed.

(** FULL STATEMENT: a [write] that reports success has stored exactly the written bytes.
    Refuted by the faithful model when the value needs a long write and is shorter than the
    stored one (KNOWN-FINDING long-write-keeps-old-tail). *)
Definition C09_write_ok_stores_statement : Prop :=
  forall c s mtu h u old p v c' s',
    clean c s mtu -> value_at (sdb s) h u old p -> (N.of_nat (length v) < 65536)%N ->
    client_write h v c s = (Ok VTrue, c', s') ->
    lookup (sdb s') h = Some (AValue u v).

Theorem C09_write_ok_stores_refuted :
  exists c s mtu h u old p v c' s',
    clean c s mtu /\ value_at (sdb s) h u old p /\ (N.of_nat (length v) < 65536)%N
    /\ client_write h v c s = (Ok VTrue, c', s')
    /\ lookup (sdb s') h <> Some (AValue u v).
Proof. exact write_ok_stores_refuted. Qed.

Theorem C09_write_ok_stores_partial :
  forall c s mtu h u old p v c' s',
    clean c s mtu -> value_at (sdb s) h u old p -> (N.of_nat (length v) < 65536)%N ->
    (length v <= mtu - 3 \/ length old <= length v) ->
    client_write h v c s = (Ok VTrue, c', s') ->
    lookup (sdb s') h = Some (AValue u v).
Proof. exact write_ok_stores_partial. Qed.

(** what a successful [write] stores in every case, and that it touches nothing else *)
Theorem C09_write_stored_value :
  forall c s mtu h u old p v c' s',
    clean c s mtu -> value_at (sdb s) h u old p -> (N.of_nat (length v) < 65536)%N ->
    client_write h v c s = (Ok VTrue, c', s') ->
    c' = c /\ writeable p = true
    /\ lookup (sdb s') h = Some (AValue u (if length v <=? mtu - 3 then v else v ++ skipn (length v) old))
    /\ (forall h', h' <> h -> lookup (sdb s') h' = lookup (sdb s) h')
    /\ wq s' = [] /\ crashed s' = false.
Proof. exact write_stored_value. Qed.

(** a write of any length to a writable characteristic value does report success *)
Theorem C09_write_succeeds :
  forall c s mtu h u old p v,
    clean c s mtu -> value_at (sdb s) h u old p -> (N.of_nat (length v) < 65536)%N ->
    writeable p = true -> exists s', client_write h v c s = (Ok VTrue, c, s').
Proof. exact write_succeeds. Qed.

(** ** long write *)

Definition C09_write_long_ok_stores_statement : Prop :=
  forall c s mtu h u old p v c' s',
    clean c s mtu -> value_at (sdb s) h u old p -> (N.of_nat (length v) < 65536)%N ->
    client_write_long h v c s = (Ok VTrue, c', s') ->
    lookup (sdb s') h = Some (AValue u v).

Theorem C09_write_long_ok_stores_refuted :
  exists c s mtu h u old p v c' s',
    clean c s mtu /\ value_at (sdb s) h u old p /\ (N.of_nat (length v) < 65536)%N
    /\ client_write_long h v c s = (Ok VTrue, c', s')
    /\ lookup (sdb s') h <> Some (AValue u v).
Proof. exact write_long_ok_stores_refuted. Qed.

(** every long write to a characteristic value, every value length, every MTU >= 23, in one
    equation: executed only when the characteristic is writable (or nothing was queued) *)
Theorem C09_write_long_result :
  forall c s mtu h u old p v,
    clean c s mtu -> value_at (sdb s) h u old p -> (N.of_nat (length v) < 65536)%N ->
    client_write_long h v c s
    = if writeable p || (length v =? 0)
      then (Ok VTrue, c, set_wq (set_db s (update (sdb s) h (AValue u (v ++ skipn (length v) old)))) [])
      else (Raise (EAtt E_WRITE_NOT_PERMITTED), c, set_wq s []).
Proof. exact write_long_result. Qed.

(** for every value length and every MTU >= 23: the long write succeeds, all chunks arrive
    (none lost, none duplicated), the prepared queue is empty afterwards, nothing else changes;
    the stored value is the written one followed by what the old value had beyond its length *)
Theorem C09_write_long_stored_value :
  forall c s mtu h u old p v,
    clean c s mtu -> value_at (sdb s) h u old p -> writeable p = true ->
    (N.of_nat (length v) < 65536)%N ->
    exists s', client_write_long h v c s = (Ok VTrue, c, s')
      /\ lookup (sdb s') h = Some (AValue u (v ++ skipn (length v) old))
      /\ (forall h', h' <> h -> lookup (sdb s') h' = lookup (sdb s) h')
      /\ wq s' = [] /\ crashed s' = false.
Proof. exact write_long_stored_value. Qed.

Theorem C09_write_long_ok_stores_partial :
  forall c s mtu h u old p v c' s',
    clean c s mtu -> value_at (sdb s) h u old p -> (N.of_nat (length v) < 65536)%N ->
    length old <= length v ->
    client_write_long h v c s = (Ok VTrue, c', s') ->
    lookup (sdb s') h = Some (AValue u v).
Proof. exact write_long_ok_stores_partial. Qed.

(** ** reads *)

Theorem C09_read_long_returns_stored :
  forall c s mtu h S,
    clean c s mtu -> (h < 65536)%N -> readable_target (sdb s) h S ->
    (N.of_nat (length S) < 65536)%N ->
    client_read_long (read_long_fuel s) h c s = (Ok (VBytes S), c, s).
Proof. exact read_long_returns_stored. Qed.

(** termination: any fuel of one request per MTU-1 bytes plus one is enough *)
Theorem C09_read_long_fuel_enough :
  forall c s mtu h S fuel,
    clean c s mtu -> (h < 65536)%N -> readable_target (sdb s) h S ->
    (N.of_nat (length S) < 65536)%N ->
    length S / (mtu - 1) + 1 <= fuel ->
    client_read_long fuel h c s = (Ok (VBytes S), c, s).
Proof. exact read_long_fuel_enough. Qed.

Theorem C09_read_returns_prefix :
  forall c s mtu h S,
    clean c s mtu -> (h < 65536)%N -> readable_target (sdb s) h S ->
    client_read h c s = (Ok (VBytes (firstn (mtu - 1) S)), c, s).
Proof. exact read_returns_prefix. Qed.

Theorem C09_read_blob_returns_slice :
  forall c s mtu h S off,
    clean c s mtu -> (h < 65536)%N -> readable_target (sdb s) h S -> off <= length S ->
    (N.of_nat off < 65536)%N ->
    client_read_blob h off c s = (Ok (VBytes (slice off (off + (mtu - 1)) S)), c, s).
Proof. exact read_blob_returns_slice. Qed.

(** ** write command, MTU exchange *)

Theorem C09_write_command_stores :
  forall c s mtu h u old p v,
    clean c s mtu -> value_at (sdb s) h u old p -> writeable p = true ->
    client_write_command h v c s = (Ok VTrue, c, set_db s (update (sdb s) h (AValue u v))).
Proof. exact write_command_stores. Qed.

Theorem C09_set_mtu_agrees :
  forall c s mtu m,
    clean c s mtu -> 23 <= m -> (N.of_nat m < 65536)%N ->
    exists c' s', client_set_mtu m c s = (Ok (VNat m), c', s') /\ clean c' s' m /\ sdb s' = sdb s.
Proof. exact set_mtu_spec. Qed.

(** ** failure is an error, never a truncation or a false success; the client stays usable *)

(** [ready c s mtu] = between two procedures as the client really leaves it: like [clean], but
    the GATT message queue may hold Error Responses the server sent for refused Write Commands
    (nobody waits for those).

    ANY procedure with ANY arguments on ANY well-formed database, from any ready state: the
    outcome is a value, an ATT error or a GATT timeout (never another exception, never out of
    fuel, never blocked), and the connection is ready again (lock free, no prepared write
    pending, nothing in the queue that a later procedure could take for its answer). *)
Theorem C09_failure_is_error_client_usable :
  forall o c s mtu,
    ready c s mtu -> sinv s -> args_ok o ->
    exists out c' s',
      run_op o c s = (out, c', s') /\ usable out /\ ready c' s' (next_mtu o mtu) /\ sinv s'.
Proof. exact run_op_ready. Qed.

(** "after any outcome the client is able to run the next procedure", over ANY sequence of
    procedures with any arguments (FULL statement; it was refuted by the write-command
    desynchronisation until wait_for_message was repaired) *)
Theorem C09_client_usable_after :
  forall ops c s mtu,
    ready c s mtu -> sinv s -> Forall args_ok ops ->
    exists outs c' s',
      run_ops ops c s = (outs, c', s') /\ Forall usable outs /\ ready c' s' (mtu_after ops mtu) /\ sinv s'.
Proof. exact run_ops_ready. Qed.

(** MTU HISTORIES.  Operations include the MTU exchange in both directions: [OSetMtu m]
    (GattClient.set_mtu) and [OSrvMtu m] (GattServer.set_mtu, handled on the client by
    GattClient.on_exch_mtu_request).  After ANY history -- exchanges initiated by either end, in
    any order, with any values (below 23: not sent), mixed with any procedures -- both ends use
    the same MTU [mtu_after ops mtu] (the value of the last valid exchange; the code keeps the
    last requested value, it takes no minimum), a long read returns exactly the stored value and
    a long write to a writable characteristic stores the written bytes (followed by the old
    tail, the recorded finding). *)
Theorem C09_any_mtu_history_transfers_exact :
  forall ops c s mtu,
    ready c s mtu -> sinv s -> Forall args_ok ops ->
    exists outs c' s',
      run_ops ops c s = (outs, c', s') /\ Forall usable outs
      /\ c_mtu c' = mtu_after ops mtu /\ s_cmtu s' = mtu_after ops mtu /\ 23 <= mtu_after ops mtu
      /\ (forall h S, (h < 65536)%N -> readable_target (sdb s') h S -> (N.of_nat (length S) < 65536)%N ->
            client_read_long (read_long_fuel s') h c' s' = (Ok (VBytes S), flush c', s'))
      /\ (forall h u old p v, value_at (sdb s') h u old p -> writeable p = true ->
            (N.of_nat (length v) < 65536)%N ->
            client_write_long h v c' s'
            = (Ok VTrue, flush c', set_wq (set_db s' (update (sdb s') h (AValue u (v ++ skipn (length v) old)))) [])).
Proof. exact mtu_history_exact. Qed.

(** a concrete history: server-initiated exchanges above / equal / below the client's value and
    below 23, interleaved with client-initiated ones; 300 bytes written and read long at each
    stage come back whole *)
Theorem C09_mtu_history_example :
  let v := repeat 6%N 300 in
  let '(outs, c', s') :=
    run_ops [OSrvMtu 100; OWrite 3 v; OReadLong 3; OSetMtu 50; OReadLong 3; OSrvMtu 50; OSrvMtu 30;
             OWriteLong 3 v; OReadLong 3; OSetMtu 247; OSrvMtu 22; OReadLong 3]
            client_init (server_init d_wit) in
  nth 2 outs Blocked = Ok (VBytes v) /\ nth 4 outs Blocked = Ok (VBytes v)
  /\ nth 8 outs Blocked = Ok (VBytes v) /\ nth 11 outs Blocked = Ok (VBytes v)
  /\ c_mtu c' = 247 /\ s_cmtu s' = 247.
Proof. exact mtu_history_example. Qed.

(** a procedure that waits for an answer behaves EXACTLY as if the stale command errors were
    not in the queue: all the theorems stated from a [clean] state apply from a [ready] one *)
Theorem C09_stale_command_errors_ignored :
  forall o c s mtu,
    ready c s mtu -> args_ok o -> waits o = true ->
    run_op o c s = run_op o (flush c) s /\ clean (flush c) s mtu.
Proof. exact stale_command_errors_ignored. Qed.

(** the former witness of the desynchronisation (refused Write Command, then reads of two
    attributes) now returns each attribute's own value; a second refused command followed by a
    long write and a long read works as well *)
Theorem C09_refused_command_regression :
  run_ops [OWriteCmd 99 [1%N]; ORead 3; ORead 4; OWriteCmd 0 []; OWriteLong 3 (repeat 5%N 40); OReadLong 3]
          client_init (server_init d_wit)
  = ([Ok VTrue; Ok (VBytes (repeat 9%N 22)); Ok (VBytes [1; 2]%N); Ok VTrue; Ok VTrue; Ok (VBytes (repeat 5%N 40))],
     client_init,
     server_init (update d_wit 3 (AValue [0; 42]%N (repeat 5%N 40)))).
Proof. exact refused_command_regression. Qed.

(** procedures that cannot complete do raise *)
Theorem C09_read_not_permitted_raises :
  forall c s mtu h u v p,
    clean c s mtu -> value_at (sdb s) h u v p -> readable p = false ->
    client_read h c s = (Raise (EAtt E_READ_NOT_PERMITTED), c, s)
    /\ client_read_long (read_long_fuel s) h c s = (Raise (EAtt E_READ_NOT_PERMITTED), c, s).
Proof. exact read_not_permitted. Qed.

Theorem C09_unknown_handle_raises :
  forall c s mtu h v,
    clean c s mtu -> (h < 65536)%N -> h <> 0%N -> lookup (sdb s) h = None -> length v <= mtu - 3 ->
    client_read h c s = (Raise (EAtt E_ATTR_NOT_FOUND), c, s)
    /\ client_write h v c s = (Raise (EAtt E_ATTR_NOT_FOUND), c, s).
Proof. exact unknown_handle_raises. Qed.

Theorem C09_write_descriptor_raises :
  forall c s mtu h u x v,
    clean c s mtu -> (h < 65536)%N -> h <> 0%N -> lookup (sdb s) h = Some (ADesc u x) ->
    length v <= mtu - 3 ->
    client_write h v c s = (Raise (EAtt E_WRITE_NOT_PERMITTED), c, s).
Proof. exact write_descriptor_raises. Qed.

Theorem C09_write_long_not_permitted_raises :
  forall c s mtu h u old p v,
    clean c s mtu -> value_at (sdb s) h u old p -> writeable p = false -> v <> [] ->
    (N.of_nat (length v) < 65536)%N ->
    client_write_long h v c s = (Raise (EAtt E_WRITE_NOT_PERMITTED), c, set_wq s []).
Proof. exact write_long_not_permitted. Qed.

(** A long write (and a [write] taking the long path) to anything but a characteristic value is
    refused by the first Prepare Write and raises: unknown handle INVALID_HANDLE, CCCD
    REQUEST_NOT_SUPPORTED, service / declaration / other descriptor WRITE_NOT_PERMITTED; nothing
    is queued, nothing stored ([prep_refusal] gives the code). *)
Theorem C09_write_long_non_value_raises :
  forall c s mtu h v code,
    clean c s mtu -> (h < 65536)%N -> prep_refusal (lookup (sdb s) h) = Some code -> v <> [] ->
    client_write_long h v c s = (Raise (EAtt code), c, s)
    /\ (mtu - 3 < length v -> client_write h v c s = (Raise (EAtt code), c, s)).
Proof. exact write_long_non_value. Qed.

(** WHATEVER the handle holds: a long write that reports success has stored the written bytes in
    a characteristic value, followed by what the old value had beyond their length (the only
    recorded exception to "stored = written", KNOWN-FINDING long-write-keeps-old-tail), and
    touched nothing else; or there was no byte to write and nothing changed. *)
Theorem C09_write_long_ok_stores_any_attribute :
  forall c s mtu h v c' s',
    clean c s mtu -> (h < 65536)%N -> h <> 0%N -> wf_db (sdb s) -> (N.of_nat (length v) < 65536)%N ->
    client_write_long h v c s = (Ok VTrue, c', s') ->
    (exists u old, lookup (sdb s) h = Some (AValue u old)
                   /\ lookup (sdb s') h = Some (AValue u (v ++ skipn (length v) old))
                   /\ (forall h', h' <> h -> lookup (sdb s') h' = lookup (sdb s) h'))
    \/ (v = [] /\ sdb s' = sdb s).
Proof. exact write_long_success_any. Qed.

(** Non-vacuity: a concrete database meets the hypotheses; 329 bytes at MTU 23 (19 chunks) are
    stored entirely and read back entirely (15 requests). *)
Example C09_nonvacuous :
  let v := repeat 5%N 329 in
  clean client_init (server_init d_wit) 23 /\ sinv (server_init d_wit)
  /\ value_at d_wit 3 [0; 42]%N (repeat 9%N 30) 10
  /\ readable_target d_wit 3 (repeat 9%N 30)
  /\ (let '(o, _, s') := client_write 3 v client_init (server_init d_wit) in
      o = Ok VTrue /\ lookup (sdb s') 3 = Some (AValue [0; 42]%N v)
      /\ fst (fst (client_read_long (read_long_fuel s') 3 client_init s')) = Ok (VBytes v)).
Proof. exact nonvacuous. Qed.
